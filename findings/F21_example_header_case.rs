// candidate F21: with ignore_header_case configured, the live pipeline compares header VALUES without regard to case (the proxy's request is
// rebuilt with lower-cased values, rules lower-case theirs). Request::from_example adds the example's headers with ignore_case = false, and the
// analyses match that request as it is: an example that the live pipeline redirects is reported as not matching.
use redirectionio::api::{ExplainRequestInput, ExplainRequestOutput, Rule};
use redirectionio::http::Request;
use redirectionio::router::Router;
use redirectionio::RouterConfig;

const RULE: &str = r#"{"id":"r1","rank":1,"source":{"host":"","path":"/a","query":"","headers":[{"name":"X-Foo","type":"is_equals","value":"Bar"}]},"target":"/b","status_code":302}"#;

fn config() -> RouterConfig {
    let mut c = RouterConfig::default();
    c.ignore_header_case = true;
    c
}

#[test]
fn live_pipeline_matches() {
    let mut router = Router::<Rule>::from_config(config());
    router.insert(serde_json::from_str(RULE).unwrap());
    // the proxy: request created, headers added, then rebuilt by the router with its configuration
    let mut request = Request::from_config(&router.config, "/a".to_string(), None, None, None, None, None);
    request.add_header("X-Foo".to_string(), "Bar".to_string(), false);
    let rebuilt = router.rebuild_request(&request);
    assert_eq!(router.match_request(&rebuilt).len(), 1);
}

#[test]
fn explain_reports_what_the_live_pipeline_does() {
    let json = format!(
        r#"{{"router_config":{{"ignore_header_case":true}},"max_hops":5,"project_domains":[],"rules":[{}],
            "example":{{"url":"/a","must_match":true,"headers":[{{"name":"X-Foo","value":"Bar"}}]}}}}"#,
        RULE
    );
    let input: ExplainRequestInput = serde_json::from_str(json.as_str()).expect("input");
    let out = ExplainRequestOutput::create_result_without_project(input).ok().expect("result");
    let v = serde_json::to_value(&out).unwrap();
    assert_eq!(v["response"]["status_code"].as_u64().unwrap(), 302);
}

// witness for F7: a rule with two ip ranges that both contain the client address is reported TWICE by Router::match_request
// (IpMatcher files the rule under each of its ranges and concatenates the answers of every matching range bucket); the action then applies
// the rule's header filters twice. Statement C01: "each such rule is reported exactly once".
// run as an integration test of the crate: cp to tests/ and `cargo test --test f7_ip_duplicates`
use redirectionio::action::Action;
use redirectionio::api::Rule;
use redirectionio::http::{Header, Request};
use redirectionio::router::Router;
use redirectionio::RouterConfig;
use std::net::IpAddr;
use std::str::FromStr;

fn router() -> Router<Rule> {
    let json = r#"{"id":"r1","rank":1,"source":{"host":"","path":"/a","query":"","ips":[{"in_range":"10.0.0.0/8"},{"in_range":"10.1.0.0/16"}]},
        "header_filters":[{"action":"add","header":"X-Test","value":"1"}]}"#;
    let mut router = Router::<Rule>::from_config(RouterConfig::default());
    router.insert(serde_json::from_str(json).expect("rule json"));
    router
}

#[test]
fn a_rule_with_two_matching_ip_ranges_is_reported_once() {
    let router = router();
    let mut request = Request::from_config(&router.config, "/a".to_string(), None, None, None, None, None);
    request.set_remote_ip(IpAddr::from_str("10.1.2.3").unwrap());
    let routes = router.match_request(&request);
    let ids: Vec<&str> = routes.iter().map(|r| r.id()).collect();
    assert_eq!(ids, vec!["r1"], "the rule must be reported exactly once");

    let mut action = Action::from_routes_rule(routes, &request, None);
    let headers: Vec<Header> = action.filter_headers(Vec::new(), 200, false, None);
    assert_eq!(headers.iter().filter(|h| h.name == "X-Test").count(), 1, "the add filter must be applied once");
}

#[test]
fn one_matching_range_out_of_two_still_matches() {
    let router = router();
    let mut request = Request::from_config(&router.config, "/a".to_string(), None, None, None, None, None);
    request.set_remote_ip(IpAddr::from_str("10.9.9.9").unwrap());
    assert_eq!(router.match_request(&request).len(), 1);
    request.set_remote_ip(IpAddr::from_str("192.168.1.1").unwrap());
    assert_eq!(router.match_request(&request).len(), 0);
}

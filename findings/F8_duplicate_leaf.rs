// witness for F8: storing a value under an existing (pattern, id) must replace it. When the pattern equals the prefix of the node that holds
// its leaf (here "/ab" after "/abc" was added), Node::insert does not descend into that leaf (its common prefix is not LONGER than the
// node's) and appends a second leaf for the same pattern: the old value stays, lookups return both, the size grows.
// run as an integration test of the crate: cp to tests/ and `cargo test --test f8_duplicate_leaf`
use redirectionio::regex_radix_tree::{RegexTreeMap, UniqueRegexTreeMap};

#[test]
fn storing_under_an_existing_pattern_and_id_replaces_the_value() {
    let mut tree = RegexTreeMap::<&'static str>::new(false);
    tree.insert("/ab", "1", "old");
    tree.insert("/abc", "2", "other");
    tree.insert("/ab", "1", "new");
    assert_eq!(tree.find("/ab"), vec![&"new"], "the value stored under (/ab, 1) must have been replaced");
    assert_eq!(tree.len(), 2);
    assert_eq!(tree.get("/ab"), vec![&"new"]);
}

#[test]
fn unique_map_keeps_one_value_per_pattern() {
    let mut tree = UniqueRegexTreeMap::<&'static str>::new(false);
    tree.insert("/ab", "old");
    tree.insert("/abc", "other");
    tree.insert("/ab", "new");
    assert_eq!(tree.find("/ab"), vec![&"new"]);
    assert_eq!(tree.len(), 2);
    assert_eq!(tree.get("/ab"), Some(&"new"));
}

// F8b: the node's prefix length is taken in BYTES and compared with a common-prefix size in CHARACTERS: below a node whose prefix holds a
// non-ASCII character every insertion "splits" the node again (new node with the same prefix) and never reaches the existing leaf.
#[test]
fn replacing_below_a_non_ascii_prefix() {
    let mut tree = RegexTreeMap::<&'static str>::new(false);
    tree.insert("/éa", "1", "old");
    tree.insert("/éb", "2", "other");
    tree.insert("/éa", "1", "new");
    assert_eq!(tree.find("/éa"), vec![&"new"], "the value stored under (/éa, 1) must have been replaced");
    assert_eq!(tree.len(), 2);
}

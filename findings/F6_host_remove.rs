// witness for F6: Router::remove does not return (and HostMatcher does not account for) a removed rule whose host contains a marker
// (regex host bucket): `self.regex_tree_rule.retain(&|_, matcher| { matcher.remove(id); !matcher.is_empty() })` drops the result.
// run as an integration test of the crate: cp to tests/ and `cargo test --test f6_host_remove`
use redirectionio::api::Rule;
use redirectionio::http::Request;
use redirectionio::router::Router;
use redirectionio::RouterConfig;

fn rule(id: &str, host: &str, path: &str, markers: &str) -> Rule {
    let json = format!(
        r#"{{"id":"{id}","rank":1,"source":{{"host":"{host}","path":"{path}","query":""}},"markers":{markers},"target":"/to","redirect_code":301}}"#
    );
    serde_json::from_str(&json).expect("rule json")
}

const MARKER: &str = r#"[{"name":"sub","regex":"[a-z]+","transformers":[]}]"#;

#[test]
fn removing_a_rule_with_a_marker_host_returns_it() {
    let mut router = Router::<Rule>::from_config(RouterConfig::default());
    router.insert(rule("static-host", "www.example.org", "/a", "[]"));
    router.insert(rule("marker-host", "@sub.example.org", "/a", MARKER));
    assert_eq!(router.len(), 2);

    let request = Request::from_config(&router.config, "/a".to_string(), Some("shop.example.org".to_string()), None, None, None, None);
    assert_eq!(router.match_request(&request).len(), 1);

    // control: a static-host rule is returned by its removal
    assert!(router.remove("static-host").is_some());
    // the marker-host rule is removed (it no longer matches) ...
    let removed = router.remove("marker-host");
    assert_eq!(router.match_request(&request).len(), 0);
    assert_eq!(router.len(), 0);
    // ... and must be returned by the removal
    assert!(removed.is_some(), "Router::remove returned None for a live rule with a marker host");
    assert_eq!(removed.unwrap().id(), "marker-host");
}

// candidate F24: under ignore_path_and_query_case, matching must depend neither on the ASCII letter case nor on the order of the query parameters
// (statement C09). Both sides sort the query by key FIRST (BTreeMap over the keys as written) and lower-case the rendered string AFTERWARDS. Upper-case
// ASCII letters sort before lower-case ones, so the rule `Size=XL&color=Red` is stored as `size=xl&color=red` while the request `size=xl&color=red`
// is rendered as `color=red&size=xl`: the two spellings of the same URL do not meet.
use redirectionio::api::Rule;
use redirectionio::http::Request;
use redirectionio::router::Router;
use redirectionio::RouterConfig;

fn ids(rule_query: &str, url: &str) -> Vec<String> {
    let mut config = RouterConfig::default();
    config.ignore_path_and_query_case = true;
    let json = format!(r#"{{"id":"r1","rank":1,"source":{{"host":"","path":"/p","query":"{}"}},"target":"/b","status_code":302}}"#, rule_query);
    let mut router = Router::<Rule>::from_config(config);
    router.insert(serde_json::from_str(json.as_str()).expect("rule json"));
    let request = Request::from_config(&router.config, url.to_string(), None, None, None, None, None);
    router.match_request(&request).iter().map(|r| r.id().to_string()).collect()
}

#[test]
fn own_literal_url_matches() {
    assert_eq!(ids("Size=XL&color=Red", "/p?Size=XL&color=Red"), vec!["r1"]);
    assert_eq!(ids("Size=XL&color=Red", "/p?color=Red&Size=XL"), vec!["r1"], "another order");
}

#[test]
fn another_letter_case_matches_too() {
    assert_eq!(ids("Size=XL&color=Red", "/p?size=xl&color=red"), vec!["r1"], "lower-case spelling of the same URL");
    assert_eq!(ids("size=xl&color=red", "/p?Size=XL&color=Red"), vec!["r1"], "upper-case spelling of the same URL");
}

#[test]
fn keys_differing_only_in_case_are_one_parameter() {
    // the later occurrence of a key wins on both sides when the keys are spelled alike; spelled differently they must still be the same parameter
    assert_eq!(ids("a=1", "/p?a=1"), vec!["r1"]);
    assert_eq!(ids("a=1", "/p?A=1"), vec!["r1"]);
}

// witness for F17: a rule's response-status condition is an EXCLUSION list only when `exclude_response_status_codes` is true.
// Action::from_route_rule tests the flag with `.is_some()`, so an explicit `false` is treated like `true`: a redirect restricted to
// backend status 404 ("response_status_codes": [404], "exclude_response_status_codes": false) is NOT applied on 404 and IS applied on
// every other status. Statement C05: every effect is attributable to a matched rule whose response-status condition admits that code.
// run as an integration test of the crate: cp to tests/ and `cargo test --test f17_exclude_status_false`
use redirectionio::action::Action;
use redirectionio::api::Rule;
use redirectionio::http::Request;
use redirectionio::router::Router;
use redirectionio::RouterConfig;

fn action_for(flag: &str) -> Action {
    let json = format!(
        r#"{{"id":"r1","rank":1,"source":{{"host":"","path":"/a","query":"","response_status_codes":[404]{}}},"target":"/b","status_code":302}}"#,
        flag
    );
    let mut router = Router::<Rule>::from_config(RouterConfig::default());
    router.insert(serde_json::from_str(json.as_str()).expect("rule json"));
    let request = Request::from_config(&router.config, "/a".to_string(), None, None, None, None, None);
    let routes = router.match_request(&request);
    assert_eq!(routes.len(), 1);
    Action::from_routes_rule(routes, &request, None)
}

#[test]
fn absent_flag_means_inclusion_list() {
    let mut action = action_for("");
    assert_eq!(action.get_status_code(404, None), 302);
    assert_eq!(action.get_status_code(200, None), 0);
}

#[test]
fn explicit_false_flag_means_inclusion_list_too() {
    let mut action = action_for(r#","exclude_response_status_codes":false"#);
    assert_eq!(action.get_status_code(404, None), 302, "the rule is restricted to backend status 404: it must apply there");
    assert_eq!(action.get_status_code(200, None), 0, "and must not apply on another status");
}

#[test]
fn true_flag_means_exclusion_list() {
    let mut action = action_for(r#","exclude_response_status_codes":true"#);
    assert_eq!(action.get_status_code(404, None), 0);
    assert_eq!(action.get_status_code(200, None), 302);
}

// witness for F3: Slice::transform panics for from > to and for offsets inside a multi-byte character
use redirectionio::marker::{Slice, Transform};
#[test]
fn slice_inverted_range_does_not_panic() {
    let s = Slice::new(5, Some(2));
    let _ = s.transform("abcdefghij".to_string());
}
#[test]
fn slice_inside_multibyte_char_does_not_panic() {
    let s = Slice::new(1, Some(2));
    let _ = s.transform("ééé".to_string());
}
#[test]
fn slice_regular() {
    assert_eq!(Slice::new(1, Some(3)).transform("abcdef".to_string()), "bc");
    assert_eq!(Slice::new(2, None).transform("abcdef".to_string()), "cdef");
    assert_eq!(Slice::new(9, None).transform("abcdef".to_string()), "");
    assert_eq!(Slice::new(1, Some(99)).transform("abcdef".to_string()), "bcdef");
}

// candidate F20: the impact analysis reports, for an example, the response of the live pipeline (statement C19). An example may carry the
// status the BACKEND would answer. The live pipeline first decides at request time (get_status_code(0)): an unconditional redirect answers
// before any backend is called. Action::get_final_status_code_with_fallback asks get_status_code(<backend status>) first.
use redirectionio::api::{ImpactInput, ImpactOutput};

fn status(example_status: &str) -> u16 {
    let json = format!(
        r#"{{"router_config":{{}},"max_hops":5,"with_redirection_loop":false,"domains":[],"action":"add","rules":[],
            "rule":{{"id":"r1","rank":1,"source":{{"host":"","path":"/a","query":""}},"target":"/b","status_code":302,
                     "examples":[{{"url":"/a","must_match":true{}}}]}}}}"#,
        example_status
    );
    let input: ImpactInput = serde_json::from_str(json.as_str()).expect("impact input");
    let out = ImpactOutput::create_result(input);
    let v = serde_json::to_value(&out).unwrap();
    v["impacts"][0]["response"]["status_code"].as_u64().unwrap() as u16
}

#[test]
fn example_without_backend_status() {
    assert_eq!(status(""), 302);
}

#[test]
fn example_with_a_backend_status_is_still_redirected_at_request_time() {
    assert_eq!(status(r#","response_status_code":404"#), 302);
}

// witness for F15: a rule with "methods": ["GET"] and "exclude_methods": false is filed under the EXCLUSION lists (MethodMatcher::insert tests
// route.exclude_methods().is_some() instead of the flag value): it does not match GET and matches every other method.
// run as an integration test of the crate: cp to tests/ and `cargo test --test f15`
use redirectionio::api::Rule;
use redirectionio::http::Request;
use redirectionio::router::Router;
use redirectionio::RouterConfig;

fn rule(id: &str, exclude: &str) -> Rule {
    let json = format!(r#"{{"id":"{id}","rank":1,"source":{{"host":"","path":"/a","query":"","methods":["GET"],"exclude_methods":{exclude}}},"target":"/to","redirect_code":301}}"#);
    serde_json::from_str(&json).expect("rule json")
}
fn ids(router: &Router<Rule>, method: &str) -> Vec<String> {
    let request = Request::from_config(&router.config, "/a".to_string(), None, None, Some(method.to_string()), None, None);
    let mut v: Vec<String> = router.match_request(&request).iter().map(|r| r.id().to_string()).collect();
    v.sort();
    v
}
#[test]
fn exclude_methods_false_is_an_inclusion_list() {
    let mut router = Router::<Rule>::from_config(RouterConfig::default());
    router.insert(rule("incl-null", "null"));
    router.insert(rule("incl-false", "false"));
    router.insert(rule("excl-true", "true"));
    assert_eq!(ids(&router, "GET"), vec!["incl-false".to_string(), "incl-null".to_string()]);
    assert_eq!(ids(&router, "POST"), vec!["excl-true".to_string()]);
}

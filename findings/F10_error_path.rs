// witness for F10 (KNOWN FINDING, recorded not repaired): when a body filter fails internally after bytes were held back by an
// earlier chunk, FilterBodyAction::filter switches to pass-through and returns only the current chunk: the held-back bytes are lost.
// run as an integration test of the crate: cp to tests/ and `cargo test --test f10_error_path`
use redirectionio::api::{BodyFilter, HTMLBodyFilter};
use redirectionio::filter::FilterBodyAction;

fn filter() -> FilterBodyAction {
    let f = BodyFilter::HTML(HTMLBodyFilter {
        action: "append_child".to_string(),
        css_selector: None,
        element_tree: vec!["html".to_string(), "body".to_string()],
        value: "<!--X-->".to_string(),
        inner_value: None,
        id: Some("f".to_string()),
        target_hash: None,
    });
    FilterBodyAction::new(vec![f], &[])
}

#[test]
fn bytes_held_back_before_an_internal_error_are_not_lost() {
    // chunk 1 ends inside a tag: "<di" is held back for the next chunk
    let c1: Vec<u8> = b"<html><di".to_vec();
    // chunk 2 completes the tag with a byte that is not UTF-8: the HTML stage fails internally and the filter passes through
    let c2: Vec<u8> = b"v\xff>x</div></html>".to_vec();
    let mut input = c1.clone();
    input.extend(c2.clone());

    let mut fa = filter();
    let mut out = fa.filter(c1, None);
    out.extend(fa.filter(c2, None));
    out.extend(fa.end(None));
    assert_eq!(String::from_utf8_lossy(&out), String::from_utf8_lossy(&input), "the body must pass through byte-for-byte when the filter fails internally");
}

#[test]
fn same_bytes_in_one_chunk_pass_through() {
    let input: Vec<u8> = b"<html><div\xff>x</div></html>".to_vec();
    let mut fa = filter();
    let mut out = fa.filter(input.clone(), None);
    out.extend(fa.end(None));
    assert_eq!(out, input);
}

// witness for F13: HtmlFilterBodyAction::end emits the unparsed tail before the buffered element (reorders bytes)
use redirectionio::api::{BodyFilter, HTMLBodyFilter};
use redirectionio::filter::FilterBodyAction;
#[test]
fn end_keeps_stream_order() {
    let mut f = FilterBodyAction::new(
        vec![BodyFilter::HTML(HTMLBodyFilter {
            action: "replace".to_string(),
            element_tree: vec!["html".to_string(), "body".to_string(), "div".to_string()],
            css_selector: None,
            value: "<p>NEW</p>".to_string(),
            inner_value: None,
            id: None,
            target_hash: None,
        })],
        &[],
    );
    let input = b"<html><body><div>abc<sp".to_vec();
    let mut out = f.filter(input.clone(), None);
    out.extend(f.end(None));
    // the element is never closed, so nothing is replaced: the truncated document must pass through unchanged
    assert_eq!(String::from_utf8(out).unwrap(), String::from_utf8(input).unwrap());
}

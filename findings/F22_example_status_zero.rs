// candidate F22: the analyses report, for an example, what the live pipeline produces (statement C19). An example status of 0 means "not given"
// to the library's shared two-phase status decision (Action::get_final_status_code_with_fallback: 0 falls back to 200), which the explain and
// impact analyses use. The test-example and unit-id analyses carry their own copy of that decision with `response_status_code.unwrap_or(200)`:
// an example with `"response_status_code": 0` is evaluated with backend status 0, so a filter conditioned on status 200 is reported as not
// applied while explain (and the live pipeline, whose backend never answers 0) apply it.
use redirectionio::api::{ExplainRequestInput, ExplainRequestOutput, TestExamplesInput, TestExamplesOutput, UnitIdsInput, UnitIdsOutput};
use serde_json::{from_str as json_decode, json, to_value};

fn rules_json(status: serde_json::Value, unit_ids_applied: Option<Vec<String>>) -> serde_json::Value {
    json!([{
        "id": "B", "rank": 1,
        "source": { "host": "", "path": "/page", "query": "", "scheme": "", "sampling": null, "methods": [], "headers": [], "response_status_codes": [200], "ips": [] },
        "markers": [],
        "body_filters": [ { "action": "append_text", "content": "<!-- seen -->", "id": "B:body", "target_hash": "text" } ],
        "header_filters": [], "target": "", "redirect_code": null, "redirect_unit_id": null,
        "examples": [ { "url": "/page", "method": "GET", "headers": [], "ip_address": null, "response_status_code": status, "must_match": true, "unit_ids_applied": unit_ids_applied } ]
    }])
}
fn cfg() -> serde_json::Value {
    json!({ "ignore_host_case": false, "ignore_header_case": false, "ignore_path_and_query_case": false, "ignore_marketing_query_params": true,
            "marketing_query_params": [], "pass_marketing_query_params_to_target": true, "always_match_any_host": false })
}
fn explain_ids(status: serde_json::Value) -> Vec<String> {
    let rules = rules_json(status, None);
    let example = rules[0]["examples"][0].clone();
    let input: ExplainRequestInput = json_decode(&json!({ "router_config": cfg(), "rules": rules, "example": example, "max_hops": 5 }).to_string()).unwrap();
    let explain = match ExplainRequestOutput::create_result_without_project(input) { Ok(e) => to_value(&e).unwrap(), Err(_) => panic!("explain failed") };
    explain["unit_trace"]["unit_ids_applied"].as_array().unwrap().iter().map(|v| v.as_str().unwrap().to_string()).collect()
}
fn unit_ids(status: serde_json::Value) -> Vec<String> {
    let input: UnitIdsInput = json_decode(&json!({ "router_config": cfg(), "rules": rules_json(status, None) }).to_string()).unwrap();
    let out = UnitIdsOutput::create_result_without_project(input);
    out.rules.get("B").unwrap().examples[0].unit_ids_applied.clone().unwrap()
}
fn failures(status: serde_json::Value, ids: Vec<String>) -> u32 {
    let input: TestExamplesInput = json_decode(&json!({ "router_config": cfg(), "rules": rules_json(status, Some(ids)), "max_hops": 5 }).to_string()).unwrap();
    TestExamplesOutput::create_result_without_project(input).failure_count
}

#[test]
fn status_not_given_all_analyses_agree() {
    let ids = explain_ids(json!(null));
    assert!(ids.contains(&"B:body".to_string()));
    assert_eq!(unit_ids(json!(null)), ids);
    assert_eq!(failures(json!(null), ids), 0);
}

#[test]
fn status_zero_means_not_given_for_the_test_example_analysis() {
    let ids = explain_ids(json!(0));
    assert!(ids.contains(&"B:body".to_string()), "explain (shared decision, 0 falls back to 200): {ids:?}");
    assert_eq!(failures(json!(0), ids), 0, "test-example analysis evaluates the example with backend status 0");
}

#[test]
fn status_zero_means_not_given_for_the_unit_id_analysis() {
    let ids = explain_ids(json!(0));
    assert_eq!(unit_ids(json!(0)), ids, "unit-id analysis evaluates the example with backend status 0");
}

// witness for F11 / F11b: HTML body filtering is not invariant under chunking (statement C03).
// HtmlFilterBodyAction::filter tokenises every chunk with a FRESH tokenizer. What the abandoned tokenizer knew is lost:
//  F11  inside <script> (raw text) a following chunk is tokenised as markup: tags inside the script text are routed to the filters;
//  F11b a multi-byte character cut by the chunk boundary makes the text conversion of the first part fail.
// run as an integration test of the crate: cp to tests/ and `cargo test --test f11_chunk_context`
use redirectionio::api::{BodyFilter, HTMLBodyFilter};
use redirectionio::filter::FilterBodyAction;

fn filter() -> FilterBodyAction {
    FilterBodyAction::new(
        vec![BodyFilter::HTML(HTMLBodyFilter {
            action: "append_child".to_string(),
            element_tree: vec!["html".to_string(), "body".to_string(), "div".to_string()],
            css_selector: None,
            value: "<b>X</b>".to_string(),
            id: None,
            target_hash: None,
            inner_value: None,
        })],
        &[],
    )
}

fn run(chunks: &[&[u8]]) -> Vec<u8> {
    let mut f = filter();
    let mut out = Vec::new();
    for c in chunks {
        out.extend(f.filter(c.to_vec(), None));
    }
    out.extend(f.end(None));
    out
}

#[test]
fn script_context_survives_a_chunk_boundary() {
    let body: &[u8] = b"<html><body><script>var a = '<div></div>';</script><div>real</div></body></html>";
    let whole = run(&[body]);
    // the only <div> element is the real one
    assert_eq!(String::from_utf8_lossy(&whole), "<html><body><script>var a = '<div></div>';</script><div>real<b>X</b></div></body></html>");
    let cut = 29; // inside the script text, right before "<div>"
    let chunked = run(&[&body[..cut], &body[cut..]]);
    assert_eq!(String::from_utf8_lossy(&chunked), String::from_utf8_lossy(&whole), "cut inside the script text");
}

#[test]
fn a_multi_byte_character_may_be_cut_by_the_chunk_boundary() {
    let body = "<html><body><div>caf\u{e9}</div></body></html>".as_bytes().to_vec();
    let whole = run(&[&body]);
    assert_eq!(String::from_utf8_lossy(&whole), "<html><body><div>caf\u{e9}<b>X</b></div></body></html>");
    let cut = body.iter().position(|b| *b == 0xc3).unwrap() + 1; // between the two bytes of 'é'
    let chunked = run(&[&body[..cut], &body[cut..]]);
    assert_eq!(chunked, whole, "cut inside a two-byte character");
}

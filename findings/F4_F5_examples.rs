// witnesses for F4 (Request::from_example unwraps IpAddr::from_str on the example's ip_address) and
// F5 (RedirectionLoop::compute unwraps Url::host_str() on a redirect target without a host, e.g. mailto:)
// run as an integration test of the crate: cp to tests/ and `cargo test --test F4_F5_examples`
use redirectionio::api::{TestExamplesInput, TestExamplesOutput};

fn input(target: &str, example_extra: &str, project_domains: &str) -> TestExamplesInput {
    let json = format!(
        r#"{{
    "router_config": {{}},
    "rules": [{{
        "source": {{"host": "", "path": "/from", "query": ""}},
        "id": "rule-1", "rank": 1, "markers": [], "body_filters": [], "header_filters": [],
        "target": "{target}", "redirect_code": 301, "redirect_unit_id": "unit-1",
        "examples": [{{"url": "/from", "must_match": true, "method": "GET", "response_status_code": 200, "unit_ids_applied": ["unit-1"]{example_extra}}}]
    }}],
    "max_hops": 5,
    "project_domains": {project_domains}
}}"#
    );
    serde_json::from_str(&json).expect("fixture json")
}

#[test]
fn f4_invalid_example_ip_address_does_not_panic() {
    let _ = TestExamplesOutput::create_result_without_project(input("/to", r#", "ip_address": "not-an-ip""#, "[]"));
}

#[test]
fn f5_redirect_to_hostless_url_does_not_panic() {
    let _ = TestExamplesOutput::create_result_without_project(input("mailto:someone@example.com", "", r#"["example.com"]"#));
}

#[test]
fn regular_example_still_analysed() {
    let out = TestExamplesOutput::create_result_without_project(input("/to", r#", "ip_address": "10.0.0.1""#, r#"["example.com"]"#));
    let json = serde_json::to_string(&out).unwrap();
    assert!(json.contains("\"example_count\":1"), "{json}");
}

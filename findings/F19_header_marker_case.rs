// witness for F19: a marker in a HEADER pattern is captured only when the request spells the header name exactly like the rule.
// Header names are matched case-insensitively (HeaderMatcher compares lower-cased names), so the rule MATCHES `x-test-marker: foo`, but
// Route::capture compares `request_header.name != header.name` byte for byte and skips the capture: the marker reaches the target
// unsubstituted. Statement C10: the rule matches, and every occurrence of a marker in the redirect target is replaced by the instantiated string.
use redirectionio::action::Action;
use redirectionio::api::Rule;
use redirectionio::http::{Header, Request};
use redirectionio::router::Router;
use redirectionio::RouterConfig;

fn location(header_name: &str) -> Option<String> {
    let json = r#"{"id":"rule-header-marker","markers":[{"name":"marker","regex":"(?:f.+?)"}],"rank":0,"source":{"headers":[{"name":"X-Test-Marker","type":"match_regex","value":"@marker"}],"path":"/test"},"status_code":302,"target":"/baz/@marker"}"#;
    let mut router = Router::<Rule>::from_config(RouterConfig::default());
    router.insert(serde_json::from_str(json).expect("rule json"));
    let mut request = Request::from_config(&router.config, "/test".to_string(), None, None, None, None, None);
    request.add_header(header_name.to_string(), "foo".to_string(), false);
    let routes = router.match_request(&request);
    assert_eq!(routes.len(), 1, "the rule matches whatever the case of the header name");
    let mut action = Action::from_routes_rule(routes, &request, None);
    assert_eq!(action.get_status_code(0, None), 302);
    let headers: Vec<Header> = action.filter_headers(Vec::new(), 0, false, None);
    headers.iter().find(|h| h.name == "Location").map(|h| h.value.clone())
}

#[test]
fn same_spelling() {
    assert_eq!(location("X-Test-Marker").as_deref(), Some("/baz/foo"));
}

#[test]
fn lower_case_header_name() {
    assert_eq!(location("x-test-marker").as_deref(), Some("/baz/foo"));
}

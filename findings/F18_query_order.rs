// witness for F18: matching must not depend on the order of the query parameters, under EVERY router configuration (statement C09).
// With ignore_marketing_query_params = false, PathAndQueryWithSkipped::from_config returns the sanitised URL as it came (early return),
// while the rule side always sorts its query (Request::build_sorted_query in Rule::path_and_query).
use redirectionio::api::Rule;
use redirectionio::http::Request;
use redirectionio::router::Router;
use redirectionio::RouterConfig;

fn ids(config: RouterConfig, url: &str) -> Vec<String> {
    let json = r#"{"id":"r1","rank":1,"source":{"host":"","path":"/a","query":"a=2&b=1"},"target":"/b","status_code":302}"#;
    let mut router = Router::<Rule>::from_config(config);
    router.insert(serde_json::from_str(json).expect("rule json"));
    let request = Request::from_config(&router.config, url.to_string(), None, None, None, None, None);
    router.match_request(&request).iter().map(|r| r.id().to_string()).collect()
}

#[test]
fn default_configuration_ignores_the_order() {
    assert_eq!(ids(RouterConfig::default(), "/a?a=2&b=1"), vec!["r1"]);
    assert_eq!(ids(RouterConfig::default(), "/a?b=1&a=2"), vec!["r1"]);
}

#[test]
fn configuration_keeping_marketing_parameters_ignores_the_order_too() {
    let mut config = RouterConfig::default();
    config.ignore_marketing_query_params = false;
    assert_eq!(ids(config.clone(), "/a?a=2&b=1"), vec!["r1"]);
    assert_eq!(ids(config, "/a?b=1&a=2"), vec!["r1"], "same parameters in another order");
}

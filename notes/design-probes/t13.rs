use vstd::prelude::*;
use vstd::string::StringSliceAdditionalSpecFns;
verus! {
pub struct Error { pub kind: u8 }
pub struct Span { pub start: usize, pub end: usize }
pub struct Tokenizer {
    pub reader: Vec<u8>,
    pub err: Option<Error>,
    pub raw: Span,
    pub data: Span,
    pub raw_tag: String,
}
pub assume_specification [std::string::String::len] (s: &std::string::String) -> (r: usize)
    ensures r == vstd::utf8::encode_utf8(s@).len();
pub assume_specification [std::string::String::as_bytes] (s: &std::string::String) -> (r: &[u8])
    ensures r@ == vstd::utf8::encode_utf8(s@);

impl Tokenizer {
    pub open spec fn tag_bytes(&self) -> Seq<u8> { vstd::utf8::encode_utf8(self.raw_tag@) }
    pub open spec fn wf(&self) -> bool {
        &&& self.raw.start <= self.raw.end <= self.reader.len()
        &&& (self.err.is_some() ==> self.raw.end == self.reader.len())
        &&& self.tag_bytes().len() <= 9
        &&& forall|i: int| 0 <= i < self.tag_bytes().len() ==> 97 <= #[trigger] self.tag_bytes()[i] <= 122
    }
    pub open spec fn same(&self, o: &Tokenizer) -> bool {
        &&& self.reader == o.reader
        &&& self.raw.start == o.raw.start
        &&& self.raw_tag == o.raw_tag
    }
    pub open spec fn left(&self) -> int { self.reader.len() - self.raw.end }

    fn read_byte(&mut self) -> (b: u8)
        requires old(self).wf(),
        ensures
            final(self).wf(), final(self).same(old(self)), final(self).data == old(self).data,
            old(self).raw.end < old(self).reader.len() ==> final(self).raw.end == old(self).raw.end + 1 && b == old(self).reader[old(self).raw.end as int] && (final(self).err.is_some() == old(self).err.is_some()),
            old(self).raw.end >= old(self).reader.len() ==> final(self).raw.end == old(self).raw.end && final(self).err.is_some() && b == 0,
    {
        match self.reader.get(self.raw.end) {
            Some(byte) => {
                self.raw.end += 1;

                *byte
            }
            None => {
                self.err = Some(Error {
                    kind: 1,
                });

                0
            }
        }
    }

    // entered after "</" has been read
    fn read_raw_end_tag(&mut self) -> (r: bool)
        requires old(self).wf(), old(self).err.is_none(), old(self).raw.end >= old(self).raw.start + 2,
        ensures final(self).wf(), final(self).same(old(self)),
            r ==> final(self).err.is_none() && final(self).raw.end == old(self).raw.end - 2,
            !r ==> final(self).raw.end >= old(self).raw.end,
            !r && final(self).err.is_none() ==> final(self).raw.end >= old(self).raw.end,
    {
        for i in 0..self.raw_tag.len()
            invariant self.wf(), self.same(old(self)), self.err.is_none(), self.raw.end == old(self).raw.end + i,
                vstd::utf8::encode_utf8(self.raw_tag@).len() == vstd::utf8::encode_utf8(old(self).raw_tag@).len(),
        {
            let byte = self.read_byte();

            if self.err.is_some() {
                return false;
            }

            if byte != self.raw_tag.as_bytes()[i] && byte != self.raw_tag.as_bytes()[i] - (b'a' - b'A') {
                self.raw.end -= 1;

                return false;
            }
        }

        let byte = self.read_byte() as char;

        if self.err.is_some() {
            return false;
        }

        match byte {
            ' ' | '\n' | '\r' | '\t' | '\x0c' | '/' | '>' => {
                self.raw.end -= 3 + self.raw_tag.len();

                true
            }
            _ => {
                self.raw.end -= 1;

                false
            }
        }
    }

    fn read_script_data(&mut self)
        requires old(self).wf(), old(self).err.is_none(),
        ensures final(self).wf(), final(self).same(old(self)), final(self).raw.end >= old(self).raw.end,
        decreases old(self).left(), 0int,
    {
        let byte = self.read_byte() as char;

        if self.err.is_some() {
            return;
        }

        if byte == '<' {
            self.read_script_data_less_than_sign();

            return;
        }

        self.read_script_data();
    }

    fn read_script_data_less_than_sign(&mut self)
        requires old(self).wf(), old(self).err.is_none(), old(self).raw.end >= old(self).raw.start + 1,
        ensures final(self).wf(), final(self).same(old(self)), final(self).raw.end >= old(self).raw.end - 1,
        decreases old(self).left(), 2int,
    {
        let byte = self.read_byte() as char;

        if self.err.is_some() {
            return;
        }

        match byte {
            '/' => {
                self.read_script_data_end_tag_open();
            }
            _ => {
                self.raw.end -= 1;
                self.read_script_data();
            }
        }
    }

    fn read_script_data_end_tag_open(&mut self)
        requires old(self).wf(), old(self).err.is_none(), old(self).raw.end >= old(self).raw.start + 2,
        ensures final(self).wf(), final(self).same(old(self)), final(self).raw.end >= old(self).raw.end - 2,
        decreases old(self).left(), 1int,
    {
        if self.read_raw_end_tag() || self.err.is_some() {
            return;
        }

        self.read_script_data();
    }
}
} // verus!
fn main() {}

#![feature(allocator_api)]
use vstd::prelude::*;
use vstd::std_specs::iter::IteratorSpec;
use std::collections::HashMap;
verus! {
pub struct M { pub matchers: HashMap<u32, u32> }
impl M {
    pub fn f(&self) {
        let it = self.matchers.iter();
        assert(it.remaining().no_duplicates());
        assert(it.remaining().len() == self.matchers@.len());
        assert(forall|i: int| 0 <= i < it.remaining().len() ==> self.matchers@.contains_key(*it.remaining()[i].0));
        assert(forall|i: int| 0 <= i < it.remaining().len() ==> self.matchers@[*it.remaining()[i].0] == *it.remaining()[i].1);
        assert(forall|k: u32| self.matchers@.contains_key(k) ==> exists|i: int| 0 <= i < it.remaining().len() && *it.remaining()[i].0 == k);
    }
}
} // verus!
fn main() {}

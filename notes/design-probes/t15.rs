use vstd::prelude::*;
use std::cmp::Ordering;
verus! {
pub assume_specification [<Ordering as PartialEq>::eq] (a: &Ordering, b: &Ordering) -> (r: bool) ensures r == (*a == *b);
pub struct Rule { pub id: String, pub rank: u16 }
pub uninterp spec fn str_cmp(a: Seq<char>, b: Seq<char>) -> Ordering;
impl Rule {
    fn cmp(&self, other: &Self) -> (r: Ordering)
        ensures r == (if other.rank < self.rank { Ordering::Less } else if other.rank > self.rank { Ordering::Greater } else { str_cmp(other.id@, self.id@) }),
    {
        broadcast use vstd::laws_cmp::group_laws_cmp;
        let order_on_rank = other.rank.cmp(&self.rank);

        if order_on_rank != Ordering::Equal {
            return order_on_rank;
        }

        let r = other.id.cmp(&self.id);
        assume(r == str_cmp(other.id@, self.id@));
        r
    }
}
} // verus!
fn main() {}

use redirectionio::api::Rule;
use redirectionio::http::Request;
use redirectionio::regex_radix_tree::{RegexTreeMap};
use redirectionio::router::Router;
use redirectionio::RouterConfig;
use redirectionio::action::Action;
use redirectionio::filter::FilterBodyAction;
use redirectionio::api::{BodyFilter, HTMLBodyFilter};
use std::panic::catch_unwind;

fn rule(json: &str) -> Rule { serde_json::from_str(json).expect("rule json") }

#[test]
fn f7_ip_dups() {
    let mut router = Router::<Rule>::from_config(RouterConfig::default());
    router.insert(rule(r#"{"id":"r1","rank":1,"source":{"path":"/a","ips":[{"in_range":"10.0.0.0/8"},{"in_range":"10.1.0.0/16"}]},"target":"/b","status_code":301}"#));
    let mut req = Request::from_config(&router.config, "/a".to_string(), None, None, None, Some("10.1.2.3".parse().unwrap()), None);
    req.set_created_at(None);
    let m = router.match_request(&req);
    println!("F7 matches = {:?}", m.iter().map(|r| r.id().to_string()).collect::<Vec<_>>());
}

#[test]
fn f6_remove_regex_host() {
    let mut router = Router::<Rule>::from_config(RouterConfig::default());
    router.insert(rule(r#"{"id":"r1","rank":1,"source":{"host":"@sub.example.org","path":"/a"},"markers":[{"name":"sub","regex":"[a-z]+"}],"target":"/b","status_code":301}"#));
    let removed = router.remove("r1");
    println!("F6 removed.is_some() = {}", removed.is_some());
    let req = Request::from_config(&router.config, "/a".to_string(), Some("www.example.org".to_string()), None, None, None, None);
    println!("F6 match after remove = {}", router.match_request(&req).len());
}

#[test]
fn f8_tree_dup() {
    let mut t = RegexTreeMap::<String>::new(false);
    t.insert("/ab", "id1", "v1".to_string());
    t.insert("/abc", "idx", "vx".to_string());
    t.insert("/ab", "id1", "v2".to_string());
    println!("F8 len = {} find(/ab) = {:?}", t.len(), t.find("/ab"));
}

#[test]
fn f9_empty_pattern_cache() {
    let mut t = RegexTreeMap::<String>::new(false);
    t.insert("", "id1", "v1".to_string());
    let before = t.find("abc").len();
    t.cache(10, None);
    let after = t.find("abc").len();
    println!("F9 before={} after={}", before, after);
}

#[test]
fn f3_slice() {
    use redirectionio::marker::{Slice, Transform};
    let r = catch_unwind(|| Slice::new(5, Some(2)).transform("abcdefghij".to_string()));
    println!("F3 from>to panics = {}", r.is_err());
    let r = catch_unwind(|| Slice::new(1, Some(2)).transform("ééé".to_string()));
    println!("F3 non-boundary panics = {}", r.is_err());
}

fn html_filter(action: &str, tree: &[&str], value: &str) -> FilterBodyAction {
    FilterBodyAction::new(vec![BodyFilter::HTML(HTMLBodyFilter{
        action: action.to_string(), value: value.to_string(), inner_value: None,
        element_tree: tree.iter().map(|s| s.to_string()).collect(), css_selector: None, id: None, target_hash: None })], &[])
}

fn run(mut f: FilterBodyAction, chunks: &[&[u8]]) -> Vec<u8> {
    let mut out = Vec::new();
    for c in chunks { out.extend(f.filter(c.to_vec(), None)); }
    out.extend(f.end(None));
    out
}

#[test]
fn f13_end_reorder() {
    let out = run(html_filter("replace", &["html","body","div"], "XX"), &[b"<html><body><div>abc<sp"]);
    println!("F13 out = {:?}", String::from_utf8_lossy(&out));
}

#[test]
fn f11_script_split() {
    let doc: &[u8] = b"<html><script>var s = \"<body>\";</script><body><p>x</p></body></html>";
    let one = run(html_filter("prepend_child", &["html","body"], "[INS]"), &[doc]);
    let cut = 14; // after <script>
    let two = run(html_filter("prepend_child", &["html","body"], "[INS]"), &[&doc[..cut], &doc[cut..]]);
    println!("F11 one = {:?}", String::from_utf8_lossy(&one));
    println!("F11 two = {:?}", String::from_utf8_lossy(&two));
}

#[test]
fn f11b_utf8_split() {
    let doc = "<html><p>\u{e9}</p><body><p>x</p></body></html>".as_bytes();
    let one = run(html_filter("prepend_child", &["html","body"], "[INS]"), &[doc]);
    let cut = 10; // inside the 2-byte char
    let two = run(html_filter("prepend_child", &["html","body"], "[INS]"), &[&doc[..cut], &doc[cut..]]);
    println!("F11b one = {:?}", String::from_utf8_lossy(&one));
    println!("F11b two = {:?}", String::from_utf8_lossy(&two));
}

#[test]
fn f10_error_loses_held() {
    // held-back "<di" then invalid utf8 in next chunk
    let two = run(html_filter("prepend_child", &["html","body"], "[INS]"), &[b"<html><di", b"v>\xff\xfe</div></html>"]);
    println!("F10 out = {:?}", String::from_utf8_lossy(&two));
}

#[test]
fn f1_buffer_dup() {
    use redirectionio::filter::Buffer;
    let r = catch_unwind(|| { let b = Buffer::from_vec(vec![1,2,3]); let d = b.duplicate(); d.into_vec() });
    println!("F1 duplicate panics = {}", r.is_err());
}

#![feature(allocator_api)]
use vstd::prelude::*;
use vstd::std_specs::iter::IteratorSpec;
use std::collections::HashMap;
verus! {
pub struct Sub { pub x: u32 }
pub struct M { pub matchers: HashMap<u32, Sub> }
impl M {
    // returns the keys of admitted buckets (stand-in for "union of admitted sub results")
    pub fn admitted(&self, q: u32) -> (r: Vec<u32>)
        ensures
            forall|k: u32| r@.contains(k) ==> self.matchers@.contains_key(k) && k % 2 == q % 2,
            forall|k: u32| self.matchers@.contains_key(k) && k % 2 == q % 2 ==> r@.contains(k),
    {
        let mut out: Vec<u32> = Vec::new();
        for (k, m) in it: self.matchers.iter()
            invariant
                it.snapshot@.remaining().len() >= 0,
                it.history@.len() == it.index@,
                it.index@ <= it.snapshot@.remaining().len(),
                forall|i: int| 0 <= i < it.index@ ==> it.history@[i] == it.snapshot@.remaining()[i],
                forall|k: u32| out@.contains(k) ==> self.matchers@.contains_key(k) && k % 2 == q % 2,
                forall|i: int| 0 <= i < it.history@.len() && *(it.history@[i].0) % 2 == q % 2 ==> out@.contains(*(it.history@[i].0)),
        {
            if *k % 2 == q % 2 {
                out.push(*k);
            }
        }
        out
    }
}
} // verus!
fn main() {}

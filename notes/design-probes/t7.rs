#![feature(allocator_api)]
#![verifier::exec_allows_no_decreases_clause]
use vstd::prelude::*;
use std::collections::{BTreeMap, BTreeSet, HashMap};
verus! {
pub uninterp spec fn into_seq<T, I: IntoIterator<Item = T>>(i: I) -> Seq<T>;
pub broadcast axiom fn axiom_into_seq_vec<T>(v: Vec<T>)
    ensures #[trigger] into_seq::<T, Vec<T>>(v) == v@;
pub assume_specification<T, A: std::alloc::Allocator, I: IntoIterator<Item = T>> [<std::vec::Vec<T, A> as std::iter::Extend<T>>::extend] (v: &mut std::vec::Vec<T, A>, i: I)
    ensures final(v)@ == old(v)@ + into_seq::<T, I>(i);
pub struct Request { pub m: String }
impl Request {
    #[verifier::external_body]
    pub fn method(&self) -> &str { self.m.as_str() }
    #[verifier::external_body]
    pub fn scheme(&self) -> Option<&str> { None }
}
pub struct Sub { x: u8 }
impl Sub {
    #[verifier::external_body]
    pub fn match_request(&self, request: &Request) -> Vec<u32> { Vec::new() }
}
pub struct SchemeMatcher {
    schemes: HashMap<String, Sub>,
    any_scheme: Sub,
}
impl SchemeMatcher {
    pub fn match_request(&self, request: &Request) -> Vec<u32> {
        let mut routes = self.any_scheme.match_request(request);

        match request.scheme() {
            None => (),
            Some(scheme) => {
                if let Some(matcher) = self.schemes.get(scheme) {
                    routes.extend(matcher.match_request(request));
                }
            }
        }

        routes
    }
}
#[derive(PartialEq, Eq, PartialOrd, Ord, Clone)]
pub struct Cond { pub a: u8 }
impl Cond {
    #[verifier::external_body]
    pub fn match_value(&self, request: &Request) -> bool { true }
}
pub struct HeaderMatcher {
    any_header: Sub,
    condition_groups: BTreeMap<BTreeSet<Cond>, Sub>,
}
impl HeaderMatcher {
    pub fn match_request(&self, request: &Request) -> Vec<u32> {
        let mut rules = self.any_header.match_request(request);
        let mut execute_conditions = BTreeMap::new();

        let mut __it0 = (&self.condition_groups).into_iter();
        'group: loop {
            let (conditions, matcher) = match __it0.next() { Some(__v) => __v, None => break };
            let mut __it1 = (conditions).into_iter();
            loop {
                let condition = match __it1.next() { Some(__v) => __v, None => break };
                match execute_conditions.get(condition) {
                    None => {
                        // Execute condition
                        let result = condition.match_value(request);

                        // Save result
                        execute_conditions.insert(condition.clone(), result);

                        if !result {
                            continue 'group;
                        }
                    }
                    Some(result) => {
                        if !result {
                            continue 'group;
                        }
                    }
                }
            }

            rules.extend(matcher.match_request(request));
        }

        rules
    }
}
} // verus!
fn main() {}

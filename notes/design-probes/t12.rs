use vstd::prelude::*;
verus! {
fn sum(v: &Vec<u8>) -> (r: u64)
    ensures r <= 255 * v.len()
{
    let mut s: u64 = 0;
    for x in it: v
        invariant s <= 255 * it.index@, it.index@ <= v.len(), it.history@.len() == it.index@,
            forall|i: int| 0 <= i < it.index@ ==> *it.history@[i] == v@[i],
    {
        s = s + *x as u64;
    }
    s
}
} // verus!
fn main() {}

use vstd::prelude::*;
use vstd::utf8::*;
verus! {
#[verifier::external_type_specification]
#[verifier::external_body]
pub struct ExFromUtf8Error(std::string::FromUtf8Error);
pub open spec fn bytes(s: Seq<char>) -> Seq<u8> { encode_utf8(s) }
pub assume_specification [std::string::String::from_utf8] (v: std::vec::Vec<u8>) -> (r: std::result::Result<std::string::String, std::string::FromUtf8Error>)
    ensures r.is_ok() ==> bytes(r.unwrap()@) == v@;
pub assume_specification [std::string::String::into_bytes] (s: std::string::String) -> (r: std::vec::Vec<u8>)
    ensures r@ == bytes(s@);

fn f(out: &mut String, v: Vec<u8>) -> (ok: bool)
    ensures ok ==> bytes(final(out)@) == bytes(old(out)@) + v@,
{
    match String::from_utf8(v) {
        Ok(s) => {
            out.push_str(s.as_str());
            proof { encode_utf8_concat(old(out)@, s@); }
            true
        }
        Err(_) => false,
    }
}
} // verus!
fn main() {}

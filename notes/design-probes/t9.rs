#![feature(allocator_api)]
#![verifier::exec_allows_no_decreases_clause]
use vstd::prelude::*;
use std::collections::{HashMap, HashSet};
use std::cmp::Ordering;
verus! {
pub assume_specification<K, V, S, A: std::alloc::Allocator, F: FnMut(&K, &mut V) -> bool> [std::collections::HashMap::<K, V, S, A>::retain] (m: &mut std::collections::HashMap<K, V, S, A>, f: F)
;
pub struct Sub { x: u32 }
impl Sub {
    #[verifier::external_body]
    pub fn remove(&mut self, id: &str) -> Option<u32> { None }
    #[verifier::external_body]
    pub fn is_empty(&self) -> bool { true }
}
pub struct Rule { pub id: String, pub rank: u16 }
impl Rule {
    fn cmp(&self, other: &Self) -> Ordering {
        let order_on_rank = other.rank.cmp(&self.rank);

        if order_on_rank != Ordering::Equal {
            return order_on_rank;
        }

        other.id.cmp(&self.id)
    }
}
} // verus!
fn main() {}

#![verifier::exec_allows_no_decreases_clause]
use vstd::prelude::*;
verus! {
pub struct UnitTrace { x: u8 }
impl UnitTrace {
    #[verifier::external_body]
    pub fn add_value_computed_by_unit(&mut self, key: &str, value: &str) {}
    #[verifier::external_body]
    pub fn override_unit_id_with_target(&mut self, target: &str, unit_id: &str) {}
}
pub struct Header {
    pub name: String,
    pub value: String,
}
pub uninterp spec fn spec_lower(s: Seq<char>) -> Seq<char>;
pub assume_specification [str::to_lowercase] (s: &str) -> (r: std::string::String)
    ensures r@ == spec_lower(s@);

pub open spec fn hview(h: Header) -> (Seq<char>, Seq<char>) { (h.name@, h.value@) }
pub open spec fn hsview(hs: Seq<Header>) -> Seq<(Seq<char>, Seq<char>)> { hs.map_values(|h: Header| hview(h)) }
pub trait HeaderAction {
    spec fn spec_filter(&self, hs: Seq<(Seq<char>, Seq<char>)>) -> Seq<(Seq<char>, Seq<char>)>;
    fn filter(&self, headers: Vec<Header>, unit_trace: Option<&mut UnitTrace>) -> (r: Vec<Header>)
        ensures hsview(r@) == self.spec_filter(hsview(headers@));
}
pub struct HeaderRemoveAction {
    pub name: String,
    pub id: Option<String>,
    pub target_hash: Option<String>,
}
impl HeaderAction for HeaderRemoveAction {
    open spec fn spec_filter(&self, hs: Seq<(Seq<char>, Seq<char>)>) -> Seq<(Seq<char>, Seq<char>)> {
        hs.filter(|h: (Seq<char>, Seq<char>)| spec_lower(h.0) != spec_lower(self.name@))
    }
    fn filter(&self, headers: Vec<Header>, unit_trace: Option<&mut UnitTrace>) -> Vec<Header> {
        let mut new_headers = Vec::new();

        for header in it: headers
            invariant hsview(new_headers@) == self.spec_filter(hsview(it.history@)),
        {
            if header.name.to_lowercase() != self.name.to_lowercase() {
                new_headers.push(header);
            }
        }

        if let (Some(trace), Some(id)) = (unit_trace, &self.id) {
            trace.add_value_computed_by_unit(id, "");

            if let Some(target_hash) = &self.target_hash {
                trace.override_unit_id_with_target(target_hash, id);
            }
        }

        new_headers
    }
}
} // verus!
fn main() {}

use vstd::prelude::*;
verus! {
pub struct UnitTrace { x: u8 }
pub struct Header { pub name: String, pub value: String }
pub type HV = Seq<(Seq<char>, Seq<char>)>;
pub open spec fn hview(h: Header) -> (Seq<char>, Seq<char>) { (h.name@, h.value@) }
pub open spec fn hsview(hs: Seq<Header>) -> HV { hs.map_values(|h: Header| hview(h)) }
pub uninterp spec fn spec_lower(s: Seq<char>) -> Seq<char>;
pub assume_specification [str::to_lowercase] (s: &str) -> (r: std::string::String)
    ensures r@ == spec_lower(s@);

pub assume_specification<T: std::ops::DerefMut> [std::option::Option::<T>::as_deref_mut] (o: &mut std::option::Option<T>) -> std::option::Option<&mut <T as std::ops::Deref>::Target>;
pub trait HeaderAction {
    spec fn op(&self, hs: HV) -> HV;
    fn filter(&self, headers: Vec<Header>, unit_trace: Option<&mut UnitTrace>) -> (r: Vec<Header>)
        ensures hsview(r@) == self.op(hsview(headers@));
}

pub struct FilterHeaderAction {
    pub actions: Vec<Box<dyn HeaderAction>>,
}

pub open spec fn fold_ops(actions: Seq<Box<dyn HeaderAction>>, hs: HV) -> HV
    decreases actions.len()
{
    if actions.len() == 0 { hs } else { actions.last().op(fold_ops(actions.drop_last(), hs)) }
}

impl FilterHeaderAction {
    pub fn filter(&self, mut headers: Vec<Header>, mut unit_trace: Option<&mut UnitTrace>) -> (r: Vec<Header>)
        ensures hsview(r@) == fold_ops(self.actions@, hsview(headers@)),
    {
        let ghost h0 = hsview(headers@);
        for filter in it: &self.actions
            invariant hsview(headers@) == fold_ops(self.actions@.take(it.index@), h0),
                0 <= it.index@ <= self.actions@.len(), it.history@.len() == it.index@,
                forall|i: int| 0 <= i < it.index@ ==> *it.history@[i] == self.actions@[i],
        {
            proof {
                let k = it.index@;
                assert(self.actions@.take(k + 1).drop_last() == self.actions@.take(k));
                assert(self.actions@.take(k + 1).last() == self.actions@[k]);
            }
            headers = filter.filter(headers, unit_trace.as_deref_mut());
        }

        proof { assert(self.actions@.take(self.actions@.len() as int) == self.actions@); }
        headers
    }
}
} // verus!
fn main() {}

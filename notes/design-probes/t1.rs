use vstd::prelude::*;
verus! {

#[verifier::external_type_specification]
#[verifier::external_body]
pub struct ExIoError(std::io::Error);

pub struct Error {
    pub kind: ErrorKind,
    pub read_error: Option<std::io::Error>,
}

pub enum ErrorKind {
    ReadError,
    MaxBufferError,
    EOFError,
}

#[derive(Debug, Clone)]
struct Span {
    start: usize,
    end: usize,
}

pub struct Tokenizer {
    reader: Vec<u8>,
    err: Option<Error>,
    raw: Span,
    data: Span,
    raw_tag: String,
}

impl Tokenizer {
    spec fn wf(&self) -> bool {
        &&& self.raw.start <= self.raw.end <= self.reader.len()
        &&& (self.err.is_some() ==> self.raw.end == self.reader.len())
    }

    fn read_byte(&mut self) -> (b: u8)
        requires old(self).wf(),
        ensures
            final(self).wf(),
            final(self).reader == old(self).reader,
            final(self).raw.start == old(self).raw.start,
            final(self).data == old(self).data,
            final(self).raw_tag == old(self).raw_tag,
            old(self).raw.end < old(self).reader.len() ==> final(self).raw.end == old(self).raw.end + 1 && b == old(self).reader[old(self).raw.end as int] && (final(self).err.is_some() == old(self).err.is_some()),
            old(self).raw.end >= old(self).reader.len() ==> final(self).raw.end == old(self).raw.end && final(self).err.is_some() && b == 0,
    {
        match self.reader.get(self.raw.end) {
            Some(byte) => {
                self.raw.end += 1;

                *byte
            }
            None => {
                self.err = Some(Error {
                    kind: ErrorKind::EOFError,
                    read_error: None,
                });

                0
            }
        }
    }

    fn read_until_close_angle(&mut self)
        requires old(self).wf(), old(self).err.is_none(),
        ensures final(self).wf(), final(self).reader == old(self).reader, final(self).raw.start == old(self).raw.start,
            final(self).raw.end >= old(self).raw.end,
    {
        self.data.start = self.raw.end;

        loop
            invariant self.wf(), self.reader == old(self).reader, self.raw.start == old(self).raw.start, self.raw.end >= old(self).raw.end, self.err.is_none(),
            decreases self.reader.len() - self.raw.end,
        {
            let byte = self.read_byte() as char;

            if self.err.is_some() {
                self.data.end = self.raw.end;

                return;
            }

            if byte == '>' {
                proof { reveal_strlit(">"); }
                self.data.end = self.raw.end - ">".len();

                return;
            }
        }
    }
}

} // verus!
fn main() {}

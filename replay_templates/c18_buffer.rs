// Native replay of a Kani counterexample for C18 against the REAL crate: an auditing global allocator records the size of every
// allocation and aborts the test when a deallocation's size differs from the allocation's, or a pointer is freed twice.
use std::alloc::{GlobalAlloc, Layout, System};
use std::sync::atomic::{AtomicBool, AtomicUsize, Ordering};

struct Audit;
static ON: AtomicBool = AtomicBool::new(false);
static BAD: AtomicUsize = AtomicUsize::new(0);
const N: usize = 4096;
static mut PTRS: [usize; N] = [0; N];
static mut SIZES: [usize; N] = [0; N];

unsafe impl GlobalAlloc for Audit {
    unsafe fn alloc(&self, l: Layout) -> *mut u8 {
        let p = unsafe { System.alloc(l) };
        if ON.load(Ordering::SeqCst) {
            unsafe {
                for i in 0..N { if PTRS[i] == 0 { PTRS[i] = p as usize; SIZES[i] = l.size(); break; } }
            }
        }
        p
    }
    unsafe fn dealloc(&self, p: *mut u8, l: Layout) {
        if ON.load(Ordering::SeqCst) {
            unsafe {
                for i in 0..N { if PTRS[i] == p as usize { if SIZES[i] != l.size() { BAD.fetch_add(1, Ordering::SeqCst); } PTRS[i] = 0; break; } }
            }
        }
        unsafe { System.dealloc(p, l) }
    }
    unsafe fn realloc(&self, p: *mut u8, l: Layout, new_size: usize) -> *mut u8 {
        let q = unsafe { System.realloc(p, l, new_size) };
        if ON.load(Ordering::SeqCst) {
            unsafe {
                for i in 0..N { if PTRS[i] == p as usize { PTRS[i] = q as usize; SIZES[i] = new_size; break; } }
            }
        }
        q
    }
}
#[global_allocator]
static A: Audit = Audit;

#[test]
fn replay() {
    let cap: usize = @CAP@;
    let bytes: Vec<u8> = vec![@BYTES@];
    ON.store(true, Ordering::SeqCst);
    let mut v: Vec<u8> = Vec::with_capacity(cap);
    for b in &bytes { v.push(*b); }
    let buf = redirectionio::filter::buffer::Buffer::from_vec(v);
    @ACTION@
    ON.store(false, Ordering::SeqCst);
    assert_eq!(BAD.load(Ordering::SeqCst), 0, "a deallocation used a size different from its allocation");
}

// ---- injected by /verif (vf/kani.py) into a scratch copy of src/http/ffi.rs; never part of /repo
#[cfg(kani)]
mod __verif_kani_null {
    use super::*;

    // C18 / C07: entry points of the request interface accept a NULL object pointer (loop-free: complete for "object pointer NULL, other pointers NULL")
    #[kani::proof]
    fn request_null_object() {
        unsafe {
            redirectionio_request_drop(std::ptr::null_mut());
            redirectionio_request_set_remote_addr(std::ptr::null_mut(), std::ptr::null(), std::ptr::null());
            redirectionio_trusted_proxies_add_proxy(std::ptr::null_mut(), std::ptr::null());
        }
    }
}

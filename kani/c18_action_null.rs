// ---- injected by /verif (vf/kani.py) into a scratch copy of src/action/ffi.rs; never part of /repo
#[cfg(kani)]
mod __verif_kani_null {
    use super::*;

    // C18 / C07: entry points of the action interface accept a NULL object pointer and answer as their contract says, for EVERY value of the
    // remaining arguments. Loop-free: each proof is complete for the stated input space (object pointer null, all other arguments arbitrary).
    #[kani::proof]
    fn action_null_scalars() {
        let code: u16 = kani::any();
        let allow: bool = kani::any();
        assert!(redirectionio_action_get_status_code(std::ptr::null_mut(), code) == 0);
        assert!(redirectionio_action_should_log_request(std::ptr::null_mut(), allow, code) == allow);
    }

    #[kani::proof]
    fn action_null_drops() {
        redirectionio_action_drop(std::ptr::null_mut());
        redirectionio_action_body_filter_drop(std::ptr::null_mut());
    }

    #[kani::proof]
    fn action_null_header_filter() {
        let code: u16 = kani::any();
        let add: bool = kani::any();
        // the header list handed in is handed back untouched (same pointer, null included)
        assert!(redirectionio_action_header_filter_filter(std::ptr::null_mut(), std::ptr::null(), code, add).is_null());
    }

    #[kani::proof]
    fn action_null_body_filter_create() {
        let code: u16 = kani::any();
        assert!(redirectionio_action_body_filter_create(std::ptr::null_mut(), code, std::ptr::null()).is_null());
    }
    // redirectionio_action_body_filter_close(NULL) is NOT harnessed: Kani 0.68's compiler panics (intrinsics.rs:243) on the codec code its non-null path reaches
}

// ---- injected by /verif (vf/kani.py) into a scratch copy of src/filter/buffer.rs; never part of /repo
#[cfg(kani)]
mod __verif_kani {
    use super::*;

    // a Vec<u8> with symbolic content, length <= 3 and capacity in len..=4 (capacity != length is the interesting case)
    fn any_vec() -> Vec<u8> {
        let cap: usize = kani::any();
        let len: usize = kani::any();
        kani::assume(cap <= 4 && len <= 3 && len <= cap);
        let mut v: Vec<u8> = Vec::with_capacity(cap);
        if len > 0 { v.push(kani::any()); }
        if len > 1 { v.push(kani::any()); }
        if len > 2 { v.push(kani::any()); }
        v
    }

    fn same(a: &Vec<u8>, b0: u8, b1: u8, b2: u8, len: usize) -> bool {
        a.len() == len && (len < 1 || a[0] == b0) && (len < 2 || a[1] == b1) && (len < 3 || a[2] == b2)
    }

    // C18: a buffer handed out by from_vec can be released exactly once through into_vec (the body of
    // redirectionio_api_buffer_drop) with a deallocation whose layout equals the allocation's, and round-trips its bytes
    #[kani::proof]
    #[kani::unwind(6)]
    fn buf_from_vec_into_vec_roundtrip() {
        let v = any_vec();
        let len = v.len();
        let (b0, b1, b2) = (if len > 0 { v[0] } else { 0 }, if len > 1 { v[1] } else { 0 }, if len > 2 { v[2] } else { 0 });
        kani::cover!(len == 2 && v.capacity() == 3);
        let buf = Buffer::from_vec(v);
        assert!(buf.len == len);
        assert!((len == 0) == buf.data.is_null());
        let back = buf.into_vec();
        assert!(same(&back, b0, b1, b2, len));
        drop(back); // Kani's allocator model asserts that the deallocation layout matches the allocation
    }

    // C18: the exported drop function accepts every buffer produced by the library, including the empty (null) one
    #[kani::proof]
    #[kani::unwind(6)]
    fn buf_drop_exported() {
        let v = any_vec();
        redirectionio_api_buffer_drop(Buffer::from_vec(v));
        redirectionio_api_buffer_drop(Buffer::default());
    }

    // C18: duplicating / copying a buffer yields equal bytes in an independent allocation; the original stays usable
    #[kani::proof]
    #[kani::unwind(6)]
    fn buf_to_vec_and_duplicate() {
        let v = any_vec();
        let len = v.len();
        let (b0, b1, b2) = (if len > 0 { v[0] } else { 0 }, if len > 1 { v[1] } else { 0 }, if len > 2 { v[2] } else { 0 });
        let buf = Buffer::from_vec(v);
        let copy = buf.to_vec();
        assert!(same(&copy, b0, b1, b2, len));
        let dup = buf.duplicate();
        assert!(dup.len == len);
        assert!(len == 0 || dup.data != buf.data);
        let cl = buf.clone();
        assert!(same(&dup.into_vec(), b0, b1, b2, len));
        assert!(same(&cl.into_vec(), b0, b1, b2, len));
        assert!(same(&buf.into_vec(), b0, b1, b2, len));
    }

    // C18: from_string behaves like from_vec (ASCII payload <= 3 bytes, capacity != length included)
    #[kani::proof]
    #[kani::unwind(6)]
    fn buf_from_string_roundtrip() {
        let v = any_vec();
        let len = v.len();
        kani::assume((len < 1 || v[0] < 128) && (len < 2 || v[1] < 128) && (len < 3 || v[2] < 128));
        let (b0, b1, b2) = (if len > 0 { v[0] } else { 0 }, if len > 1 { v[1] } else { 0 }, if len > 2 { v[2] } else { 0 });
        let s = unsafe { String::from_utf8_unchecked(v) };
        let buf = Buffer::from_string(s);
        assert!(buf.len == len);
        let back = buf.into_vec();
        assert!(same(&back, b0, b1, b2, len));
    }
}

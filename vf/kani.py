"""Kani (CBMC) runner: checks harnesses injected into a scratch copy of the REAL crate (DESIGN §2.4).

The working tree of /repo is rsynced (without target/ and .git/) to a fresh directory under /var/tmp, the harness module(s) listed in
props.json are appended under #[cfg(kani)] to the files that own the private items they exercise, `cargo kani` is run per harness, and
the scratch directory is removed with its build output.  Loop-free harnesses over symbolic inputs are complete for the stated input
space; harnesses with an unwinding bound or a bounded payload are reported under `bounded` and never counted as proved."""
import concurrent.futures as cf
import json
import os
import re
import shutil
import subprocess
import tempfile
import time

from .verus import ROOT
from .gen import REPO

KANI_TIMEOUT = 1500


def _run(cmd, cwd, timeout):
    env = dict(os.environ)
    env['CARGO_NET_OFFLINE'] = 'true'
    t0 = time.time()
    try:
        p = subprocess.run(cmd, cwd=cwd, capture_output=True, text=True, timeout=timeout, env=env)
        return p.returncode, p.stdout + '\n' + p.stderr, time.time() - t0
    except subprocess.TimeoutExpired as e:
        return -9, 'TIMEOUT after %ds\n%s' % (timeout, (e.stdout or b'').decode() if isinstance(e.stdout, bytes) else (e.stdout or '')), time.time() - t0


def parse_kani(out):
    """-> (verdict, failed_checks[list of dict], n_checks)"""
    verdict = None
    m = re.search(r'VERIFICATION:- (SUCCESSFUL|FAILED)', out)
    if m:
        verdict = m.group(1)
    failed = []
    # "Failed Checks: <description>\n File: "...", line N, in fn"
    for m in re.finditer(r'Failed Checks: (.*)\n\s*File: "([^"]+)", line (\d+), in (\S+)', out):
        failed.append({'description': m.group(1).strip(), 'file': m.group(2), 'line': int(m.group(3)), 'function': m.group(4)})
    n = 0
    m = re.search(r'\*\* (\d+) of (\d+) failed', out)
    if m:
        n = int(m.group(2))
    cover = re.findall(r'Check \d+: [^\n]*cover[^\n]*\n\s*- Status: (\w+)', out)
    return verdict, failed, n, cover


def run_for_property(prop, spec, tier):
    k = spec['kani']
    res = {'violations': [], 'undecided': [], 'cmds': [], 'trusted': list(k.get('trusted', [])), 'summary': {'harnesses': [], 'bounded': []}}
    scratch = tempfile.mkdtemp(prefix='verif-kani.', dir='/var/tmp')
    try:
        rc = subprocess.run(['rsync', '-a', '--exclude', 'target', '--exclude', '.git', REPO + '/', scratch + '/']).returncode
        if rc != 0:
            res['undecided'].append('kani: rsync of /repo failed')
            return res
        for inj in k['inject']:
            dst = os.path.join(scratch, inj['file'])
            if not os.path.exists(dst):
                res['undecided'].append('kani: anchor lost: %s does not exist' % inj['file'])
                return res
            text = open(dst).read()
            for rep in inj.get('attrs', []):
                # contract attributes placed above a function: {"before": "pub fn from_vec(", "text": "#[cfg_attr(kani, kani::ensures(..))]"}
                if text.count(rep['before']) != 1:
                    res['undecided'].append('kani: anchor lost: `%s` matches %d times in %s' % (rep['before'], text.count(rep['before']), inj['file']))
                    return res
                i = text.index(rep['before'])
                ls = text.rfind('\n', 0, i) + 1
                indent = re.match(r'\s*', text[ls:i]).group(0)
                text = text[:ls] + indent + rep['text'] + '\n' + text[ls:]
            text += '\n' + open(os.path.join(ROOT, inj['append'])).read()
            open(dst, 'w').write(text)
        shutil.copy(os.path.join(REPO, 'Cargo.lock'), os.path.join(scratch, 'Cargo.lock'))
        harnesses = [h for h in k['harnesses'] if tier == 'thorough' or not h.get('thorough_only')]
        # first harness builds the crate (cold ~60 s); the rest reuse the build, run sequentially to bound memory
        for h in harnesses:
            cmd = ['cargo', 'kani', '-Z', 'function-contracts', '-Z', 'stubbing', '--harness', h['name']] + h.get('args', [])
            rc, out, wall = _run(cmd, scratch, KANI_TIMEOUT)
            res['cmds'].append(' '.join(cmd))
            verdict, failed, n, cover = parse_kani(out)
            entry = {'harness': h['name'], 'what': h.get('what', ''), 'verdict': verdict, 'checks': n, 'wall_s': round(wall, 1),
                     'bound': h.get('bound'), 'complete_for': h.get('complete_for')}
            res['summary']['harnesses'].append(entry)
            if h.get('bound'):
                res['summary']['bounded'].append({'harness': h['name'], 'bound': h['bound']})
            if verdict == 'SUCCESSFUL':
                if h.get('cover') and not all(c == 'SATISFIED' for c in cover):
                    res['undecided'].append('kani %s: cover property not satisfied (vacuous harness)' % h['name'])
                continue
            if verdict == 'FAILED':
                if not failed:
                    failed = [{'description': 'verification failed (no failed check parsed)', 'file': '', 'line': 0, 'function': ''}]
                seen = set()
                for f in failed:
                    fpath = f['file'].replace(scratch + '/', '')
                    # only checks located in the crate or in the harness count; name the obligation by harness + description
                    obl = 'kani::%s::%s[%s]' % (h['name'], f['function'].split('::')[-1] if f['function'] else '?', f['description'][:140])
                    if obl in seen:
                        continue
                    seen.add(obl)
                    # concrete counterexample: re-run with concrete playback to print the inputs
                    cex = None
                    rc2, out2, _ = _run(cmd + ['-Z', 'concrete-playback', '--concrete-playback=print'], scratch, KANI_TIMEOUT)
                    m = re.search(r'Concrete playback unit test for `[^`]+`:\n```\n(.*?)```', out2, re.S)
                    if m:
                        cex = m.group(1)[:3000]
                    res['violations'].append({'obligation': obl, 'kind': 'kani-check', 'fn': f['function'], 'unit': None,
                                              'message': f['description'], 'src': '%s:%d' % (fpath, f['line']), 'spec': 'kani harness %s (%s)' % (h['name'], k['inject'][0]['append']),
                                              'rendered': out[-3500:], 'counterexample': cex,
                                              'replay_cmd': h.get('replay_cmd'), 'replayed': False})
                continue
            res['undecided'].append('kani %s: no verdict (rc=%s): %s' % (h['name'], rc, out[-400:].replace('\n', ' | ')))
    finally:
        shutil.rmtree(scratch, ignore_errors=True)
    return res

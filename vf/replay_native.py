"""Native replay of a counterexample against the real crate (scratch copy of /repo's working tree, removed afterwards).
usage: python3 -m vf.replay_native c18 --cap N --bytes a,b,c --action into_vec|to_vec|drop
exit 0: the real code behaves (no failure reproduced); exit 1: failure reproduced on the real code."""
import argparse, os, shutil, subprocess, sys, tempfile
ROOT = os.path.dirname(os.path.dirname(os.path.abspath(__file__)))
REPO = os.environ.get('VERIF_REPO', '/repo')
ACTIONS = {
    'into_vec': 'let back = buf.into_vec(); assert_eq!(back, bytes); drop(back);',
    'drop': 'redirectionio::filter::buffer::redirectionio_api_buffer_drop(buf);',
    'to_vec': 'let copy = buf.to_vec(); assert_eq!(copy, bytes); let d = buf.duplicate(); assert_eq!(d.into_vec(), bytes); drop(buf.into_vec());',
}
def main():
    ap = argparse.ArgumentParser(); ap.add_argument('kind'); ap.add_argument('--cap', type=int, default=3); ap.add_argument('--bytes', default='0,241'); ap.add_argument('--action', default='into_vec')
    a = ap.parse_args()
    scratch = tempfile.mkdtemp(prefix='verif-replay.', dir='/var/tmp')
    try:
        subprocess.run(['rsync', '-a', '--exclude', 'target', '--exclude', '.git', REPO + '/', scratch + '/'], check=True)
        t = open(os.path.join(ROOT, 'replay_templates', 'c18_buffer.rs')).read()
        t = t.replace('@CAP@', str(a.cap)).replace('@BYTES@', a.bytes).replace('@ACTION@', ACTIONS[a.action])
        os.makedirs(os.path.join(scratch, 'tests'), exist_ok=True)
        open(os.path.join(scratch, 'tests', 'verif_replay.rs'), 'w').write(t)
        env = dict(os.environ); env['CARGO_NET_OFFLINE'] = 'true'
        # reuse /repo's build cache read-only by copying nothing: a cold build of the test crate takes ~1-2 min
        p = subprocess.run(['cargo', 'test', '--offline', '--test', 'verif_replay'], cwd=scratch, capture_output=True, text=True, env=env)
        print(p.stdout[-1800:])
        print(p.stderr[-600:])
        return 0 if p.returncode == 0 else 1
    finally:
        shutil.rmtree(scratch, ignore_errors=True)
if __name__ == '__main__':
    sys.exit(main())

"""Run Verus on a generated unit file and turn its output into named obligations."""
import hashlib
import json
import os
import re
import subprocess
import time

VERUS = os.environ.get('VERUS_BIN', 'verus')
ROOT = os.path.dirname(os.path.dirname(os.path.abspath(__file__)))
BUILD = os.path.join(ROOT, 'build')

SEMANTIC = [
    (r'postcondition not satisfied', 'ensures'),
    (r'unable to prove post-?condition of closure', 'ensures(closure)'),
    (r'unable to prove pre-?condition of closure|closure .*precondition', 'requires@call'),
    (r'precondition not satisfied', 'requires@call'),
    (r'invariant not satisfied at end of loop body', 'invariant(end of body)'),
    (r'invariant not satisfied before loop', 'invariant(before loop)'),
    (r'loop invariant', 'invariant'),
    (r'assertion failed', 'assert'),
    (r'assertion not satisfied', 'assert'),
    (r'possible arithmetic underflow/overflow', 'safety:arith'),
    (r'possible division by zero', 'safety:div0'),
    (r'possible bit shift underflow/overflow', 'safety:shift'),
    (r'could not prove termination', 'decreases'),
    (r'decreases not satisfied', 'decreases'),
    (r'unreachable', 'safety:unreachable'),
    (r'recommendation not met', 'recommends'),
    (r'failed to verify that .* is satisfied', 'requires@call'),
    (r'cannot show invariant', 'invariant'),
    (r'possible .* out of bounds|index out of bounds', 'safety:index'),
]
RESOURCE = re.compile(r'[Rr]esource limit|rlimit|timed? ?out|solver (crashed|error)|out of memory', re.I)


class VerusRun:
    def __init__(self):
        self.ok = False
        self.rc = None
        self.results = {}
        self.functions = []       # breakdown entries
        self.failures = []        # semantic failures: dict(kind, message, line, spans)
        self.resource = []        # rlimit/timeouts
        self.compile_errors = []  # anything that is not a verification verdict
        self.smt_ms = 0
        self.total_ms = 0
        self.wall_s = 0.0
        self.cached = False
        self.cmd = ''
        self.version = ''
        self.raw_err = ''


def run_verus(path, rlimit=None, multiple_errors=10, timeout=1800, use_cache=True, extra=()):
    text = open(path, encoding='utf-8').read()
    cmd = [VERUS, os.path.basename(path), '--output-json', '--time-expanded', '--multiple-errors', str(multiple_errors)]
    if rlimit:
        cmd += ['--rlimit', str(rlimit)]
    cmd += list(extra)
    cmd += ['--', '--error-format=json']
    key = hashlib.sha256((text + '\0' + ' '.join(cmd[1:])).encode()).hexdigest()
    cdir = os.path.join(BUILD, 'cache')
    os.makedirs(cdir, exist_ok=True)
    cpath = os.path.join(cdir, key + '.json')
    r = VerusRun()
    r.cmd = ' '.join(cmd)
    if use_cache and os.environ.get('VERIF_NOCACHE') != '1' and os.path.exists(cpath):
        d = json.load(open(cpath))
        r.cached = True
    else:
        t0 = time.time()
        try:
            p = subprocess.run(cmd, cwd=os.path.dirname(path), capture_output=True, text=True, timeout=timeout)
            d = {'rc': p.returncode, 'out': p.stdout, 'err': p.stderr, 'wall_s': time.time() - t0}
        except subprocess.TimeoutExpired as e:
            d = {'rc': -9, 'out': '', 'err': 'TIMEOUT after %ds' % timeout, 'wall_s': time.time() - t0}
        if d['rc'] in (0, 1):
            json.dump(d, open(cpath, 'w'))
    r.rc = d['rc']
    r.wall_s = d['wall_s']
    r.raw_err = d['err']
    try:
        j = json.loads(d['out']) if d['out'].strip() else {}
    except json.JSONDecodeError:
        j = {}
    r.results = j.get('verification-results', {})
    r.version = j.get('verus', {}).get('version', '')
    tm = j.get('times-ms', {})
    r.total_ms = tm.get('total', 0)
    smt = tm.get('smt', {})
    r.smt_ms = smt.get('total', 0)
    for m in smt.get('smt-run-module-times', []):
        for f in m.get('function-breakdown', []):
            r.functions.append({'function': f['function'], 'mode': f.get('mode:', f.get('mode', '')), 'time_us': f.get('time-micros', 0),
                                'rlimit': f.get('rlimit', 0), 'success': f.get('success', False)})
    for line in d['err'].split('\n'):
        line = line.strip()
        if not line.startswith('{'):
            if line.startswith('TIMEOUT'):
                r.resource.append({'message': line, 'line': 0})
            elif line.startswith('error') or 'panicked' in line:
                r.compile_errors.append({'message': line, 'line': 0})
            continue
        try:
            m = json.loads(line)
        except json.JSONDecodeError:
            continue
        if m.get('level') not in ('error',):
            continue
        msg = m.get('message', '')
        if msg.startswith('aborting due to'):
            continue
        spans = m.get('spans', [])
        prim = [s for s in spans if s.get('is_primary')]
        line_no = prim[0]['line_start'] if prim else (spans[0]['line_start'] if spans else 0)
        entry = {'message': msg, 'line': line_no,
                 'spans': [{'line_start': s['line_start'], 'line_end': s['line_end'], 'label': s.get('label'), 'primary': s.get('is_primary'), 'file': s.get('file_name'),
                            'text': ' '.join(t['text'][max(0, t.get('highlight_start', 1) - 1):max(0, t.get('highlight_end', len(t['text']) + 1) - 1)].strip() for t in s.get('text', []))[:400]} for s in spans],
                 'rendered': (m.get('rendered') or '')[:4000]}
        if RESOURCE.search(msg):
            r.resource.append(entry)
            continue
        kind = None
        if m.get('code') is None:
            for pat, k in SEMANTIC:
                if re.search(pat, msg):
                    kind = k
                    break
        if kind and not r.results.get('encountered-vir-error', False):
            entry['kind'] = kind
            r.failures.append(entry)
        else:
            r.compile_errors.append(entry)
    if not r.results:
        if not r.compile_errors and not r.resource:
            r.compile_errors.append({'message': 'verus produced no verification results (rc=%s): %s' % (r.rc, d['err'][-600:]), 'line': 0})
    elif r.results.get('encountered-vir-error'):
        if not r.compile_errors:
            r.compile_errors.append({'message': 'verus reported a VIR error', 'line': 0})
    r.ok = bool(r.results) and r.results.get('success', False) and r.rc == 0
    return r

"""Property check driver.  Usage: check <PROPERTY> [--tier quick|thorough] | check --unit <unit> | check --all

exit 0  property held on everything explored (KNOWN-FINDING lines allowed)
exit 1  VIOLATION property=<id> replay=<path> [...no-failing-input-found]
exit 2  undecided: anchor lost / unsupported construct / resource limit / vacuous contract (never an alarm)
"""
import concurrent.futures as cf
import hashlib
import json
import os
import re
import sys
import time

from .gen import Unit, GenError, REPO
from .verus import run_verus, BUILD, ROOT

PROPS = json.load(open(os.path.join(ROOT, 'props.json')))
KNOWN_PATH = os.path.join(ROOT, 'known_findings.json')
SAFETY_KINDS = ('safety:', 'decreases')


def short_fn(selector):
    parts = selector.split(' / ')
    fn = parts[-1].split(' ', 1)[1] if ' ' in parts[-1] else parts[-1]
    if len(parts) >= 2:
        p = parts[-2]
        if p.startswith('impl '):
            h = p[5:]
            if ' for ' in h:
                h = h.split(' for ', 1)[1]
            h = re.sub(r'^<[^>]*>\s*', '', h)
            h = re.sub(r'<.*$', '', h).strip()
            return h + '::' + fn
        if p.startswith('trait '):
            return p[6:].strip() + '::' + fn
    return fn


class UnitResult:
    pass


_unit_cache = {}


def run_unit(unit, rlimit=None):
    if (unit, rlimit) in _unit_cache:
        return _unit_cache[(unit, rlimit)]
    ur = UnitResult()
    ur.unit = unit
    ur.error = None
    ur.t0 = time.time()
    tpl = os.path.join(ROOT, 'units', unit, 'unit.rs')
    bdir = os.path.join(BUILD, unit)
    os.makedirs(bdir, exist_ok=True)
    try:
        u = Unit(unit, tpl)
        text, lmap = u.generate()
        uv = Unit(unit, tpl, mode='vacuity')
        vtext, vlmap = uv.generate()
    except GenError as e:
        ur.error = 'extraction: %s' % e
        _unit_cache[(unit, rlimit)] = ur
        return ur
    ur.u, ur.text, ur.lmap = u, text, lmap
    ur.uv, ur.vtext, ur.vlmap = uv, vtext, vlmap
    path = os.path.join(bdir, unit + '.rs')
    vpath = os.path.join(bdir, unit + '_vac.rs')
    open(path, 'w').write(text)
    open(vpath, 'w').write(vtext + '\nverus! { proof fn __canary_must_fail() ensures false {} }\n')
    json.dump({str(k): v for k, v in lmap.items()}, open(os.path.join(bdir, unit + '.linemap.json'), 'w'))
    with cf.ThreadPoolExecutor(2) as ex:
        f1 = ex.submit(run_verus, path, rlimit or 6, 10, 1800, True, ('--num-threads', '8'))
        f2 = ex.submit(run_verus, vpath, rlimit or 6, 3, 1800, True, ('--num-threads', '8'))
        ur.run = f1.result()
        ur.vrun = f2.result()
    # retry on resource problems with 4x rlimit
    if ur.run.resource and not rlimit:
        ur.run = run_verus(path, 40)
    # stability: a function that fails in the whole-file run is re-verified alone (fresh solver context, 2x rlimit);
    # only a failure that persists in isolation is believed (context-dependent "unknown"s are not verdicts)
    ur.unstable = []
    failed = [f['function'].split('::', 1)[1] for f in ur.run.functions if not f['success'] and '::' in f['function']]
    if failed and not ur.run.compile_errors:
        ur.run.resource = []     # every function that hit the resource limit is in `failed` and gets its own isolated verdict below
        def iso(fn):
            if '::' in fn and fn.split('::')[0][:1].islower():
                mod, name = fn.rsplit('::', 1)
                # module-qualified function (lemma libraries live in submodules); methods look like Type::name (upper-case head)
                parts = fn.split('::')
                k = 0
                while k < len(parts) - 1 and parts[k][:1].islower():
                    k += 1
                mod, name = '::'.join(parts[:k]), '::'.join(parts[k:])
                return fn, run_verus(path, 20, 10, 900, True, ('--verify-only-module', mod, '--verify-function', name))
            return fn, run_verus(path, 20, 10, 900, True, ('--verify-root', '--verify-function', fn))
        with cf.ThreadPoolExecutor(min(8, len(failed))) as ex:
            iso_runs = dict(ex.map(iso, failed))
        lines = text.split('\n')
        kept = []
        for f in ur.run.failures:
            own_line = None
            for s in f.get('spans', []):
                if s.get('file') and os.path.basename(s['file']) == unit + '.rs':
                    o = lmap.get(s['line_start'])
                    if o and o['k'] == 'src':
                        own_line = s['line_start']
                        break
            if own_line is None:
                ours = [s for s in f.get('spans', []) if s.get('file') and os.path.basename(s['file']) == unit + '.rs']
                own_line = (ours[-1]['line_start'] if f['kind'] == 'ensures' else ours[0]['line_start']) if ours else f['line']
            ur.u = u
            fn, _ = owner_of(ur, own_line, lines)
            if fn in iso_runs:
                continue    # replaced by the isolated verdict below
            kept.append(f)
        for fn, r in iso_runs.items():
            if r.compile_errors or r.resource or not r.results:
                ur.run.resource.append({'message': 'isolated re-verification of %s inconclusive: %s' % (fn, (r.compile_errors or r.resource or [{'message': 'no result'}])[0]['message'][:200]), 'line': 0})
                continue
            if not r.failures:
                ur.unstable.append(fn)
                for fb in ur.run.functions:
                    if fb['function'].split('::', 1)[-1] == fn:
                        fb['success'] = True
                        fb['note'] = 'verified in isolation (failed only in whole-file solver context)'
            kept.extend(r.failures)
        ur.run.failures = kept
    ur.wall_s = time.time() - ur.t0
    _unit_cache[(unit, rlimit)] = ur
    return ur


def owner_of(ur, line, text_lines):
    """(name, record|None) of the function containing generated line"""
    for rec in ur.u.records:
        if rec.kind in ('fn', 'sig') and rec.gen_start <= line <= rec.gen_end:
            return short_fn(rec.selector), rec
    # template function: scan backwards for fn NAME
    for k in range(line - 1, max(0, line - 400), -1):
        m = re.search(r'\bfn\s+(\w+)', text_lines[k - 1]) if k - 1 < len(text_lines) else None
        if m and not text_lines[k - 1].lstrip().startswith('//'):
            return m.group(1), None
    return '?', None


def norm(s, n=160):
    return re.sub(r'\s+', ' ', s).strip()[:n]


def name_failures(ur):
    """turn Verus failures into named obligations"""
    out = []
    lines = ur.text.split('\n')
    for f in ur.run.failures:
        spans = f.get('spans', [])
        ours = [s for s in spans if s.get('file') and os.path.basename(s['file']) == ur.unit + '.rs']
        prim = [s for s in ours if s.get('primary')] or ours
        # the line inside our file that locates the function: prefer a non-spec span (call site / body) for ownership
        own_line = None
        for s in ours:
            o = ur.lmap.get(s['line_start'])
            if o and o['k'] == 'src':
                own_line = s['line_start']
                break
        if own_line is None and ours and f['kind'] == 'requires@call':
            # a call made from a proof hint: the caller is where the primary span (the call) sits, not where the violated clause is written
            site = [s for s in ours if s.get('primary') and 'failed precondition' not in (s.get('label') or '')]
            if site:
                own_line = site[0]['line_start']
        if own_line is None and ours:
            own_line = ours[-1]['line_start'] if f['kind'] == 'ensures' else ours[0]['line_start']
        fn, rec = owner_of(ur, own_line or f['line'], lines)
        kind = f['kind']
        foreign_pre = False
        if kind == 'requires@call':
            pre = [s for s in spans if s.get('label') and 'failed precondition' in (s.get('label') or '')]
            if not pre or not any(os.path.basename(p.get('file') or '') == ur.unit + '.rs' for p in pre):
                # the violated precondition belongs to a std function specified by vstd (index/slice bounds, unwrap, char boundary, ...)
                foreign_pre = True
                kind = 'safety:std-precondition'
        # descriptive text
        if kind == 'ensures':
            clause = [s for s in ours if (s.get('label') or '').startswith('failed this postcondition')]
            txt = norm(clause[0]['text']) if clause else norm(prim[0]['text'] if prim else '')
        elif kind in ('requires@call', 'safety:std-precondition'):
            call = [s for s in ours if s.get('primary')] or ours
            pre = [s for s in spans if 'failed precondition' in (s.get('label') or '')]
            txt = norm(call[0]['text'] if call else '', 100) + ' <- ' + norm(pre[0]['text'] if pre else '', 100)
        else:
            txt = norm(prim[0]['text'] if prim else '')
        loc = None
        for s in ours:
            o = ur.lmap.get(s['line_start'])
            if o and o['k'] == 'src':
                loc = '%s:%d' % (o['file'], o['line'])
                break
        spec_loc = None
        for s in ours:
            o = ur.lmap.get(s['line_start'])
            if o and o['k'] in ('spec', 'tpl'):
                spec_loc = '%s:%d' % (o['tpl'], o['line'])
                break
        out.append({'unit': ur.unit, 'fn': fn, 'kind': kind, 'text': txt,
                    'obligation': '%s::%s::%s[%s]' % (ur.unit, fn, kind, txt),
                    'src': loc, 'spec': spec_loc, 'message': f['message'], 'rendered': f.get('rendered', ''),
                    'selector': rec.selector if rec else None, 'file': rec.file if rec else None})
    return out


def vacuity_report(ur):
    """every contracted exec fn must fail its injected assert(false); the canary must fail."""
    problems = []
    failed_lines = set()
    for f in ur.vrun.failures:
        for s in f.get('spans', []):
            failed_lines.add(s['line_start'])
    vlines = ur.vtext.split('\n')
    expected = 0
    for i, l in enumerate(vlines, 1):
        if '/*VACUITY*/' in l:
            expected += 1
            if i not in failed_lines:
                fn, _ = owner_of_v(ur, i)
                problems.append('vacuous: assert(false) at the head of %s verifies (contradictory requires or invariant)' % fn)
    canary = any('__canary_must_fail' in (f.get('rendered') or '') or 'ensures false' in ' '.join(s.get('text', '') for s in f.get('spans', [])) for f in ur.vrun.failures)
    if not canary:
        problems.append('canary lemma `ensures false` did not fail')
    if ur.vrun.compile_errors:
        problems.append('vacuity file did not compile: %s' % ur.vrun.compile_errors[0]['message'][:200])
    return expected, problems


def owner_of_v(ur, line):
    for rec in ur.uv.records:
        if rec.gen_start <= line <= rec.gen_end:
            return short_fn(rec.selector), rec
    return '?', None


def load_known():
    if os.path.exists(KNOWN_PATH):
        return json.load(open(KNOWN_PATH))
    return {'findings': [], 'fixed': []}


EXPECTED_DROPS_PATH = os.path.join(ROOT, 'expected_drops.json')
EXPECTED_DROPS = set(json.load(open(EXPECTED_DROPS_PATH))) if os.path.exists(EXPECTED_DROPS_PATH) else set()


BASELINE_SHAPES_PATH = os.path.join(ROOT, 'baseline_shapes.json')
BASELINE_SHAPES = json.load(open(BASELINE_SHAPES_PATH)) if os.path.exists(BASELINE_SHAPES_PATH) else {}
VSTD_SPECIFIED = set(open(os.path.join(ROOT, 'vf', 'vstd_specified.txt')).read().split()) if os.path.exists(os.path.join(ROOT, 'vf', 'vstd_specified.txt')) else set()


def new_constructs(ur, rec):
    """constructs in the CURRENT source text of an extracted function that the verifier has no semantics for and that the text the contracts were
    written for (baseline_shapes.json, recorded on the unchanged tree) did not have: a call of a name that neither this unit defines or specifies
    nor vstd specifies, or an additional closure expression (a closure's body is invisible at its call sites unless a `closure` directive
    annotates it). Verus ACCEPTS several unspecified std functions (e.g. the provided methods of Iterator) and simply knows nothing about their
    results; a proof that fails then says nothing about the code."""
    base = BASELINE_SHAPES.get(ur.unit, {}).get(rec.selector)
    if base is None:
        return []
    defined = set(re.findall(r'\bfn\s+(\w+)', ur.text)) | set(re.findall(r'assume_specification[^\[]*\[[^\]]*?(\w+)\s*\]', ur.text))
    out = ['call of `%s` (no specification in this unit or in vstd)' % c for c in rec.callees
           if c not in base['callees'] and c not in defined and c not in VSTD_SPECIFIED]
    if rec.n_closures > base['closures']:
        out.append('%d closure expression(s) more than the text the contracts were written for' % (rec.n_closures - base['closures']))
    return out


def displaced_aids(ur, rec):
    """position-bound proof aids of an extracted function that no longer sit where they were written for (baseline_shapes.json): a hint whose
    anchor statement is now enclosed by different blocks, a loop-end proof step in a loop that has more `continue` exits than before (they skip
    it), an exit-state proof step in a function that has more early exits than before. The aid text is a proof step for a particular program
    point; when the control structure around it was reshaped, a failing proof may be the misplaced step, not the code."""
    base = BASELINE_SHAPES.get(ur.unit, {}).get(rec.selector)
    if base is None or 'aids' not in base:
        return []
    out = []
    for k, v in rec.aid_ctx.items():
        if k not in base['aids']:
            continue
        b = base['aids'][k]
        if isinstance(v, int):
            if v > b:
                out.append('%s: %d -> %d' % (k, b, v))
        elif v != b:
            out.append('%s: now inside [%s], written for [%s]' % (k, v, b))
    return out


CONTEXT_PINS_PATH = os.path.join(ROOT, 'context_pins.json')
CONTEXT_PINS = json.load(open(CONTEXT_PINS_PATH)) if os.path.exists(CONTEXT_PINS_PATH) else {}


def context_pin_status(prop):
    from .gen import SrcCache
    cache = SrcCache()
    rows = []
    for pin in CONTEXT_PINS.get(prop, []):
        row = dict(pin)
        try:
            src = cache.get(pin['file'])
            found = src.find(pin['selector'])
        except GenError:
            found = []
        if len(found) != 1:
            row['state'] = 'is gone (or ambiguous)'
        else:
            it = found[0]
            sig = ' '.join(t.text for t in src.toks[it.start:it.end] if t.kind not in ('ws', 'comment'))
            row['state'] = 'unchanged' if hashlib.sha256(sig.encode()).hexdigest()[:12] == pin['hash'] else 'has changed'
        rows.append(row)
    return rows


def drop_fn(msg):
    """function a dropped-directive message belongs to (messages start with `<file> :: <selector>: ` or `<selector>: `)"""
    head = msg.split(': ', 1)[0]
    sel = head.split(' :: ', 1)[1] if ' :: ' in head else head
    return short_fn(sel)


def stability_pass(ur, ucfg):
    """thorough tier: re-verify the generated unit from scratch (no result cache) with every function in its own solver instance and another
    random seed; report the relevant functions whose verdict differs from the quick run. A proof that only goes through in one solver context is
    brittle (DESIGN 9.3, whole-file instability); this never changes the verdict, it is recorded in the evidence."""
    path = os.path.join(BUILD, ur.unit, ur.unit + '.rs')
    r2 = run_verus(path, 20, 10, 3600, False, ('--num-threads', '12', '-V', 'spinoff-all', '--smt-option', 'smt.random_seed=7'))
    base = {fb['function']: fb['success'] for fb in ur.run.functions}
    diff = []
    for fb in r2.functions:
        nm = fb['function'].split('::', 1)[1] if '::' in fb['function'] else fb['function']
        if not fn_relevant(ucfg, nm):
            continue
        if fb['function'] in base and base[fb['function']] != fb['success']:
            diff.append({'fn': fb['function'], 'quick': base[fb['function']], 'spinoff_seed7': fb['success']})
    return {'unit': ur.unit, 'cmd': r2.cmd, 'wall_s': round(r2.wall_s, 1), 'functions': len(r2.functions), 'smt_ms': r2.smt_ms,
            'verdict_differs': diff, 'rejected': bool(r2.compile_errors), 'resource': [x['message'][:120] for x in r2.resource]}


def relevant(prop, spec, unit, fail):
    """does a failure in `unit` count against property `prop`?"""
    ucfg = spec['units'][unit] if isinstance(spec['units'], dict) else {}
    kinds = ucfg.get('kinds')
    fns = ucfg.get('fns')
    if kinds and not any(fail['kind'].startswith(k) for k in kinds):
        return False
    if fns and not any(re.fullmatch(p, fail['fn']) for p in fns):
        return False
    nfns = ucfg.get('not_fns')
    if nfns and any(re.fullmatch(p, fail['fn']) for p in nfns):
        return False
    # obligations owned by ANOTHER property although they sit in a function this property also relies on (e.g. the C03 restart condition
    # inside HtmlFilterBodyAction::filter, which C04 and C15 use for their own clauses)
    nobl = ucfg.get('not_obligations')
    if nobl and any(re.search(p, fail.get('text') or '') for p in nobl):
        return False
    return True


def strip_mod(name):
    parts = name.split('::')
    k = 0
    while k < len(parts) - 1 and parts[k][:1].islower():
        k += 1
    return '::'.join(parts[k:])


def fn_relevant(ucfg, name):
    name = strip_mod(name)
    fns = ucfg.get('fns')
    if fns and not any(re.fullmatch(p, name) for p in fns):
        return False
    nfns = ucfg.get('not_fns')
    if nfns and any(re.fullmatch(p, name) for p in nfns):
        return False
    return True


def check_property(prop, tier='quick'):
    t0 = time.time()
    spec = PROPS[prop]
    units = list(spec['units'].keys()) if isinstance(spec['units'], dict) else list(spec['units'])
    seed = int(os.environ.get('VERIF_SEED', '0') or 0)
    known = load_known()
    with cf.ThreadPoolExecutor(max(1, min(6, len(units)))) as ex:
        results = list(ex.map(run_unit, units))
    undecided = []
    violations = []
    known_hits = []
    fn_rows = []
    stability = []
    if tier == 'thorough':
        for ur in results:
            if not ur.error and not ur.run.compile_errors:
                stability.append(stability_pass(ur, spec['units'][ur.unit] if isinstance(spec['units'], dict) else {}))
    trusted = []
    rewrites = {}
    manual = []
    outlined = []
    clause_tot = {'requires': 0, 'ensures': 0, 'invariants': 0, 'decreases': 0, 'hints': 0}
    obligations = discharged = 0
    smt_ms = 0
    cmds = []
    fcontract = []
    fassumed = []
    vac_expected = 0
    coverage_impl = {}
    samples = []
    for ur in results:
        ucfg = spec['units'][ur.unit] if isinstance(spec['units'], dict) else {}
        if ur.error:
            undecided.append('%s: %s' % (ur.unit, ur.error))
            continue
        if ur.run.compile_errors:
            e = ur.run.compile_errors[0]
            o = ur.lmap.get(e.get('line', 0))
            undecided.append('%s: verus rejected the unit (not a verdict): %s @gen:%s %s' % (ur.unit, e['message'][:300], e.get('line'), o or ''))
            continue
        for re_ in ur.run.resource:
            undecided.append('%s: resource limit: %s' % (ur.unit, re_['message'][:200]))
        cmds.append(ur.run.cmd)
        smt_ms += ur.run.smt_ms
        fails = name_failures(ur)
        failed_fns = set(f['fn'] for f in fails)
        # per function rows
        by_name = {}
        for rec in ur.u.records:
            if rec.kind in ('fn', 'sig'):
                by_name.setdefault(rec.name, []).append(rec)
        for fb in ur.run.functions:
            nm = fb['function'].split('::', 1)[1] if '::' in fb['function'] else fb['function']
            rel = fn_relevant(ucfg, nm) and not (ucfg.get('kinds') and False)
            if not rel:
                continue
            obligations += 1
            ok_here = fb['success']
            if not ok_here and (ucfg.get('kinds') or ucfg.get('not_obligations')):
                # a property restricted to some kinds of obligations (e.g. C07: safety / termination) counts a function as discharged
                # when none of ITS failures is of a relevant kind (the other kinds are decided under the property that owns them)
                mine = [f for f in fails if strip_mod(f['fn']) == strip_mod(nm) or f['fn'] == nm]
                if mine and not any(relevant(prop, spec, ur.unit, f) for f in mine):
                    ok_here = True
            if ok_here:
                discharged += 1
            fn_rows.append({'fn': ur.unit + '::' + nm, 'mode': fb['mode'], 'ok': ok_here, 'smt_us': fb['time_us'], 'rlimit': fb['rlimit']})
        for rec in ur.u.records:
            if rec.kind not in ('fn', 'sig'):
                continue
            nm = short_fn(rec.selector)
            if not fn_relevant(ucfg, nm):
                continue
            row = {'fn': nm, 'file': rec.file, 'line': rec.src_line, 'sha256': rec.sha256[:16], 'requires': rec.n_requires, 'ensures': rec.n_ensures,
                   'invariant_clauses': rec.n_invariants, 'decreases': rec.n_decreases, 'hints': rec.n_hints, 'loops': rec.loops,
                   'rewrites': rec.rewrites, 'manual': len(rec.manual)}
            if rec.external_body:
                fassumed.append(row)
            else:
                fcontract.append(row)
                clause_tot['requires'] += rec.n_requires
                clause_tot['ensures'] += rec.n_ensures
                clause_tot['invariants'] += rec.n_invariants
                clause_tot['decreases'] += rec.n_decreases
                clause_tot['hints'] += rec.n_hints
        trusted.extend('%s: %s' % (ur.unit, t) for t in sorted(set(ur.u.assumed)))
        for k, v in ur.u.rewrite_counts.items():
            rewrites[k] = rewrites.get(k, 0) + v
        manual.extend(ur.u.manual)
        outlined.extend(ur.u.outlined)
        for (f, sel), d in ur.u.listed_fns.items():
            coverage_impl['%s :: %s' % (f, sel)] = {'extracted': sorted(k for k, v in d.items() if v), 'not_extracted': sorted(k for k, v in d.items() if not v)}
        # vacuity
        exp, probs = vacuity_report(ur)
        vac_expected += exp
        for p in probs:
            undecided.append('%s: %s' % (ur.unit, p))
        # classify failures
        seen_obl = set()
        for f in fails:
            if not relevant(prop, spec, ur.unit, f):
                continue
            if f['obligation'] in seen_obl:
                continue
            seen_obl.add(f['obligation'])
            hit = None
            for kf in known.get('findings', []):
                if kf['property'] == prop and kf['obligation'] == f['obligation']:
                    hit = kf
                    break
            if hit:
                known_hits.append((hit, f))
            else:
                # a proof aid of THIS function (hint / outline / closure / statelift / optional-loop clause) lost its anchor on this tree and is
                # not among the drops expected on the clean tree (expected_drops.json): the failure may be the missing aid, not the code.
                # Undecided (exit 2), never an alarm.
                fshort = strip_mod(f['fn'])
                lost = [h for h in ur.u.hints_dropped if h not in EXPECTED_DROPS and drop_fn(h) == fshort]
                frec = [r for r in ur.u.records if r.kind == 'fn' and short_fn(r.selector) == fshort]
                newc = new_constructs(ur, frec[0]) if len(frec) == 1 else []
                if lost:
                    undecided.append('%s::%s failed %s, but a proof aid of that function lost its anchor on this tree (%s): not a verdict' % (ur.unit, fshort, f['obligation'], lost[0][:200]))
                elif frec and len(frec) == 1 and displaced_aids(ur, frec[0]):
                    undecided.append('%s::%s failed %s, but the control structure around a position-bound proof step of that function changed (%s): the step may be misplaced, not a verdict' % (ur.unit, fshort, f['obligation'], '; '.join(displaced_aids(ur, frec[0]))[:300]))
                elif newc:
                    # the function now uses something the verifier knows nothing about: the failed obligation may be the missing specification
                    undecided.append('%s::%s failed %s, but its text now contains %s: the verifier has no semantics for it, not a verdict' % (ur.unit, fshort, f['obligation'], '; '.join(newc)[:300]))
                else:
                    violations.append(f)
        # samples
        for rec in ur.u.records[:]:
            if rec.kind == 'fn' and rec.contracted and len(samples) < 6 and fn_relevant(ucfg, short_fn(rec.selector)):
                body = '\n'.join(ur.text.split('\n')[rec.gen_start - 1:rec.gen_start + 14])
                samples.append({'function': short_fn(rec.selector), 'source': '%s:%d' % (rec.file, rec.src_line), 'contract_head': body})
    # extra engines (kani / replay) hooks
    extra = {}
    if spec.get('kani'):
        from . import kani
        kres = kani.run_for_property(prop, spec, tier)
        extra['kani'] = kres['summary']
        for v in kres['violations']:
            hit = None
            for kf in known.get('findings', []):
                if kf['property'] == prop and kf['obligation'] == v['obligation']:
                    hit = kf
            if hit:
                known_hits.append((hit, v))
            else:
                violations.append(v)
        undecided.extend(kres['undecided'])
        cmds.extend(kres['cmds'])
        trusted.extend(kres.get('trusted', []))
    # context pins: functions this property's behaviour passes through that none of its units verifies (context_pins.json, written on the clean tree
    # by tools/context_pins.py). A changed context function cannot be judged by any contract here: the property is undecided, not OK.
    ctx_rows = context_pin_status(prop)
    for row in ctx_rows:
        if row['state'] != 'unchanged':
            undecided.append('context function %s :: %s %s; no unit of %s verifies it (pinned text %s): not a verdict' % (row['file'], row['selector'], row['state'], prop, row['hash']))
    wall = time.time() - t0
    # safety net: a relevant function that did not verify must have produced a named failure; if none could be attributed, the run is
    # undecided (never OK)
    if not violations and not known_hits and not undecided and discharged < obligations:
        undecided.append('%d relevant function(s) did not verify but no failure could be attributed to an obligation' % (obligations - discharged))
    # ---- evidence
    kf_obls = len(known_hits)
    level = spec.get('level', 'proof')
    ev = {
        'property_id': prop, 'tier': tier, 'seed': seed, 'level': level,
        'coverage': {
            'obligations': obligations - len(set(f['fn'] for _, f in known_hits if f.get('unit'))) if obligations else 0,
            'discharged': discharged,
            'checker_cmd': ' ; '.join(sorted(set(cmds))) or 'none',
            'trusted_base': sorted(set(trusted)) + spec.get('trusted_extra', []),
            'explanation': spec.get('explanation', ''),
            'obligation_unit': 'one obligation = one exec function under contract or one proof lemma, verified by Verus against its spliced contract (all its requires-at-call-sites, ensures, invariants, decreases and safety conditions); known-finding functions are excluded from `obligations` and listed under known_findings_reported',
            'clauses': clause_tot,
            'functions_under_contract': fcontract,
            'functions_assumed_external_body': fassumed,
            'impl_coverage': coverage_impl,
            'per_function': fn_rows,
            'solver': 'Z3 (bundled with Verus)', 'smt_ms': smt_ms,
            'rewrites_applied': rewrites, 'manual_rewrites': manual, 'outlined': outlined,
            'vacuity_guards_failed_as_expected': vac_expected,
            'hints_dropped_anchor_lost': [h for ur in results if not ur.error for h in ur.u.hints_dropped],
            'hints_relocated_condition_changed': [h for ur in results if not ur.error for h in getattr(ur.u, 'hints_relocated', [])],
            'pinned_assumed_functions': sorted(set(x for ur in results if not ur.error for x in getattr(ur.u, 'pinned', []))),
            'context_functions_pinned_not_verified': ['%s :: %s' % (r['file'], r['selector']) for r in ctx_rows],
            'statement_clauses_covered': spec.get('covered', []),
            'statement_clauses_not_covered': spec.get('not_covered', []),
            'bounded': extra.get('kani', {}).get('bounded', []) if extra else [],
            'kani': extra.get('kani'),
            'known_findings_reported': [{'obligation': f['obligation'], 'what': kf.get('what', '')} for kf, f in known_hits],
            'thorough_stability_pass': stability,
            'undecided': undecided,
            'samples': samples or [{'note': 'no contracted function extracted'}],
        },
        'assumptions': spec.get('assumptions', []) + ['Verus %s + bundled Z3, rustc 1.98.1; vstd specifications of std' % (results[0].run.version if results and not results[0].error else '')],
        'wall_s': round(wall, 2),
        'violations': len(violations),
    }
    if level == 'proof' and (undecided or violations or ev['coverage']['obligations'] < 1 or ev['coverage']['discharged'] != ev['coverage']['obligations']):
        # a run that did not end in "every obligation discharged" makes no proof claim: record it as such (schema: level other)
        ev['level'] = 'other'
        ev['coverage']['explanation'] = ('THIS RUN MAKES NO PROOF CLAIM: %s. Counts are partial. ' % (
            'violation reported' if violations else ('undecided (exit 2): ' + '; '.join(undecided)[:600]) if undecided else 'not every obligation discharged')) + ev['coverage']['explanation']
    os.makedirs(os.path.join(ROOT, 'evidence'), exist_ok=True)
    json.dump(ev, open(os.path.join(ROOT, 'evidence', prop + '.json'), 'w'), indent=1)
    # ---- verdict
    for kf, f in known_hits:
        print('KNOWN-FINDING: property=%s %s -- %s' % (prop, f['obligation'], kf.get('what', '')))
    if violations:
        from .replay import make_replay
        for v in violations:
            path, found = make_replay(prop, v, tier)
            tail = '' if found else ' no-failing-input-found'
            print('failed obligation: %s  (%s; source %s; contract %s)' % (v['obligation'], v['message'], v.get('src'), v.get('spec')))
            print('VIOLATION property=%s replay=%s%s' % (prop, path, tail))
        return 1
    if undecided:
        for u in undecided:
            print('UNDECIDED property=%s %s' % (prop, u))
        return 2
    # obligations must all be discharged apart from known findings
    print('OK property=%s obligations=%d discharged=%d known_findings=%d wall=%.1fs' % (prop, ev['coverage']['obligations'], discharged, kf_obls, wall))
    return 0


def main(argv):
    import argparse
    ap = argparse.ArgumentParser()
    ap.add_argument('prop', nargs='?')
    ap.add_argument('--tier', default=os.environ.get('VERIF_TIER', 'quick'))
    ap.add_argument('--unit')
    ap.add_argument('--all', action='store_true')
    ap.add_argument('--replay')
    a = ap.parse_args(argv)
    if a.replay:
        from .replay import run_replay
        return run_replay(a.replay)
    if a.unit:
        ur = run_unit(a.unit)
        if ur.error:
            print('UNDECIDED', ur.error)
            return 2
        print('verus: rc=%s results=%s smt=%dms wall=%.1fs cached=%s' % (ur.run.rc, ur.run.results, ur.run.smt_ms, ur.run.wall_s, ur.run.cached))
        for e in ur.run.compile_errors[:10]:
            print('COMPILE', e['message'][:500], '@gen:%s' % e.get('line'), ur.lmap.get(e.get('line')))
            if e.get('rendered'):
                print(e['rendered'][:1500])
        for e in ur.run.resource:
            print('RESOURCE', e['message'][:300])
        for f in name_failures(ur):
            print('FAIL', f['obligation'], '| src', f['src'], '| spec', f['spec'])
        exp, probs = vacuity_report(ur)
        print('vacuity: %d guards, problems: %s' % (exp, probs))
        for fb in ur.run.functions:
            if not fb['success'] or fb['time_us'] > 3_000_000:
                print('  fn', fb)
        return 0 if ur.run.ok and not probs else 1
    if a.all:
        rc = 0
        for p in sorted(PROPS):
            r = check_property(p, a.tier)
            rc = max(rc, r)
        return rc
    if not a.prop:
        ap.print_help()
        return 2
    if a.prop not in PROPS:
        print('unknown property', a.prop)
        return 2
    return check_property(a.prop, a.tier)


if __name__ == '__main__':
    sys.exit(main(sys.argv[1:]))

"""Minimal Rust lexer + item locator used by the extractor.

Not a parser: it tokenises (strings, raw strings, byte strings, chars vs lifetimes, nested block
comments handled) and matches brackets, which is all that is needed to copy items out of the real
source text byte for byte.
"""
import re
from dataclasses import dataclass, field

IDENT_START = re.compile(r'[A-Za-z_]')
IDENT = re.compile(r'[A-Za-z_][A-Za-z0-9_]*')
NUMBER = re.compile(r'[0-9][0-9A-Za-z_]*(\.[0-9][0-9A-Za-z_]*)?')


class LexError(Exception):
    pass


@dataclass
class Tok:
    kind: str   # ws, comment, ident, lifetime, char, string, number, punct
    text: str
    start: int
    end: int


def lex(src: str):
    toks = []
    i, n = 0, len(src)
    while i < n:
        c = src[i]
        if c.isspace():
            j = i + 1
            while j < n and src[j].isspace():
                j += 1
            toks.append(Tok('ws', src[i:j], i, j)); i = j; continue
        if src.startswith('//', i):
            j = src.find('\n', i)
            if j < 0:
                j = n
            toks.append(Tok('comment', src[i:j], i, j)); i = j; continue
        if src.startswith('/*', i):
            depth, j = 1, i + 2
            while j < n and depth:
                if src.startswith('/*', j):
                    depth += 1; j += 2
                elif src.startswith('*/', j):
                    depth -= 1; j += 2
                else:
                    j += 1
            toks.append(Tok('comment', src[i:j], i, j)); i = j; continue
        # raw strings / byte strings / raw identifiers
        m = re.match(r'(br|rb|r|b|c|cr)?(#*)"', src[i:i + 12]) if c in 'brc"' else None
        if m and (m.group(1) is None or 'r' in (m.group(1) or '') or m.group(2) == ''):
            prefix, hashes = m.group(1) or '', m.group(2)
            if 'r' in prefix:
                close = '"' + hashes
                j = src.find(close, i + len(m.group(0)))
                if j < 0:
                    raise LexError('unterminated raw string at %d' % i)
                j += len(close)
                toks.append(Tok('string', src[i:j], i, j)); i = j; continue
            elif hashes == '':
                j = i + len(m.group(0))
                while j < n and src[j] != '"':
                    j += 2 if src[j] == '\\' else 1
                j += 1
                toks.append(Tok('string', src[i:j], i, j)); i = j; continue
        if c == 'b' and i + 1 < n and src[i + 1] == "'":
            j = i + 2
            if src[j] == "'":   # b''' cannot occur in valid Rust (must be escaped) but be safe
                j += 1
            while j < n and src[j] != "'":
                j += 2 if src[j] == '\\' else 1
            j += 1
            toks.append(Tok('char', src[i:j], i, j)); i = j; continue
        if c == "'":
            # char literal or lifetime
            if i + 2 < n and src[i + 1] == '\\':
                j = i + 1
                while j < n and src[j] != "'":
                    j += 2 if src[j] == '\\' else 1
                j += 1
                toks.append(Tok('char', src[i:j], i, j)); i = j; continue
            if i + 2 < n and src[i + 2] == "'":
                toks.append(Tok('char', src[i:i + 3], i, i + 3)); i += 3; continue
            m2 = IDENT.match(src, i + 1)
            if m2:
                j = m2.end()
                toks.append(Tok('lifetime', src[i:j], i, j)); i = j; continue
            # non-ascii char literal like 'é'
            j = src.find("'", i + 1)
            toks.append(Tok('char', src[i:j + 1], i, j + 1)); i = j + 1; continue
        if IDENT_START.match(c):
            m2 = IDENT.match(src, i)
            j = m2.end()
            toks.append(Tok('ident', src[i:j], i, j)); i = j; continue
        if c.isdigit():
            m2 = NUMBER.match(src, i)
            j = m2.end()
            # avoid swallowing range operator "0..n" / method call "1.max"
            t = src[i:j]
            if '.' in t:
                k = t.index('.')
                if not t[k + 1:k + 2].isdigit():
                    j = i + k
            toks.append(Tok('number', src[i:j], i, j)); i = j; continue
        toks.append(Tok('punct', c, i, i + 1)); i += 1
    return toks


OPEN = {'{': '}', '(': ')', '[': ']'}
CLOSE = {'}': '{', ')': '(', ']': '['}


def match_brackets(toks):
    """index of matching bracket for every bracket token (dict i->j both ways)."""
    stack, m = [], {}
    for i, t in enumerate(toks):
        if t.kind != 'punct':
            continue
        if t.text in OPEN:
            stack.append(i)
        elif t.text in CLOSE:
            if not stack:
                raise LexError('unbalanced %s at %d' % (t.text, t.start))
            j = stack.pop()
            if OPEN[toks[j].text] != t.text:
                raise LexError('mismatched bracket at %d' % t.start)
            m[i] = j; m[j] = i
    if stack:
        raise LexError('unclosed bracket at %d' % toks[stack[-1]].start)
    return m


ITEM_KW = {'fn', 'struct', 'enum', 'impl', 'trait', 'mod', 'const', 'static', 'type', 'use', 'macro_rules', 'union'}
QUALS = {'pub', 'unsafe', 'async', 'extern', 'default', 'const'}


@dataclass
class Item:
    kind: str
    name: str          # ident, or normalised header for impl
    start: int         # token index of first token (attrs/doc comments included)
    kw: int            # token index of the keyword
    end: int           # token index one past the last token
    body: int = -1     # token index of the opening '{' of the body (or -1)
    attrs: list = field(default_factory=list)


def sig_text(toks, a, b):
    """normalised text of toks[a:b]: whitespace/comments dropped, single space between word-like tokens."""
    out = []
    prev_word = False
    for t in toks[a:b]:
        if t.kind in ('ws', 'comment'):
            continue
        word = t.kind in ('ident', 'lifetime', 'number')
        if word and prev_word:
            out.append(' ')
        out.append(t.text)
        prev_word = word
    return ''.join(out)


def items_in(toks, br, lo, hi):
    """Items directly inside token range [lo, hi) (depth 0 relative to that range)."""
    items = []
    i = lo
    pending_start = None
    attrs = []
    while i < hi:
        t = toks[i]
        if t.kind == 'ws':
            i += 1; continue
        if t.kind == 'comment':
            if t.text.startswith('///') or t.text.startswith('/**'):
                if pending_start is None:
                    pending_start = i
            i += 1; continue
        if t.kind == 'punct' and t.text == '#':
            # attribute #[...] or #![...]
            j = i + 1
            while toks[j].kind == 'ws' or (toks[j].kind == 'punct' and toks[j].text == '!'):
                j += 1
            if toks[j].text == '[':
                if pending_start is None:
                    pending_start = i
                attrs.append(sig_text(toks, i, br[j] + 1))
                i = br[j] + 1
                continue
        # qualifiers
        k = i
        start = pending_start if pending_start is not None else i
        while k < hi:
            tk = toks[k]
            if tk.kind in ('ws', 'comment'):
                k += 1; continue
            if tk.kind == 'ident' and tk.text in QUALS:
                # 'const' may be the item keyword itself (const NAME: T = ..;) or a qualifier (const fn)
                if tk.text == 'const':
                    nx = k + 1
                    while toks[nx].kind in ('ws', 'comment'):
                        nx += 1
                    if not (toks[nx].kind == 'ident' and toks[nx].text in ('fn', 'unsafe', 'extern', 'async')):
                        break
                k += 1
                # pub(crate) / extern "C"
                nx = k
                while nx < hi and toks[nx].kind in ('ws', 'comment'):
                    nx += 1
                if nx < hi and tk.text == 'pub' and toks[nx].text == '(':
                    k = br[nx] + 1
                elif nx < hi and tk.text == 'extern' and toks[nx].kind == 'string':
                    k = nx + 1
                continue
            break
        if k >= hi:
            break
        tk = toks[k]
        if tk.kind == 'ident' and tk.text in ITEM_KW:
            kw = tk.text
            # find name + end
            j = k + 1
            while toks[j].kind in ('ws', 'comment'):
                j += 1
            name = None
            if kw == 'macro_rules':
                # macro_rules! name { .. }
                while toks[j].text == '!' or toks[j].kind in ('ws', 'comment'):
                    j += 1
                name = toks[j].text
                j += 1
                while toks[j].kind in ('ws', 'comment'):
                    j += 1
                end = br[j] + 1
                body = j
                # optional trailing ;
                e2 = end
                while e2 < hi and toks[e2].kind == 'ws':
                    e2 += 1
                if e2 < hi and toks[e2].text == ';':
                    end = e2 + 1
            elif kw == 'impl':
                # header up to the body '{' at depth 0
                e = j
                while not (toks[e].kind == 'punct' and toks[e].text == '{'):
                    if toks[e].kind == 'punct' and toks[e].text in '([':
                        e = br[e]
                    e += 1
                hdr = sig_text(toks, j, e)
                # drop where-clause and leading generics for the name
                name = hdr
                body = e
                end = br[e] + 1
            else:
                name = toks[j].text if toks[j].kind == 'ident' else None
                # scan forward to '{' or ';' at depth 0 (generics may contain no braces)
                e = j
                body = -1
                while True:
                    te = toks[e]
                    if te.kind == 'punct':
                        if te.text == ';':
                            end = e + 1
                            break
                        if te.text == '{':
                            if kw in ('const', 'static', 'type', 'use'):
                                e = br[e]
                            else:
                                body = e
                                end = br[e] + 1
                                break
                        elif te.text in '([':
                            e = br[e]
                    e += 1
                if kw == 'struct' and body == -1:
                    pass
            items.append(Item(kw, name, start, k, end, body, attrs))
            pending_start = None
            attrs = []
            i = end
            continue
        # something else (macro invocation at item level, stray tokens): skip one token / bracket group
        if t.kind == 'punct' and t.text in OPEN:
            i = br[i] + 1
        else:
            i += 1
        pending_start = None
        attrs = []
    return items


class Source:
    def __init__(self, path, text):
        self.path = path
        self.text = text
        self.toks = lex(text)
        self.br = match_brackets(self.toks)
        self._top = None
        # line starts
        self.line_starts = [0]
        for m in re.finditer('\n', text):
            self.line_starts.append(m.end())

    def line_of(self, off):
        import bisect
        return bisect.bisect_right(self.line_starts, off)

    def top(self):
        if self._top is None:
            self._top = items_in(self.toks, self.br, 0, len(self.toks))
        return self._top

    def children(self, item):
        if item.body < 0:
            return []
        return items_in(self.toks, self.br, item.body + 1, self.br[item.body])

    def find(self, selector):
        """selector: 'kind name / kind name'.  impl names are normalised headers.
        Returns list of matching (Item) — caller decides about ambiguity."""
        parts = [p.strip() for p in selector.split(' / ')]
        cur = [None]
        for p in parts:
            kind, _, name = p.partition(' ')
            name = name.strip()
            nxt = []
            for parent in cur:
                its = self.top() if parent is None else self.children(parent)
                for it in its:
                    if it.kind != kind:
                        continue
                    if kind == 'impl':
                        if norm_hdr(it.name) == norm_hdr(name):
                            nxt.append(it)
                    elif it.name == name:
                        nxt.append(it)
            cur = nxt
            if not cur:
                return []
        return cur

    def text_of(self, item):
        return self.text[self.toks[item.start].start:self.toks[item.end - 1].end]


def norm_hdr(h):
    return re.sub(r'\s+', '', h)

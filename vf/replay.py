"""Replay files: one JSON per reported violation, naming the failed obligation and carrying the verifier output.

When a concrete failing input is available (from a Kani counterexample or from a recorded witness) the file
also carries it together with the command that re-executes it against the real crate."""
import hashlib
import json
import os
import subprocess
import sys

from .verus import ROOT


def make_replay(prop, v, tier):
    d = os.path.join(ROOT, 'replays', prop)
    os.makedirs(d, exist_ok=True)
    h = hashlib.sha256(v['obligation'].encode()).hexdigest()[:16]
    path = os.path.join(d, h + '.json')
    found = bool(v.get('counterexample'))
    json.dump({
        'property': prop,
        'failed_obligation': v['obligation'],
        'kind': v['kind'],
        'function': v.get('fn'),
        'source_location': v.get('src'),
        'contract_location': v.get('spec'),
        'verifier_message': v.get('message'),
        'verifier_output': v.get('rendered'),
        'counterexample': v.get('counterexample'),
        'replay_cmd': v.get('replay_cmd'),
        'replayed_on_real_code': v.get('replayed', False),
        'failing_input_found': found,
    }, open(path, 'w'), indent=1)
    return path, found


def run_replay(path):
    d = json.load(open(path))
    print('property         :', d['property'])
    print('failed obligation:', d['failed_obligation'])
    print('source           :', d.get('source_location'), ' contract:', d.get('contract_location'))
    print(d.get('verifier_output') or d.get('verifier_message') or '')
    if d.get('replay_cmd'):
        print('re-executing against the real crate:', d['replay_cmd'])
        p = subprocess.run(d['replay_cmd'], shell=True, cwd=ROOT)
        return 1 if p.returncode != 0 else 0
    print('no concrete failing input recorded (no-failing-input-found): re-run the check to re-establish the failed obligation')
    return 1

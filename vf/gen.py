"""Unit generator: template (hand-written specs + directives) + items extracted from /repo -> one Verus file.

See DESIGN.md §2.1-2.3.  The executable text of every extracted item is copied from the working tree of
/repo on every run; the only changes are the closed list of mechanical rewrites (R1..R10, counted) and the
explicitly listed `replace`/`outline` directives of the unit (counted and reported as manual rewrites).
Contracts (requires/ensures/invariant/decreases/ghost hints) are spliced in from the template.
"""
import hashlib
import os
import re
import json
from dataclasses import dataclass, field

from .rustlex import Source, sig_text, LexError

REPO = os.environ.get('VERIF_REPO', '/repo')
FEATURES_ON = {'router', 'compress'}   # default feature set of the crate


class GenError(Exception):
    """extraction/splice problem -> exit 2 (never an alarm)"""


DROP_ATTRS = ('non_exhaustive', 'derive', 'serde', 'allow', 'inline', 'repr', 'unsafe(no_mangle)', 'no_mangle', 'must_use',
              'cfg_attr', 'doc', 'wasm_bindgen', 'deprecated', 'default')
HEADER_KW = ('requires', 'ensures', 'decreases', 'returns', 'no_unwind', 'opens_invariants', 'recommends')
CLAUSE_KW = HEADER_KW + ('exit', 'closure', 'statelift', 'forlift', 'attr', 'loop', 'forlabel', 'after', 'before', 'opt', 'replace', 'outline', 'note', 'entry', 'loopbefore', 'loophead', 'looptail', 'loopend')


@dataclass
class Edit:
    start: int
    end: int
    text: str
    origin: tuple = None   # ('spec', tplfile, line) for inserted contract text; None for mechanical rewrite
    prio: int = 0


@dataclass
class FnRecord:
    unit: str
    file: str
    selector: str
    name: str
    kind: str                  # fn | sig | item
    sha256: str
    src_line: int
    loops: list
    gen_start: int = 0         # 1-based generated line range
    gen_end: int = 0
    external_body: bool = False
    n_requires: int = 0
    n_ensures: int = 0
    n_invariants: int = 0
    n_decreases: int = 0
    n_hints: int = 0
    rewrites: dict = field(default_factory=dict)
    manual: list = field(default_factory=list)
    body_head_gen_line: int = 0
    contracted: bool = False
    callees: list = field(default_factory=list)   # names in call position in the SOURCE text of the item
    n_closures: int = 0                            # closure expressions in the SOURCE text of the item
    skeleton: str = ''                             # control skeleton of the SOURCE text of the item
    if_ord: dict = field(default_factory=dict)     # hint key -> [k, n]: the anchor is the k-th of the n `if`s of the body (hints anchored on an `if` header)
    aid_ctx: dict = field(default_factory=dict)    # where each position-bound proof aid sits (enclosing block kinds) / what it relies on (exits)


KW_NOCALL = {'if', 'while', 'match', 'for', 'return', 'loop', 'fn', 'in', 'as', 'let', 'else', 'move', 'unsafe', 'where', 'impl', 'mut', 'ref',
             'break', 'continue', 'self', 'super', 'crate'}


def shape_of(toks, lo, hi):
    """(callee names, number of closure expressions) of the source tokens toks[lo:hi] -- what the item asks of code outside itself"""
    sig = [t for t in toks[lo:hi] if t.kind not in ('ws', 'comment')]
    callees, closures = set(), 0
    i, n = 0, len(sig)
    while i < n:
        t = sig[i]
        if t.kind == 'ident' and t.text not in KW_NOCALL and not t.text[0].isupper():
            pv = sig[i - 1] if i > 0 else None
            nx = sig[i + 1] if i + 1 < n else None
            if not (pv is not None and pv.kind == 'ident' and pv.text == 'fn') and nx is not None and nx.kind == 'punct':
                if nx.text == '(':
                    callees.add(t.text)
                elif nx.text == ':' and i + 3 < n and sig[i + 2].text == ':' and sig[i + 3].text == '<':
                    callees.add(t.text)
        elif t.kind == 'punct' and t.text == '|':
            pv = sig[i - 1] if i > 0 else None
            start = pv is None or (pv.kind == 'punct' and pv.text in '(,=>{;&:') or (pv.kind == 'ident' and pv.text in ('move', 'return', 'else'))
            if start:
                closures += 1
                j = i + 1
                while j < n and not (sig[j].kind == 'punct' and sig[j].text == '|'):
                    j += 1
                i = j
        i += 1
    return sorted(callees), closures


CTRL_KW = {'if', 'else', 'match', 'for', 'while', 'loop', 'return', 'continue', 'break'}


def block_kind(toks, i, lo):
    """what introduces the block opened by the `{` token i: if / else / match / for / while / loop / arm / closure / block"""
    j = i - 1
    while j > lo:
        t = toks[j]
        if t.kind in ('ws', 'comment'):
            j -= 1
            continue
        if t.kind == 'ident' and t.text in ('if', 'else', 'match', 'for', 'while', 'loop'):
            return t.text
        if t.kind == 'punct':
            if t.text == '>' and j - 1 > lo and toks[j - 1].text == '=':
                return 'arm'
            if t.text == '|':
                # `a || b {` / `a | b {` are operators inside a condition, not a closure header: a `|` whose left neighbour (skipping a second `|`)
                # ends an operand (identifier, literal, `)`, `]`) is binary; `|x| {`, `move || {`, `(|| {` are closure headers
                k = j - 1
                while k > lo and toks[k].kind in ('ws', 'comment'):
                    k -= 1
                dbl = toks[k].kind == 'punct' and toks[k].text == '|'
                if dbl:
                    k -= 1
                    while k > lo and toks[k].kind in ('ws', 'comment'):
                        k -= 1
                left = toks[k]
                operand_end = (left.kind in ('ident', 'number', 'string', 'char') and left.text not in ('move', 'return', 'else', 'in')) or (left.kind == 'punct' and left.text in (')', ']'))
                if dbl and operand_end:
                    j = k
                    continue
                return 'closure'
            if t.text in (';', '{', '}'):
                return 'block'
        j -= 1
    return 'block'


def control_context(toks, br, body, loops):
    """walk the body once: for every token index the stack of enclosing block kinds; per loop (by its body brace) the number of `continue` and
    `break` statements that leave an iteration of THAT loop; the number of function-level `return`s and `?` exits (outside closures)"""
    stack = []          # (kind, brace index)
    path_at = {}
    label_of = {}
    for n, L in enumerate(loops):
        # label: `'name :` before the loop keyword
        j = L['kw'] - 1
        while j > body and toks[j].kind in ('ws', 'comment'):
            j -= 1
        if j > body and toks[j].text == ':':
            k = j - 1
            while k > body and toks[k].kind in ('ws', 'comment'):
                k -= 1
            if toks[k].kind == 'lifetime':
                label_of[toks[k].text] = L['body']
    loop_bodies = {L['body']: n for n, L in enumerate(loops)}
    conts = {n: 0 for n in range(len(loops))}
    breaks = {n: 0 for n in range(len(loops))}
    returns = 0
    end = br[body]
    i = body + 1
    while i < end:
        t = toks[i]
        if t.kind == 'punct' and t.text == '{' and i in br:
            stack.append((block_kind(toks, i, body), i))
        elif t.kind == 'punct' and t.text == '}' and stack and br.get(stack[-1][1]) == i:
            stack.pop()
        path_at[i] = '/'.join(k for k, _ in stack)
        in_closure = any(k == 'closure' for k, _ in stack)
        if t.kind == 'ident' and t.text in ('continue', 'break'):
            j = i + 1
            while j < end and toks[j].kind in ('ws', 'comment'):
                j += 1
            target = None
            if toks[j].kind == 'lifetime':
                target = label_of.get(toks[j].text)
            else:
                for k, bi in reversed(stack):
                    if bi in loop_bodies:
                        target = bi
                        break
            if target is not None and target in loop_bodies:
                (conts if t.text == 'continue' else breaks)[loop_bodies[target]] += 1
        elif not in_closure and ((t.kind == 'ident' and t.text == 'return') or (t.kind == 'punct' and t.text == '?')):
            returns += 1
        i += 1
    return path_at, conts, breaks, returns


def skeleton_of(toks, lo, hi):
    """control skeleton of the source tokens toks[lo:hi]: the control keywords, `?` exits and block braces in order -- what position-bound proof
    steps (hints placed before/after a statement, at a loop's end, at the function's exit) implicitly rely on"""
    out = []
    sig = [t for t in toks[lo:hi] if t.kind not in ('ws', 'comment')]
    for i, t in enumerate(sig):
        if t.kind == 'ident' and t.text in CTRL_KW:
            out.append(t.text)
        elif t.kind == 'punct' and t.text in '{}':
            out.append(t.text)
        elif t.kind == 'punct' and t.text == '?':
            out.append('?')
    return ' '.join(out)


class SrcCache:
    def __init__(self):
        self.c = {}

    def get(self, rel):
        if rel not in self.c:
            p = os.path.join(REPO, rel)
            if not os.path.exists(p):
                raise GenError('anchor lost: file %s does not exist' % rel)
            try:
                self.c[rel] = Source(rel, open(p, encoding='utf-8').read())
            except LexError as e:
                raise GenError('cannot lex %s: %s' % (rel, e))
        return self.c[rel]


def flex_regex(anchor):
    parts = anchor.split()
    return re.compile(r'\s*'.join(re.escape(p) for p in parts))


def parse_clauses(lines):
    """lines: [(tplline, text)] of //@| lines -> list of (kw, text, tplline)"""
    out = []
    for ln, t in lines:
        s = t.strip()
        first = re.match(r'[a-z_]+', s)
        if not t[:1].isspace() and first and first.group(0) in CLAUSE_KW and (len(s) == len(first.group(0)) or not (s[len(first.group(0))].isalnum() or s[len(first.group(0))] in '_(.')):
            out.append([first.group(0), s[len(first.group(0)):].strip(), ln, [ln]])
        else:
            if not out:
                raise GenError('template line %d: continuation without clause' % ln)
            out[-1][1] += '\n' + t.rstrip()
            out[-1][3].append(ln)
    return out


class Unit:
    def __init__(self, name, tpl_path, mode='normal'):
        self.name = name
        self.tpl_path = tpl_path
        self.mode = mode            # normal | vacuity
        self.src = SrcCache()
        self.out = []               # list of (text, origin)
        self.records = []
        self.strip_paths = []
        self.renames = {}
        self.rewrite_counts = {}
        self.manual = []
        self.outlined = []
        self.tpl_text_all = ''
        self.assumed = []           # scan results
        self.listed_fns = {}        # (file, impl selector) -> set of fn names extracted (coverage)
        self.literals = {}
        self.hints_dropped = []
        self.hints_relocated = []   # if-anchored hints placed by the ordinal of their `if` (the condition text changed)
        bp = os.path.join(os.path.dirname(os.path.dirname(os.path.abspath(__file__))), 'baseline_shapes.json')
        try:
            self.baseline = json.load(open(bp)).get(name, {}) if os.path.exists(bp) else {}
        except ValueError:
            self.baseline = {}

    # ---------------------------------------------------------------- template
    def load_tpl(self, path, seen=None):
        seen = seen or set()
        if path in seen:
            raise GenError('include cycle ' + path)
        seen.add(path)
        lines = []
        for i, l in enumerate(open(path, encoding='utf-8').read().split('\n'), 1):
            m = re.match(r'\s*//@@\s*include\s+(\S+)', l)
            if m:
                inc = os.path.join(os.path.dirname(path), m.group(1))
                lines.extend(self.load_tpl(inc, seen))
            else:
                lines.append((path, i, l))
        return lines

    def emit(self, text, origin=None):
        self.out.append((text, origin))

    def count(self, rid, n=1):
        self.rewrite_counts[rid] = self.rewrite_counts.get(rid, 0) + n

    def generate(self):
        lines = self.load_tpl(self.tpl_path)
        self.tpl_text_all = '\n'.join(l for _, _, l in lines if not l.lstrip().startswith('//@'))
        self.tpl_text_full = '\n'.join(l for _, _, l in lines)
        i = 0
        while i < len(lines):
            path, ln, l = lines[i]
            m = re.match(r'\s*//@@\s*(\S+)\s*(.*)$', l)
            if not m:
                self.emit(l + '\n', ('tpl', path, ln))
                i += 1
                continue
            cmd, rest = m.group(1), m.group(2).strip()
            clause_lines = []
            j = i + 1
            while j < len(lines) and re.match(r'\s*//@\|', lines[j][2]):
                clause_lines.append((lines[j][1], re.sub(r'^\s*//@\|\s?', '', lines[j][2])))
                j += 1
            indent = re.match(r'\s*', l).group(0)
            if cmd == 'strip-path':
                self.strip_paths.append(rest)
            elif cmd == 'rename':
                a, b = rest.split()
                self.renames[a] = b
            elif cmd == 'unrename':
                self.renames.pop(rest.strip(), None)
            elif cmd in ('fn', 'sig', 'item'):
                self.do_extract(cmd, rest, parse_clauses(clause_lines), path, ln, indent)
            elif cmd == 'pin':
                # //@@ pin <file> :: <selector> = <sha256 prefix>  -- a function the unit only ASSUMES a contract for (hand-written shim): the
                # assumption was made for one text of that function. The hash is taken over its significant tokens (comments / whitespace
                # excluded). A different text means the assumed contract is no longer known to describe the code: undecided, never OK.
                mm = re.match(r'(\S+)\s*::\s*(.*?)\s*=\s*([0-9a-f?]+)\s*$', rest)
                if not mm:
                    raise GenError('%s:%d bad pin directive' % (path, ln))
                f, sel, want = mm.group(1), mm.group(2).strip(), mm.group(3)
                src = self.src.get(f)
                found = src.find(sel)
                if len(found) != 1:
                    raise GenError('assumed function changed: pinned %s :: %s matches %d items (its assumed contract is no longer known to describe the code)' % (f, sel, len(found)))
                it = found[0]
                sig = ' '.join(t.text for t in src.toks[it.start:it.end] if t.kind not in ('ws', 'comment'))
                got = hashlib.sha256(sig.encode()).hexdigest()[:len(want) if want != '?' else 12]
                if want == '?':
                    raise GenError('pin hash for %s :: %s is %s' % (f, sel, got))
                if got != want:
                    raise GenError('assumed function changed: pinned %s :: %s has token hash %s, the assumption was made for %s (its assumed contract is no longer known to describe the code)' % (f, sel, got, want))
                self.pinned = getattr(self, 'pinned', [])
                self.pinned.append('%s :: %s = %s' % (f, sel, want))
            elif cmd == 'strlits':
                self.emit_strlits(path, ln)
            elif cmd == 'cover':
                # //@@ cover <file> :: <impl selector>  -> record all fn names of that impl for coverage reports
                f, sel = [x.strip() for x in rest.split('::', 1)]
                src = self.src.get(f)
                for it in src.find(sel):
                    for c in src.children(it):
                        if c.kind == 'fn':
                            self.listed_fns.setdefault((f, sel), {}).setdefault(c.name, False)
            else:
                raise GenError('%s:%d unknown directive %s' % (path, ln, cmd))
            i = j
        return self.finish()

    def emit_strlits(self, path, ln):
        """R4 companion: for every ASCII string literal seen in extracted text, a *proved* lemma giving its chars and UTF-8 bytes"""
        self.emit('pub proof fn lit_empty()\n    ensures ""@.len() == 0, vstd::utf8::encode_utf8(""@).len() == 0,\n{\n    reveal_strlit("");\n    assert(""@ =~= Seq::<char>::empty());\n    assert(vstd::utf8::is_ascii_chars(""@));\n    vstd::utf8::is_ascii_chars_encode_utf8(""@);\n}\n', ('tpl', path, ln))
        # literals the unit's proof text names through `lit_<..>()` keep their lemma even when the code no longer contains them (a changed
        # literal in the code must be judged by the contract, not rejected for a missing helper lemma)
        for mm in re.finditer(r'\blit_(x[0-9a-f]+|[A-Za-z0-9_]+)\(\)', self.tpl_text_full):
            nm = mm.group(1)
            if nm == 'empty':
                continue
            try:
                v = bytes.fromhex(nm[1:]).decode() if re.fullmatch(r'x(?:[0-9a-f]{2})+', nm) else nm
            except Exception:
                continue
            if v and all(32 <= ord(ch) < 127 for ch in v) and v not in self.literals.values():
                self.literals['"%s"' % v.replace('\\', '\\\\').replace('"', '\\"')] = v
        for tok, v in sorted(self.literals.items()):
            name = 'lit_' + (v if re.fullmatch(r'[A-Za-z0-9_]+', v) else 'x' + v.encode().hex())
            chars = ', '.join("'%s'" % (ch if ch not in "'\\" else '\\' + ch) for ch in v)
            bts = ', '.join(('%du8' % b) if i == 0 else str(b) for i, b in enumerate(v.encode()))
            self.emit('pub proof fn %s()\n    ensures %s@ =~= seq![%s], %s@.len() == %d, vstd::utf8::encode_utf8(%s@) =~= seq![%s], vstd::utf8::encode_utf8(%s@).len() == %d,\n{\n    reveal_strlit(%s);\n    let s = %s@;\n    assert(s =~= seq![%s]);\n    assert(vstd::utf8::is_ascii_chars(s));\n    vstd::utf8::is_ascii_chars_encode_utf8(s);\n}\n'
                      % (name, tok, chars, tok, len(v), tok, bts, tok, len(v), tok, tok, chars), ('tpl', path, ln))

    # ---------------------------------------------------------------- extraction
    def do_extract(self, cmd, rest, clauses, tplpath, tplline, indent):
        m = re.match(r'(\S+)\s*::\s*(.*?)(?:\s*->\s*(\w+))?$', rest)
        if not m:
            raise GenError('%s:%d bad directive' % (tplpath, tplline))
        rel, selector, retname = m.group(1), m.group(2).strip(), m.group(3)
        src = self.src.get(rel)
        found = src.find(selector)
        ordm = re.search(r'#(\d+)$', selector)
        if not found and ordm:
            found = src.find(selector[:ordm.start()].strip())
            found = found[int(ordm.group(1)):int(ordm.group(1)) + 1]
        if len(found) != 1:
            raise GenError('anchor lost: %s :: %s matches %d items' % (rel, selector, len(found)))
        item = found[0]
        toks, br = src.toks, src.br
        s_off = toks[item.start].start
        e_off = toks[item.end - 1].end
        verbatim = src.text[s_off:e_off]
        opts = [c[1].strip() for c in clauses if c[0] == 'opt']
        rec = FnRecord(self.name, rel, selector, item.name, cmd, hashlib.sha256(verbatim.encode()).hexdigest(),
                       src.line_of(toks[item.kw].start), [])
        rec.callees, rec.n_closures = shape_of(toks, item.start, item.end)
        rec.skeleton = skeleton_of(toks, item.start, item.end)
        edits = []
        local_counts = {}

        def cnt(r, n=1):
            local_counts[r] = local_counts.get(r, 0) + n
            self.count(r, n)

        # ---- R1: attributes / doc comments
        k = item.start
        while k < item.end:
            t = toks[k]
            if t.kind == 'punct' and t.text == '#' and k + 1 < item.end:
                j = k + 1
                while toks[j].kind == 'ws':
                    j += 1
                if toks[j].text == '[':
                    close = br[j]
                    inner = sig_text(toks, j + 1, close)
                    name = inner.split('(')[0].split('=')[0].strip()
                    endtok = close + 1
                    # swallow trailing whitespace up to and including one newline
                    end_off = toks[close].end
                    mws = re.match(r'[ \t]*\n?', src.text[end_off:])
                    drop_end = end_off + mws.end()
                    if name == 'cfg':
                        val = self.eval_cfg(inner)
                        if val is None:
                            raise GenError('unsupported cfg attribute %s in %s :: %s' % (inner, rel, selector))
                        if val:
                            edits.append(Edit(t.start, drop_end, '')); cnt('R1')
                        else:
                            # drop the attribute and the thing it annotates (next item/field/statement/expression)
                            drop_end = self.annotated_end(src, endtok, item.end)
                            edits.append(Edit(t.start, drop_end, '')); cnt('R1-cfg-false')
                            k = self.tok_at(src, drop_end)
                            continue
                    elif any(inner == a or inner.startswith(a + '(') or inner.startswith(a + '=') or inner.startswith(a + ' ') for a in DROP_ATTRS) or name in ('derive', 'serde', 'allow', 'doc'):
                        if 'keepattrs' not in opts:
                            keep = ''
                            if name == 'derive':
                                # derived Default is kept (Verus accepts it and extracted code may call it); every other derive is dropped
                                traits = [x.strip() for x in inner[len('derive('):-1].split(',')]
                                wanted = {'Default'}
                                for o in opts:
                                    if o.startswith('keepderive:'):
                                        wanted |= set(x.strip() for x in o[len('keepderive:'):].split(','))
                                kept = [x for x in traits if x in wanted]
                                if kept:
                                    keep = '#[derive(%s)]\n' % ', '.join(kept)
                            edits.append(Edit(t.start, drop_end, keep)); cnt('R1')
                    else:
                        raise GenError('unknown attribute #[%s] in %s :: %s' % (inner, rel, selector))
                    k = endtok
                    continue
            k += 1

        # ---- token-level mechanical rewrites over the whole item
        k = item.start
        while k < item.end:
            t = toks[k]
            # R4: "lit".len()
            if t.kind == 'string' and t.text.startswith('"'):
                seq = self.next_sig(toks, k + 1, item.end, 5)
                if [toks[x].text for x in seq[:4]] == ['.', 'len', '(', ')']:
                    try:
                        val = eval_str_literal(t.text)
                    except Exception:
                        val = None
                    if val is not None:
                        edits.append(Edit(t.start, toks[seq[3]].end, '%d /* R4: %s.len() */' % (len(val.encode()), t.text)))
                        cnt('R4')
                        k = seq[3] + 1
                        continue
            # R10: crate:: / super:: paths -> last segment
            if t.kind == 'ident' and t.text in ('crate', 'super'):
                prev = self.prev_sig(toks, k, item.start)
                prev2 = self.prev_sig(toks, prev, item.start) if prev is not None else None
                mid_path = prev is not None and prev2 is not None and toks[prev].text == ':' and toks[prev2].text == ':'
                if not mid_path:   # start of a path
                    segs = [k]
                    j = k
                    while True:
                        seq = self.next_sig(toks, j + 1, item.end, 3)
                        if len(seq) >= 3 and toks[seq[0]].text == ':' and toks[seq[1]].text == ':' and toks[seq[2]].kind == 'ident':
                            segs.append(seq[2])
                            j = seq[2]
                            continue
                        break
                    last = None
                    for si in range(1, len(segs)):
                        if toks[segs[si]].text[0].isupper() or si == len(segs) - 1:
                            last = segs[si]
                            break
                    if last is not None:
                        edits.append(Edit(t.start, toks[last].start, '')); cnt('R10-path')
                        k = last
                        continue
            if t.kind == 'ident' and t.text in self.renames:
                edits.append(Edit(t.start, t.end, self.renames[t.text])); cnt('R10-rename')
            k += 1
        for sp in self.strip_paths:
            for mm in re.finditer(r'(?<![A-Za-z0-9_:])' + re.escape(sp), verbatim):
                edits.append(Edit(s_off + mm.start(), s_off + mm.end(), '')); cnt('R10-path')

        # ---- visibility (R10)
        if 'nopub' not in opts:
            if item.kind == 'struct' and item.body >= 0 and toks[item.body].text == '{':
                self.pub_fields(src, item, edits, cnt)
            vis = self.visibility(src, item)
            if vis is None:
                if item.kind in ('fn', 'struct', 'enum', 'const', 'static', 'type', 'trait') and not self.in_trait(selector):
                    edits.append(Edit(toks[self.first_sig(toks, item)].start, toks[self.first_sig(toks, item)].start, 'pub ')); cnt('R10-pub')
            elif vis[2] != 'pub':
                edits.append(Edit(vis[0], vis[1], 'pub')); cnt('R10-pub')

        # ---- fn specific: contract splice
        hdr_clauses = [c for c in clauses if c[0] in HEADER_KW]
        if cmd in ('fn', 'sig'):
            if item.kind != 'fn':
                raise GenError('%s :: %s is not a fn' % (rel, selector))
            self.splice_fn(src, item, clauses, hdr_clauses, retname, edits, rec, tplpath, opts, cnt, cmd)
        # replace / outline directives (manual rewrites, listed)
        for c in clauses:
            if c[0] in ('replace', 'outline'):
                mm = re.match(r'`(.*?)`(?:#(\d+))?\s*=>\s*`(.*?)`\s*(?:::\s*(.*))?$', c[1], re.S)
                alts = re.findall(r'`([^`]*)`(?:#(\d+))?\s*=>\s*`([^`]*)`', c[1]) if '||' in c[1] else []
                if len(alts) > 1 and re.fullmatch(r'\s*(?:`[^`]*`(?:#\d+)?\s*=>\s*`[^`]*`\s*(?:\|\|)?\s*)+', c[1]):
                    # alternatives `A` => `X` || `B` => `Y`: the code has ONE of the listed shapes (e.g. one of two named constants as an argument);
                    # the alternative that is present is rewritten, each to its own helper, so the verifier sees which shape the code has
                    live = [(o, n_, w) for (o, n_, w) in alts if len(list(flex_regex(o).finditer(verbatim))) >= 1]
                    if len(live) == 1:
                        mm = re.match(r'`(.*?)`(?:#(\d+))?\s*=>\s*`(.*?)`\s*(?:::\s*(.*))?$', '`%s`%s => `%s`' % (live[0][0], ('#' + live[0][1]) if live[0][1] else '', live[0][2]), re.S)
                    else:
                        self.hints_dropped.append('%s :: %s: %s alternatives `%s` | ...: %d of them present' % (rel, selector, c[0], alts[0][0], len(live)))
                        continue
                if not mm:
                    raise GenError('%s:%d bad %s directive' % (tplpath, c[2], c[0]))
                old, ordn, new, reason = mm.group(1), mm.group(2), mm.group(3), mm.group(4) or ''
                hits = list(flex_regex(old).finditer(verbatim))
                if ordn is not None:
                    hits = hits[int(ordn):int(ordn) + 1]
                if len(hits) != 1:
                    # the expression to rewrite is gone (or ambiguous): the directive is dropped and recorded; the verifier sees the
                    # code as it is now (it either still verifies, fails an obligation, or is rejected as unsupported -> exit 2)
                    self.hints_dropped.append('%s :: %s: %s anchor `%s` matches %d times' % (rel, selector, c[0], old, len(hits)))
                    continue
                h = hits[0]
                edits.append(Edit(s_off + h.start(), s_off + h.end(), new, ('spec', tplpath, c[2]), prio=5))
                entry = {'fn': '%s :: %s' % (rel, selector), 'old': old, 'new': new, 'reason': reason.strip(), 'kind': c[0]}
                if c[0] == 'outline':
                    if not flex_regex(old).search(self.tpl_text_all):
                        raise GenError('%s:%d outlined expression text not found verbatim in any helper of the unit' % (tplpath, c[2]))
                    self.outlined.append(entry); cnt('R8-outline')
                else:
                    self.manual.append(entry); cnt('manual-replace')
                rec.manual.append(entry)

        # closure contracts: the closure HEADER `|x|` is replaced by an annotated header `|x: T| -> (r: U) ensures ..`, the closure body
        # (real code, untouched) is wrapped in braces as the annotated form requires
        for c in clauses:
            if c[0] == 'closure':
                mm = re.match(r'`(.*?)`(?:#(\d+))?\s*=>\s*`(.*?)`\s*$', c[1], re.S)
                if not mm:
                    raise GenError('%s:%d bad closure directive' % (tplpath, c[2]))
                old, ordn, new = mm.group(1), mm.group(2), mm.group(3)
                hits = list(flex_regex(old).finditer(verbatim))
                if ordn is not None:
                    hits = hits[int(ordn):int(ordn) + 1]
                if len(hits) != 1:
                    self.hints_dropped.append('%s :: %s: closure anchor `%s` matches %d times' % (rel, selector, old, len(hits)))
                    continue
                h = hits[0]
                hend = s_off + h.end()
                if any(e.start <= s_off + h.start() < e.end for e in edits if e.end > e.start and e.origin and e.origin[0] == 'spec'):
                    # the closure sits inside a region that an outline / replace directive already rewrote: nothing to annotate
                    self.hints_dropped.append('%s :: %s: closure `%s` lies inside an outlined region (directive not needed on this tree)' % (rel, selector, old))
                    continue
                k = item.start
                while k < item.end and toks[k].start < hend:
                    k += 1
                endk = None
                while k < item.end:
                    t = toks[k]
                    if t.text in ('(', '[', '{') and k in src.br:
                        k = src.br[k] + 1
                        continue
                    if t.text in (',', ')', ']', '}', ';'):
                        endk = k
                        break
                    k += 1
                if endk is None:
                    self.hints_dropped.append('%s :: %s: closure `%s`: end of body not found' % (rel, selector, old))
                    continue
                edits.append(Edit(s_off + h.start(), hend, new + ' {', ('spec', tplpath, c[2]), prio=5))
                edits.append(Edit(toks[endk].start, toks[endk].start, ' }', ('spec', tplpath, c[2]), prio=-5))
                rec.n_hints += 1
                cnt('closure-contract')

        # R13 (statelift): `RECV.retain(|a, b| BODY)` whose closure assigns ONE captured local VAR (outside the Verus subset) becomes
        # `HELPER(&mut RECV, &mut VAR, |a, b, vf_st| BODY[VAR := (*vf_st)], GHOST)`: the captured local is passed as an explicit `&mut`
        # parameter (lambda lifting; HELPER's body is `RECV.retain(|k, v| f(k, v, st))`, so the two forms are beta-equivalent).
        for c in clauses:
            if c[0] == 'statelift':
                mm = re.match(r'`(.*?)`(?:#(\d+))?\s+var\s+`(.*?)`\s+helper\s+`(.*?)`\s+header\s+`(.*?)`\s+ghost\s+`(.*?)`\s*$', c[1], re.S)
                if not mm:
                    raise GenError('%s:%d bad statelift directive' % (tplpath, c[2]))
                old, ordn, var, helper, header, ghost = mm.groups()
                hits = list(flex_regex(old).finditer(verbatim))
                if ordn is not None:
                    hits = hits[int(ordn):int(ordn) + 1]
                if len(hits) != 1:
                    self.hints_dropped.append('%s :: %s: statelift anchor `%s` matches %d times' % (rel, selector, old, len(hits)))
                    continue
                h = hits[0]
                mtext = verbatim[h.start():h.end()]
                pr = mtext.find('.retain(')
                bar = mtext.find('|', pr)
                if pr < 0 or bar < 0:
                    raise GenError('%s:%d statelift anchor must be `RECV.retain(|params|`' % (tplpath, c[2]))
                recv = mtext[:pr].strip()
                a0 = s_off + h.start()
                hend = s_off + h.end()
                k = item.start
                while k < item.end and toks[k].start < hend:
                    k += 1
                body_first = k
                endk = None
                while k < item.end:
                    t = toks[k]
                    if t.text in ('(', '[', '{') and k in src.br:
                        k = src.br[k] + 1
                        continue
                    if t.text in (',', ')', ']', '}', ';'):
                        endk = k
                        break
                    k += 1
                if endk is None or toks[endk].text != ')':
                    self.hints_dropped.append('%s :: %s: statelift `%s`: end of the retain call not found' % (rel, selector, old))
                    continue
                edits.append(Edit(a0, a0 + pr + len('.retain('), '%s(&mut %s, &mut %s, ' % (helper, recv, var), ('spec', tplpath, c[2]), prio=5))
                edits.append(Edit(a0 + bar, hend, header + ' {', ('spec', tplpath, c[2]), prio=5))
                for j in range(body_first, endk):
                    if toks[j].kind == 'ident' and toks[j].text == var and not (j > 0 and toks[j - 1].text == '.'):
                        edits.append(Edit(toks[j].start, toks[j].end, '(*vf_st)', None))
                edits.append(Edit(toks[endk].start, toks[endk].start, ' }, ' + ghost, ('spec', tplpath, c[2]), prio=-5))
                rec.n_hints += 1
                cnt('R13-statelift')

        # R14 (forlift): `for PAT in RECV.METHOD() { BODY }` (METHOD = values_mut / iter_mut of a container vstd gives no iterator model for)
        # whose body assigns ONE captured local VAR becomes `HELPER(&mut RECV, &mut VAR, |PAT: .., vf_st: ..| { BODY[VAR := (*vf_st)] }, GHOST);`.
        # HELPER's body is `for v in m.METHOD() { f(v, st) }`, so the two forms are beta-equivalent; BODY stays the real code, verified in place.
        for c in clauses:
            if c[0] == 'forlift':
                mm = re.match(r'`(.*?)`(?:#(\d+))?\s+var\s+`(.*?)`\s+helper\s+`(.*?)`\s+header\s+`(.*?)`\s+ghost\s+`(.*?)`\s*$', c[1], re.S)
                if not mm:
                    raise GenError('%s:%d bad forlift directive' % (tplpath, c[2]))
                old, ordn, var, helper, header, ghost = mm.groups()
                hits = list(flex_regex(old).finditer(verbatim))
                if ordn is not None:
                    hits = hits[int(ordn):int(ordn) + 1]
                if len(hits) != 1:
                    self.hints_dropped.append('%s :: %s: forlift anchor `%s` matches %d times' % (rel, selector, old, len(hits)))
                    continue
                h = hits[0]
                mtext = verbatim[h.start():h.end()]
                m2 = re.match(r'for\s+\w+\s+in\s+(.*?)\.(values_mut|iter_mut)\(\)\s*\{$', mtext, re.S)
                if not m2:
                    raise GenError('%s:%d forlift anchor must be `for PAT in RECV.values_mut() {` or `... .iter_mut() {`' % (tplpath, c[2]))
                recv = m2.group(1).strip()
                a0 = s_off + h.start()
                hend = s_off + h.end()
                k = item.start
                while k < item.end and toks[k].end < hend:
                    k += 1
                if toks[k].text != '{' or k not in src.br:
                    self.hints_dropped.append('%s :: %s: forlift `%s`: loop body not found' % (rel, selector, old))
                    continue
                endk = src.br[k]
                edits.append(Edit(a0, toks[k].start, '%s(&mut %s, &mut %s, %s ' % (helper, recv, var, header), ('spec', tplpath, c[2]), prio=5))
                for j in range(k + 1, endk):
                    if toks[j].kind == 'ident' and toks[j].text == var and not (j > 0 and toks[j - 1].text == '.'):
                        edits.append(Edit(toks[j].start, toks[j].end, '(*vf_st)', None))
                edits.append(Edit(toks[endk].end, toks[endk].end, ', ' + ghost + ');', ('spec', tplpath, c[2]), prio=-5))
                rec.n_hints += 1
                cnt('R14-forlift')

        for k in range(item.start, item.end):
            t = toks[k]
            if t.kind == 'string' and t.text.startswith('"'):
                try:
                    v = eval_str_literal(t.text)
                except Exception:
                    v = None
                if v is not None and v != '' and all(32 <= ord(ch) < 127 for ch in v) and len(v) <= 24:
                    self.literals[t.text] = v
        rec.rewrites = local_counts
        # ---- build output
        pieces = self.apply_edits(src, s_off, e_off, edits, rel)
        # attrs + header
        pre = ''
        for c in clauses:
            if c[0] == 'attr':
                self.emit(indent + c[1].strip() + '\n', ('spec', tplpath, c[2]))
        if 'external_body' in opts:
            self.emit(indent + '#[verifier::external_body]\n', ('spec', tplpath, tplline))
            rec.external_body = True
        self.emit(indent + '// ---- extracted from %s :: %s (line %d, sha256 %s)\n' % (rel, selector, rec.src_line, rec.sha256[:12]), ('tpl', tplpath, tplline))
        start_len = len(self.out)
        self.emit(indent)
        for p in pieces:
            self.out.append(p)
        self.emit('\n')
        rec._out_range = (start_len, len(self.out))
        self.records.append(rec)
        # coverage bookkeeping
        if ' / fn ' in selector:
            impl_sel = selector.rsplit(' / fn ', 1)[0]
            d = self.listed_fns.setdefault((rel, impl_sel), {})
            d[item.name] = True

    def in_trait(self, selector):
        parts = selector.split(' / ')
        if len(parts) < 2:
            return False
        p = parts[-2]
        return p.startswith('trait ') or (p.startswith('impl ') and ' for ' in p)

    def eval_cfg(self, inner):
        m = re.match(r'cfg\(feature="([^"]+)"\)$', inner)
        if m:
            return m.group(1) in FEATURES_ON
        m = re.match(r'cfg\(not\(feature="([^"]+)"\)\)$', inner)
        if m:
            return m.group(1) not in FEATURES_ON
        if inner == 'cfg(test)':
            return False
        m = re.match(r'cfg\(target_arch="wasm32"\)$', inner)
        if m:
            return False
        m = re.match(r'cfg\(not\(target_arch="wasm32"\)\)$', inner)
        if m:
            return True
        return None

    def tok_at(self, src, off):
        for i, t in enumerate(src.toks):
            if t.start >= off:
                return i
        return len(src.toks)

    def annotated_end(self, src, k, hi):
        """offset just past the field / statement / item annotated by an attribute ending before token k"""
        toks, br = src.toks, src.br
        j = k
        while j < hi:
            t = toks[j]
            if t.kind == 'punct':
                if t.text in '([{':
                    close = br[j]
                    if t.text == '{':
                        # block-like: ends here unless followed by ';' or ','
                        nx = close + 1
                        while nx < hi and toks[nx].kind in ('ws', 'comment'):
                            nx += 1
                        if nx < hi and toks[nx].text in (';', ','):
                            return self.after_ws_nl(src, toks[nx].end)
                        return self.after_ws_nl(src, toks[close].end)
                    j = close + 1
                    continue
                if t.text in (';', ','):
                    return self.after_ws_nl(src, t.end)
                if t.text in ')]}':
                    return t.start
            j += 1
        return toks[hi - 1].end

    def after_ws_nl(self, src, off):
        m = re.match(r'[ \t]*\n?', src.text[off:])
        return off + m.end()

    def next_sig(self, toks, k, hi, n):
        out = []
        while k < hi and len(out) < n:
            if toks[k].kind not in ('ws', 'comment'):
                out.append(k)
            k += 1
        return out

    def prev_sig(self, toks, k, lo):
        k -= 1
        while k >= lo:
            if toks[k].kind not in ('ws', 'comment'):
                return k
            k -= 1
        return None

    def first_sig(self, toks, item):
        """first token of the item after attributes and doc comments"""
        k = item.start
        while k < item.kw:
            t = toks[k]
            if t.kind in ('ws', 'comment'):
                k += 1; continue
            if t.kind == 'punct' and t.text == '#':
                j = k + 1
                while toks[j].text != '[':
                    j += 1
                # find matching close
                depth = 0
                while True:
                    if toks[j].text == '[':
                        depth += 1
                    elif toks[j].text == ']':
                        depth -= 1
                        if depth == 0:
                            break
                    j += 1
                k = j + 1
                continue
            return k
        return item.kw

    def visibility(self, src, item):
        toks = src.toks
        k = self.first_sig(toks, item)
        if toks[k].kind == 'ident' and toks[k].text == 'pub':
            nx = self.next_sig(toks, k + 1, item.kw + 1, 1)
            if nx and toks[nx[0]].text == '(':
                close = src.br[nx[0]]
                return (toks[k].start, toks[close].end, src.text[toks[k].start:toks[close].end])
            return (toks[k].start, toks[k].end, 'pub')
        return None

    def pub_fields(self, src, item, edits, cnt):
        toks, br = src.toks, src.br
        lo, hi = item.body + 1, br[item.body]
        k = lo
        at_field_start = True
        while k < hi:
            t = toks[k]
            if t.kind in ('ws', 'comment'):
                k += 1; continue
            if t.kind == 'punct' and t.text == '#':
                j = k + 1
                while toks[j].text != '[':
                    j += 1
                k = br[j] + 1
                continue
            if at_field_start:
                if t.kind == 'ident' and t.text == 'pub':
                    nx = self.next_sig(toks, k + 1, hi, 1)
                    if nx and toks[nx[0]].text == '(':
                        close = br[nx[0]]
                        edits.append(Edit(t.start, toks[close].end, 'pub')); cnt('R10-pub')
                        k = close + 1
                    else:
                        k += 1
                    at_field_start = False
                    continue
                elif t.kind == 'ident':
                    edits.append(Edit(t.start, t.start, 'pub ')); cnt('R10-pub')
                    at_field_start = False
                    continue
            if t.kind == 'punct' and t.text in '([{<':
                if t.text == '<':
                    # generic args: skip to matching '>' (no brackets matching available): count depth
                    depth = 0
                    while k < hi:
                        if toks[k].text == '<':
                            depth += 1
                        elif toks[k].text == '>':
                            depth -= 1
                            if depth == 0:
                                break
                        elif toks[k].text in '([{':
                            k = br[k]
                        k += 1
                    k += 1
                    continue
                k = br[k] + 1
                continue
            if t.kind == 'punct' and t.text == ',':
                at_field_start = True
            k += 1

    # ---------------------------------------------------------------- fn splice
    def splice_fn(self, src, item, clauses, hdr_clauses, retname, edits, rec, tplpath, opts, cnt, cmd):
        toks, br = src.toks, src.br
        # locate params, return type, body
        k = item.kw + 1
        while toks[k].text != '(':
            if toks[k].text == '<':
                # generics: skip to matching >
                depth = 0
                while True:
                    if toks[k].text == '<':
                        depth += 1
                    elif toks[k].text == '>' and toks[k - 1].text != '-':
                        depth -= 1
                        if depth == 0:
                            break
                    k += 1
            k += 1
        params_open = k
        params_close = br[k]
        body = item.body
        end_hdr = body if body >= 0 else item.end - 1   # '{' or ';'
        # return type
        seq = self.next_sig(toks, params_close + 1, end_hdr, 2)
        ret_start = ret_end = None
        if len(seq) >= 2 and toks[seq[0]].text == '-' and toks[seq[1]].text == '>':
            ret_start = self.next_sig(toks, seq[1] + 1, end_hdr, 1)[0]
            # ret type ends before 'where' or end_hdr
            j = ret_start
            ret_end = end_hdr
            while j < end_hdr:
                if toks[j].kind == 'ident' and toks[j].text == 'where':
                    ret_end = j
                    break
                if toks[j].text in '([':
                    j = br[j]
                j += 1
            # trim trailing ws
            while toks[ret_end - 1].kind in ('ws', 'comment'):
                ret_end -= 1
        if retname:
            if ret_start is None:
                raise GenError('%s: result name given but fn has no return type' % rec.selector)
            edits.append(Edit(toks[ret_start].start, toks[ret_start].start, '(%s: ' % retname, None, prio=-1))
            edits.append(Edit(toks[ret_end - 1].end, toks[ret_end - 1].end, ')', None, prio=-1))
        # R2: mut self
        ps = self.next_sig(toks, params_open + 1, params_close, 2)
        if len(ps) >= 2 and toks[ps[0]].text == 'mut' and toks[ps[1]].text == 'self':
            if body < 0:
                raise GenError('mut self on a declaration')
            edits.append(Edit(toks[ps[0]].start, toks[ps[1]].start, '')); cnt('R2')
            edits.append(Edit(toks[body].end, toks[body].end, ' let mut this = self;', None, prio=-2))
            for j in range(body + 1, br[body]):
                if toks[j].kind == 'ident' and toks[j].text == 'self':
                    edits.append(Edit(toks[j].start, toks[j].end, 'this'))
        # header clauses
        hdr_off = toks[end_hdr].start
        # strip whitespace before '{' so clauses sit on their own lines
        for c in hdr_clauses:
            text = '\n        ' + c[0] + ' ' + c[1].replace('\n', '\n        ')
            if not text.rstrip().endswith(','):
                text += ','
            edits.append(Edit(hdr_off, hdr_off, text, ('spec', tplpath, c[2], c[3]), prio=1))
            n = count_top_level_clauses(c[1])
            if c[0] == 'requires':
                rec.n_requires += n
            elif c[0] == 'ensures':
                rec.n_ensures += n
            elif c[0] == 'decreases':
                rec.n_decreases += 1
        if hdr_clauses:
            edits.append(Edit(hdr_off, hdr_off, '\n    ', None, prio=2))
        rec.contracted = bool(hdr_clauses) or any(c[0] in ('loop',) for c in clauses)
        if body < 0:
            return
        if 'stub' in opts:
            # assumed function whose body cannot even be type-checked in the unit (foreign types): body dropped, contract assumed
            if 'external_body' not in opts:
                raise GenError('opt stub requires opt external_body (%s)' % rec.selector)
            edits.append(Edit(toks[body].start, toks[br[body]].end, '{ unimplemented!() /* body not included: assumed contract */ }', None, prio=0))
            return
        # loops
        loops = []
        j = body + 1
        hi = br[body]
        while j < hi:
            t = toks[j]
            if t.kind == 'ident' and t.text in ('loop', 'while', 'for'):
                nx = self.next_sig(toks, j + 1, hi, 1)
                if t.text == 'for' and nx and toks[nx[0]].text == '<':
                    j += 1; continue
                # find body brace
                b = j + 1
                while b < hi:
                    if toks[b].kind == 'punct':
                        if toks[b].text == '{':
                            break
                        if toks[b].text in '([':
                            b = br[b]
                    b += 1
                in_tok = None
                if t.text == 'for':
                    q = j + 1
                    while q < b:
                        if toks[q].kind == 'ident' and toks[q].text == 'in':
                            in_tok = q
                            break
                        if toks[q].text in '([':
                            q = br[q]
                        q += 1
                loops.append({'kind': t.text, 'kw': j, 'body': b, 'in': in_tok})
            j += 1
        rec.loops = [l['kind'] for l in loops]
        # where the position-bound proof aids of this function sit (for the displaced-aid rule of check.py; recorded in baseline_shapes.json)
        path_at, n_conts, n_breaks, n_returns = control_context(toks, br, body, loops)
        starts = [t.start for t in toks]

        def path_of(off):
            import bisect
            k = bisect.bisect_left(starts, off) - 1
            while k > body and k not in path_at:
                k -= 1
            return path_at.get(k, '')
        self._path_of = path_of
        self._exits = (n_conts, n_breaks, n_returns)
        # `opt optloop:N`: loop N exists only in some shapes of the function (e.g. after a repair). When the function has no loop N its
        # loop clauses, loop hints and r5/r6 options are dropped and recorded (proof aids only: nothing is assumed by dropping them).
        for o in list(opts):
            mm = re.match(r'optloop:(\d+)$', o)
            if not mm:
                continue
            n = int(mm.group(1))
            if n < len(loops):
                continue
            opts = [x for x in opts if x not in ('r5:%d' % n, 'r6:%d' % n, 'r6i:%d' % n)]
            kept = []
            for c in clauses:
                if c[0] in ('loop', 'forlabel', 'loopbefore', 'loophead', 'looptail', 'loopend') and re.match(r'%d\s*:' % n, c[1]):
                    continue
                kept.append(c)
            clauses = kept
            self.hints_dropped.append('%s: optional loop %d is absent on this tree: its loop clauses and hints are dropped' % (rec.selector, n))
        # R6: `for P in &mut E` / `for P in &E`  ->  `E.iter_mut()` / `E.iter()` (this is how std defines IntoIterator for &mut Vec / &Vec)
        for o in opts:
            mm = re.match(r'r6:(\d+)$', o)
            if not mm:
                continue
            n = int(mm.group(1))
            if ('r5:%d' % n) in opts:
                continue    # handled inside R5 (the iterator expression is rewritten there)
            if n >= len(loops) or loops[n]['kind'] != 'for' or loops[n]['in'] is None:
                raise GenError('contract needs re-anchoring: R6 loop %d of %s is not a for loop' % (n, rec.selector))
            L = loops[n]
            seq = self.next_sig(toks, L['in'] + 1, L['body'], 2)
            if not seq or toks[seq[0]].text != '&':
                raise GenError('contract needs re-anchoring: R6 loop %d of %s does not iterate over a reference' % (n, rec.selector))
            is_mut = len(seq) > 1 and toks[seq[1]].text == 'mut'
            e_start = toks[seq[1]].end if is_mut else toks[seq[0]].end
            # expression end = last non-ws token before body
            e_end_tok = self.prev_sig(toks, L['body'], L['in'])
            edits.append(Edit(toks[seq[0]].start, e_start, ''))
            edits.append(Edit(toks[e_end_tok].end, toks[e_end_tok].end, '.iter_mut()' if is_mut else '.iter()', None, prio=-4))
            cnt('R6')
        # R6i (stand-alone): the iterated expression is a shared reference variable `r: &Collection`: `for x in r` == `for x in r.iter()`
        for o in opts:
            mm = re.match(r'r6i:(\d+)$', o)
            if not mm:
                continue
            n = int(mm.group(1))
            if ('r5:%d' % n) in opts:
                continue
            if n >= len(loops) or loops[n]['kind'] != 'for' or loops[n]['in'] is None:
                raise GenError('contract needs re-anchoring: R6i loop %d of %s is not a for loop' % (n, rec.selector))
            L = loops[n]
            e_end_tok = self.prev_sig(toks, L['body'], L['in'])
            seq = self.next_sig(toks, L['in'] + 1, L['body'], 1)
            if not seq or seq[0] != e_end_tok or toks[e_end_tok].kind != 'ident':
                raise GenError('contract needs re-anchoring: R6i loop %d of %s does not iterate over a plain variable' % (n, rec.selector))
            edits.append(Edit(toks[e_end_tok].end, toks[e_end_tok].end, '.iter()', None, prio=-4))
            cnt('R6')
        # R5: desugar `for P in E { B }` (body contains `continue`) into the reference `loop { match it.next() .. }` form
        for o in opts:
            mm = re.match(r'r5:(\d+)$', o)
            if not mm:
                continue
            n = int(mm.group(1))
            if n >= len(loops) or loops[n]['kind'] != 'for' or loops[n]['in'] is None:
                raise GenError('contract needs re-anchoring: R5 loop %d of %s is not a for loop' % (n, rec.selector))
            L = loops[n]
            pat = src.text[toks[L['kw']].end:toks[L['in']].start].strip()
            expr = src.text[toks[L['in']].end:toks[L['body']].start].strip()
            if ('r6i:%d' % n) in opts:
                # the iterated expression is already a shared reference to a collection: `for x in r` == `for x in r.iter()`
                expr = '(' + expr + ').iter()'
                cnt('R6')
            if ('r6:%d' % n) in opts:
                if expr.startswith('&mut '):
                    expr = expr[5:].strip() + '.iter_mut()'
                elif expr.startswith('&'):
                    expr = expr[1:].strip() + '.iter()'
                else:
                    raise GenError('contract needs re-anchoring: R6 loop %d of %s does not iterate over a reference' % (n, rec.selector))
                cnt('R6')
            # prefix goes before the label if any
            kwi = L['kw']
            pv = self.prev_sig(toks, kwi, body)
            if pv is not None and toks[pv].text == ':':
                pv2 = self.prev_sig(toks, pv, body)
                if pv2 is not None and toks[pv2].kind == 'lifetime':
                    kwi = pv2
            v = 'vf_it%d' % n
            edits.append(Edit(toks[kwi].start, toks[kwi].start,
                              '{ let mut %s = IntoIterator::into_iter(%s); let ghost %s_rem0 = %s.remaining(); let ghost mut %s_idx: int = 0; /* R5 */ ' % (v, expr, v, v, v), None, prio=-3))
            edits.append(Edit(toks[L['kw']].start, toks[L['body']].start, 'loop '))
            edits.append(Edit(toks[L['body']].end, toks[L['body']].end,
                              ' let %s = match %s.next() { Some(vf_v) => vf_v, None => break }; proof { %s_idx = %s_idx + 1; } /* R5 */' % (pat, v, v, v), None, prio=-3))
            edits.append(Edit(toks[br[L['body']]].end, toks[br[L['body']]].end, ' } /* R5 */', None, prio=9))
            L['kind'] = 'loop'
            cnt('R5')
        for c in clauses:
            if c[0] in ('loop', 'forlabel'):
                mm = re.match(r'(\d+)\s*:\s*(.*)$', c[1], re.S)
                if not mm:
                    raise GenError('%s:%d bad loop clause' % (tplpath, c[2]))
                n = int(mm.group(1))
                if n >= len(loops):
                    raise GenError('contract needs re-anchoring: %s has %d loops, contract refers to loop %d' % (rec.selector, len(loops), n))
                L = loops[n]
                if c[0] == 'forlabel':
                    if L['kind'] != 'for' or L['in'] is None:
                        raise GenError('contract needs re-anchoring: loop %d of %s is not a for loop' % (n, rec.selector))
                    edits.append(Edit(toks[L['in']].end, toks[L['in']].end, ' ' + mm.group(2).strip() + ':', ('spec', tplpath, c[2], c[3])))
                else:
                    m2 = re.match(r'(loop|while|for)\b\s*(.*)$', mm.group(2), re.S)
                    body_text = mm.group(2)
                    if m2:
                        if m2.group(1) != L['kind']:
                            raise GenError('contract needs re-anchoring: loop %d of %s is `%s`, contract expects `%s`' % (n, rec.selector, L['kind'], m2.group(1)))
                        body_text = m2.group(2)
                    off = toks[L['body']].start
                    edits.append(Edit(off, off, '\n            ' + body_text.replace('\n', '\n            ') + '\n        ', ('spec', tplpath, c[2], c[3]), prio=1))
                    rec.n_invariants += count_top_level_clauses(re.sub(r'\b(invariant|invariant_except_break|ensures|decreases)\b', ',', body_text))
                    if re.search(r'\bdecreases\b', body_text):
                        rec.n_decreases += 1
        # structural hints (ghost text at loop boundaries / function entry)
        for c in clauses:
            if c[0] == 'entry':
                edits.append(Edit(toks[body].end, toks[body].end, ' ' + c[1] + ' ', ('spec', tplpath, c[2], c[3]), prio=4))
                rec.n_hints += 1
            if c[0] == 'exit':
                # ghost text at the end of the body, in the FINAL state: after the last statement; if the body ends in a tail expression
                # that is more than a variable, the expression is bound first (`let vf_ret = <tail>; <ghost>; vf_ret`) — a value-preserving
                # rewrite of the function's last line (R12)
                k = body + 1
                stmt_start = None
                last_end = toks[body].end
                sig = [i for i in range(body + 1, br[body]) if toks[i].kind not in ('ws', 'comment')]
                pos = 0
                tail_start = None
                cur_start = None
                while pos < len(sig):
                    i = sig[pos]
                    t = toks[i]
                    if cur_start is None:
                        cur_start = i
                    if t.text in ('(', '[', '{') and i in br:
                        close = br[i]
                        # skip to the token after the group
                        while pos < len(sig) and sig[pos] <= close:
                            pos += 1
                        if t.text == '{':
                            nxt = toks[sig[pos]].text if pos < len(sig) else None
                            if nxt is None:
                                # the body ends with a block: a loop (possibly labelled) is a statement, anything else may be the tail value
                                first = toks[cur_start].text if cur_start is not None else ''
                                if toks[cur_start].kind == 'lifetime' or first in ('for', 'while', 'loop'):
                                    last_end = toks[close].end
                                    cur_start = None
                                break
                            if nxt in ('else', '.', '?', 'as', '+', '-', '*', '/', '&&', '||', '==', '!=', '<', '>', '<=', '>=', ';', ','):
                                continue
                            # a block-like statement ended
                            last_end = toks[close].end
                            cur_start = None
                        continue
                    if t.text == ';':
                        last_end = t.end
                        cur_start = None
                    pos += 1
                tail_start = cur_start
                if tail_start is None:
                    edits.append(Edit(last_end, last_end, ' ' + c[1] + ' ', ('spec', tplpath, c[2], c[3]), prio=4))
                else:
                    tail_toks = [i for i in sig if i >= tail_start]
                    if len(tail_toks) == 1 and toks[tail_toks[0]].kind == 'ident':
                        off = toks[tail_start].start
                        edits.append(Edit(off, off, ' ' + c[1] + ' ', ('spec', tplpath, c[2], c[3]), prio=4))
                    else:
                        off = toks[tail_start].start
                        edits.append(Edit(off, off, 'let vf_ret = ', None, prio=-6))
                        endoff = toks[tail_toks[-1]].end
                        edits.append(Edit(endoff, endoff, '; ' + c[1] + ' vf_ret', ('spec', tplpath, c[2], c[3]), prio=6))
                        cnt('R12-bind-tail')
                rec.n_hints += 1
                rec.aid_ctx['exit: early exits'] = self._exits[2]
            if c[0] in ('loopbefore', 'loophead', 'looptail', 'loopend'):
                mm = re.match(r'(\d+)\s*:\s*(.*)$', c[1], re.S)
                if not mm:
                    raise GenError('%s:%d bad %s clause' % (tplpath, c[2], c[0]))
                n = int(mm.group(1))
                if n >= len(loops):
                    raise GenError('contract needs re-anchoring: %s has %d loops, hint refers to loop %d' % (rec.selector, len(loops), n))
                L = loops[n]
                if c[0] == 'loopbefore':
                    # before the loop keyword, or before its label if it has one
                    kwi = L['kw']
                    pv = self.prev_sig(toks, kwi, body)
                    if pv is not None and toks[pv].text == ':':
                        pv2 = self.prev_sig(toks, pv, body)
                        if pv2 is not None and toks[pv2].kind == 'lifetime':
                            kwi = pv2
                    off = toks[kwi].start
                    edits.append(Edit(off, off, mm.group(2) + ' ', ('spec', tplpath, c[2], c[3]), prio=0))
                elif c[0] == 'looptail':
                    off = toks[br[L['body']]].start
                    edits.append(Edit(off, off, ' ' + mm.group(2) + ' ', ('spec', tplpath, c[2], c[3]), prio=4))
                    rec.aid_ctx['looptail %d: continue' % n] = self._exits[0].get(n, 0)
                elif c[0] == 'loophead':
                    off = toks[L['body']].end
                    edits.append(Edit(off, off, ' ' + mm.group(2) + ' ', ('spec', tplpath, c[2], c[3]), prio=4))
                else:
                    off = toks[br[L['body']]].end
                    edits.append(Edit(off, off, ' ' + mm.group(2) + ' ', ('spec', tplpath, c[2], c[3]), prio=4))
                rec.n_hints += 1
        # hints
        body_lo, body_hi = toks[body].end, toks[br[body]].start
        body_text = src.text[body_lo:body_hi]
        for c in clauses:
            if c[0] in ('after', 'before'):
                mm = re.match(r'`(.*?)`(?:#(\d+|\*|\$))?\s*:\s*(.*)$', c[1], re.S)
                if not mm:
                    raise GenError('%s:%d bad hint' % (tplpath, c[2]))
                hits = list(flex_regex(mm.group(1)).finditer(body_text))
                if mm.group(2) == '*':
                    # `#*`: the same hint at EVERY occurrence of the anchor (one or more); robust against an occurrence disappearing
                    if hits:
                        for h1 in hits:
                            off = body_lo + (h1.end() if c[0] == 'after' else h1.start())
                            txt = mm.group(3)
                            edits.append(Edit(off, off, (' ' + txt + ' ') if c[0] == 'after' else (txt + ' '), ('spec', tplpath, c[2], c[3]), prio=3))
                        rec.n_hints += 1
                        rec.aid_ctx['%s `%s`#*' % (c[0], mm.group(1))] = ' | '.join(sorted(set(self._path_of(body_lo + h1.start() + 1) for h1 in hits)))
                        continue
                elif mm.group(2) == '$':
                    # `#$`: the LAST occurrence (an earlier occurrence may come and go with the code shape)
                    hits = hits[-1:]
                elif mm.group(2) is not None:
                    hits = hits[int(mm.group(2)):int(mm.group(2)) + 1]
                hkey = '%s `%s`%s' % (c[0], mm.group(1), ('#' + mm.group(2)) if mm.group(2) else '')
                if_toks = [i for i in range(body + 1, br[body]) if toks[i].kind == 'ident' and toks[i].text == 'if']
                reloc = None
                if len(hits) == 0 and c[0] == 'before' and re.match(r'if\b', mm.group(1).strip()) and mm.group(1).strip().endswith('{'):
                    # the anchor is an `if` header and its exact text is gone: if the body still has as many `if`s as the text the hint was written
                    # for (baseline_shapes.json), the hint goes before the `if` with the same ordinal -- the condition was edited, the statement
                    # is still there. (A mutated condition must be judged, not lose the proof step that sits in front of it.)
                    bo = self.baseline.get(rec.selector, {}).get('if_ord', {}).get(hkey)
                    if bo and bo[1] == len(if_toks) and 0 <= bo[0] < len(if_toks):
                        reloc = toks[if_toks[bo[0]]].start
                if len(hits) != 1 and reloc is None:
                    # a proof hint whose anchor statement is gone (or became ambiguous) is DROPPED, not fatal: the obligations stay,
                    # the verifier decides without the hint (recorded for the evidence)
                    self.hints_dropped.append('%s: hint anchor `%s`%s matches %d times' % (rec.selector, mm.group(1), ('#' + mm.group(2)) if mm.group(2) else '', len(hits)))
                    continue
                if reloc is not None:
                    self.hints_relocated.append('%s: %s placed before the `if` with the same ordinal (condition text changed)' % (rec.selector, hkey))
                    txt = mm.group(3)
                    edits.append(Edit(reloc, reloc, txt + ' ', ('spec', tplpath, c[2], c[3]), prio=3))
                    rec.n_hints += 1
                    rec.aid_ctx[hkey] = self._path_of(reloc + 1)
                    continue
                if c[0] == 'before' and re.match(r'if\b', mm.group(1).strip()) and mm.group(1).strip().endswith('{'):
                    at = body_lo + hits[0].start()
                    rec.if_ord[hkey] = [sum(1 for i in if_toks if toks[i].start < at), len(if_toks)]
                off = body_lo + (hits[0].end() if c[0] == 'after' else hits[0].start())
                txt = mm.group(3)
                edits.append(Edit(off, off, (' ' + txt + ' ') if c[0] == 'after' else (txt + ' '), ('spec', tplpath, c[2], c[3]), prio=3))
                rec.n_hints += 1
                rec.aid_ctx['%s `%s`%s' % (c[0], mm.group(1), ('#' + mm.group(2)) if mm.group(2) else '')] = self._path_of(body_lo + hits[0].start() + 1)
        # entry hint: `note` unused; body head ghost text via "after `{`"? -> use special anchor ENTRY
        if self.mode == 'vacuity' and 'external_body' not in opts:
            edits.append(Edit(toks[body].end, toks[body].end, ' assert(false); /*VACUITY*/', ('vacuity', rec.selector), prio=-1))

    def apply_edits(self, src, s_off, e_off, edits, rel):
        # sort; inserts at same offset ordered by prio
        # at one offset: insertions first (by prio), then replacements, the longest first (an outline swallows the R2 rename of its first token)
        edits = sorted(edits, key=lambda e: (e.start, 0 if e.start == e.end else 1, e.prio if e.start == e.end else 0, -(e.end - e.start), e.prio))
        pieces = []
        pos = s_off
        for e in edits:
            if e.start < pos:
                if e.start == e.end == pos:
                    pass
                elif e.end <= pos:
                    # fully inside an already replaced range: ignore mechanical, complain for spec
                    if e.origin:
                        raise GenError('overlapping contract edits in %s at offset %d' % (rel, e.start))
                    continue
                else:
                    raise GenError('overlapping edits in %s at offset %d' % (rel, e.start))
            if e.start > pos:
                pieces.append((src.text[pos:e.start], ('src', rel, pos)))
            if e.text:
                pieces.append((e.text, e.origin if e.origin else ('rewrite', rel, e.start)))
            pos = max(pos, e.end)
        if pos < e_off:
            pieces.append((src.text[pos:e_off], ('src', rel, pos)))
        return pieces

    # ---------------------------------------------------------------- finish
    def finish(self):
        text_parts = []
        line_map = {}     # gen line -> origin dict
        line = 1
        col_has_content = False
        for idx, (text, origin) in enumerate(self.out):
            # per line origins
            off = 0
            for seg in re.split(r'(\n)', text):
                if seg == '\n':
                    line += 1
                    col_has_content = False
                    off += 1
                    continue
                if seg.strip() and not col_has_content:
                    col_has_content = True
                    if origin is not None:
                        if origin[0] == 'src':
                            srcobj = self.src.get(origin[1])
                            lead = len(seg) - len(seg.lstrip())
                            line_map[line] = {'k': 'src', 'file': origin[1], 'line': srcobj.line_of(origin[2] + off + lead)}
                        elif origin[0] == 'spec':
                            # which template line within the clause: count newlines inside this piece
                            tl = origin[2]
                            if len(origin) > 3 and origin[3]:
                                nl = text[:off].count('\n')
                                lead_nl = len(text) - len(text.lstrip('\n'))
                                kidx = nl - lead_nl
                                if 0 <= kidx < len(origin[3]):
                                    tl = origin[3][kidx]
                            line_map[line] = {'k': 'spec', 'tpl': os.path.relpath(origin[1], os.path.dirname(os.path.dirname(self.tpl_path))), 'line': tl}
                        elif origin[0] == 'tpl':
                            line_map[line] = {'k': 'tpl', 'tpl': os.path.relpath(origin[1], os.path.dirname(os.path.dirname(self.tpl_path))), 'line': origin[2]}
                        elif origin[0] == 'rewrite':
                            srcobj = self.src.get(origin[1])
                            line_map[line] = {'k': 'src', 'file': origin[1], 'line': srcobj.line_of(origin[2])}
                        elif origin[0] == 'vacuity':
                            line_map[line] = {'k': 'vacuity', 'fn': origin[1]}
                elif seg.strip() and origin is not None and origin[0] == 'vacuity':
                    line_map[line] = {'k': 'vacuity', 'fn': origin[1]}
                off += len(seg)
            text_parts.append(text)
        full = ''.join(text_parts)
        # function line ranges
        cum = [0]
        for text, _ in self.out:
            cum.append(cum[-1] + text.count('\n'))
        for rec in self.records:
            a, b = rec._out_range
            rec.gen_start = cum[a] + 1
            rec.gen_end = cum[b] + 1
        # scan for trusted constructs
        trusted = []
        for m in re.finditer(r'assume_specification\s*(<[^\[]*>)?\s*\[\s*([^\]]+)\]', full):
            trusted.append('assume_specification ' + re.sub(r'\s+', '', m.group(2)))
        lines = full.split('\n')
        for i, l in enumerate(lines):
            s = l.strip()
            if s.startswith('//'):
                continue
            if 'external_body' in s or 'external_fn_specification' in s or '#[verifier::external' in s:
                # name of the next fn/struct
                for k in range(i + 1, min(i + 12, len(lines))):
                    mm = re.search(r'\b(fn|struct|enum|type)\s+(\w+)', lines[k])
                    if mm:
                        trusted.append('%s %s %s' % ('external_body' if 'external_body' in s else 'external', mm.group(1), mm.group(2)))
                        break
            if re.search(r'\bassume\s*\(', s) and 'assume_specification' not in s:
                trusted.append('assume @gen:%d %s' % (i + 1, s[:100]))
            if re.search(r'\badmit\s*\(', s):
                trusted.append('admit @gen:%d' % (i + 1))
            if re.search(r'\baxiom\s+fn\b|broadcast\s+axiom|#\[verifier::external_body\]\s*proof', s) or re.search(r'\buninterp\s+spec\s+fn\s+(\w+)', s):
                mm = re.search(r'fn\s+(\w+)', s)
                trusted.append(('uninterp ' if 'uninterp' in s else 'axiom ') + (mm.group(1) if mm else s[:60]))
        self.assumed = trusted
        return full, line_map


def count_top_level_clauses(text):
    depth = 0
    n = 0
    cur = False
    i = 0
    while i < len(text):
        c = text[i]
        if c in '([{':
            depth += 1
        elif c in ')]}':
            depth -= 1
        elif c == '|' and depth == 0:
            pass
        if c == ',' and depth == 0:
            if cur:
                n += 1
            cur = False
        elif not c.isspace():
            cur = True
        i += 1
    if cur:
        n += 1
    return n


def eval_str_literal(tok):
    # only plain "..." literals with simple escapes
    import ast
    body = tok[1:-1]
    if re.search(r'\\u\{', body):
        body = re.sub(r'\\u\{([0-9a-fA-F]+)\}', lambda m: chr(int(m.group(1), 16)), body)
    return ast.literal_eval('"' + body.replace('\n', '\\n') + '"') if '\\' in body else body

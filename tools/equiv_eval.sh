#!/bin/bash
# usage: tools/equiv_eval.sh <id> <OUTdir>   -- OUTdir holds patch_1.diff .. patch_N.diff (tiny behaviour-preserving edits): run every check against each
set -u
ID=$1; SRC=$2
for pf in $SRC/patch_*.diff; do
  n=$(basename $pf .diff | sed 's/patch_//')
  mkdir -p /tmp/eq_$ID$n; cp $pf /tmp/eq_$ID$n/patch.diff; [ -f $SRC/notes.md ] && cp $SRC/notes.md /tmp/eq_$ID$n/notes.md
  /verif/tools/refactor_eval.sh ${ID}_$n /tmp/eq_$ID$n 2>&1 | cut -c1-400
  rm -rf /tmp/eq_$ID$n
done

#!/bin/bash
cd /verif
for d in seeded/*/; do
  id=$(basename $d); [ -f $d/meta.json ] || continue
  P=$(python3 -c "import json;print(json.load(open('$d/meta.json'))['breaks_property'])")
  R=$(python3 -c "import json;print(json.load(open('$d/meta.json'))['check_result'][:8])")
  git -C /repo apply /verif/$d/patch.diff || { echo "$id NOAPPLY"; continue; }
  ./check $P > /tmp/reseed_$id.log 2>&1; rc=$?
  git -C /repo checkout -- .
  echo "$id $P was=$R rc=$rc $(grep -m1 'UNDECIDED\|VIOLATION' /tmp/reseed_$id.log | cut -c1-260)"
done

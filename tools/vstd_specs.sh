#!/bin/bash
# regenerate vf/vstd_specified.txt: the std functions the installed vstd gives a specification for (from the symbol names in vstd.vir)
strings /opt/veriftools/verus/vstd.vir | grep -o '_verus_external_fn_specification_[A-Za-z0-9_]*' | sort -u | sed 's/_verus_external_fn_specification_//' | python3 -c "
import sys,re
names=set()
for l in sys.stdin:
    l=l.strip()
    m=re.match(r'(\d+)_(.*)',l)
    if not m: continue
    s=re.sub(r'_(\d+)_', lambda m: chr(int(m.group(1))), m.group(2)).replace('__','_')
    s=re.sub(r'\s*::\s*<[^<>]*(<[^<>]*>[^<>]*)*>\s*\$','',s)
    seg=s.split('::')[-1].strip()
    if re.match(r'^\w+\$',seg): names.add(seg)
print('\n'.join(sorted(names)))
" > /verif/vf/vstd_specified.txt
wc -l /verif/vf/vstd_specified.txt

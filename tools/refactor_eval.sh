#!/bin/bash
# usage: tools/refactor_eval.sh <id> <OUTdir>   -- apply a behaviour-preserving change to /repo, run EVERY registered check, expect no exit 1; revert
set -u
ID=$1; SRC=$2
D=/verif/seeded/harmless/$ID
mkdir -p $D
cp $SRC/patch.diff $D/; [ -f $SRC/notes.md ] && cp $SRC/notes.md $D/agent_notes.md
cd /repo && git diff --quiet || { echo "repo dirty"; exit 7; }
git apply $D/patch.diff || { echo "PATCH DOES NOT APPLY"; exit 8; }
cd /verif
: > $D/checks_with.log
for P in $(python3 -c "import json; print(' '.join(c['property_id'] for c in json.load(open('/verif/MANIFEST.json'))['checks']))"); do
  ./check $P > $D/check_$P.log 2>&1; rc=$?
  echo "$P rc=$rc $(grep -m1 'VIOLATION\|UNDECIDED\|^OK' $D/check_$P.log | cut -c1-260)" >> $D/checks_with.log
  [ $rc -eq 0 ] && rm -f $D/check_$P.log
done
git -C /repo checkout -- .
grep -v "rc=0" $D/checks_with.log || echo "$ID: all checks exit 0"

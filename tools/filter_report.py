#!/usr/bin/env python3
"""usage: tools/filter_report.py  -- for every property whose check restricts a unit by a function filter (fns / not_fns in props.json): the unit's
extracted functions the filter EXCLUDES although they lie in the property's anchor files. Read it after adding functions to a shared unit: an
excluded function whose behaviour the property's statement needs is a gap (seeds C01k, C08n: DESIGN 9.6, "Function filters re-read")."""
import sys, json, fnmatch
sys.path.insert(0, '/verif')
from vf import gen, check
props = json.load(open('/verif/props.json'))
anchors = {}
for l in open('/verif/properties.jsonl'):
    pj = json.loads(l)
    anchors[pj['id']] = pj['anchors']['files']
units = {}


def recs(u):
    if u not in units:
        U = gen.Unit(u, '/verif/units/%s/unit.rs' % u)
        U.generate()
        units[u] = [r for r in U.records if r.kind == 'fn']
    return units[u]


for p, spec in sorted(props.items()):
    for u, ucfg in spec.get('units', {}).items():
        if not (ucfg.get('fns') or ucfg.get('not_fns')):
            continue
        ex = []
        for r in recs(u):
            name = check.short_fn(r.selector)
            rel = getattr(r, 'file', None)
            if not check.fn_relevant(ucfg, name) and rel and any(fnmatch.fnmatch(rel, a) for a in anchors[p]):
                ex.append(name)
        if ex:
            print(p, u, len(ex), ' '.join(sorted(set(ex))))

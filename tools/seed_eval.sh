#!/bin/bash
# usage: tools/seed_eval.sh <seed-dir-name> <PROP> [src-out-dir]   -- confirm a seeded change and run the check against it
set -u
ID=$1; P=$2; SRC=${3:-/tmp/seed_$ID/OUT}
D=/verif/seeded/$ID
mkdir -p $D
[ -f $SRC/patch.diff ] && cp $SRC/patch.diff $SRC/seed_demo.rs $D/ 2>/dev/null; [ -f $SRC/notes.md ] && cp $SRC/notes.md $D/agent_notes.md
W=/tmp/ev_$ID
export CARGO_TARGET_DIR=/var/tmp/ev_target CARGO_NET_OFFLINE=true
git -C /repo worktree add -q --detach $W HEAD || exit 9
cd $W
cp $D/seed_demo.rs tests/seed_demo.rs
# without the change: demo must pass
cargo test --offline --test seed_demo > $D/demo_without.log 2>&1; DW=$?
git apply $D/patch.diff || { echo "PATCH DOES NOT APPLY"; cd /; git -C /repo worktree remove --force $W; exit 8; }
cargo test --offline --test seed_demo > $D/demo_with.log 2>&1; DM=$?
rm tests/seed_demo.rs
cargo test --workspace --no-fail-fast --offline > $D/suite_with.log 2>&1; SU=$?
PASSED=$(grep "test result" $D/suite_with.log | awk '{s+=$4} END {print s}')
cd /
git -C /repo worktree remove --force $W
# the check against the change applied to /repo
cd /repo && git diff --quiet || { echo "repo dirty"; exit 7; }
git apply $D/patch.diff
cd /verif && ./check $P > $D/check_with.log 2>&1; CK=$?
git -C /repo checkout -- .
./check $P > /dev/null 2>&1   # restore evidence of the clean tree
echo "seed=$ID prop=$P demo_without_rc=$DW demo_with_rc=$DM suite_with_rc=$SU suite_passed=$PASSED check_rc=$CK"
grep "VIOLATION\|UNDECIDED\|^OK\|failed obligation" $D/check_with.log | head -6

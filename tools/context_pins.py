#!/usr/bin/env python3
"""write /verif/context_pins.json from the CURRENT /repo tree (clean tree only): functions a property's behaviour passes through that NO unit of that
property verifies or pins. A property whose context function changed is UNDECIDED (exit 2) instead of silently OK (DESIGN 9.1, "Context pins").
The curated list below names them by (file, selector regex); tools/pin_hash.py's token hash ties each to its present text."""
import sys, os, re, json, hashlib, subprocess
sys.path.insert(0, '/verif')
from vf import gen, rustlex
if subprocess.run(['git', '-C', '/repo', 'diff', '--quiet']).returncode != 0:
    sys.exit('repo dirty: refusing')
LAYERS = ['scheme', 'host', 'ip', 'method', 'header', 'datetime', 'path_and_query']
TREE_MISC = [('src/regex_radix_tree/leaf.rs', r'.* / fn (clone|get_mut|cached_len)'), ('src/regex_radix_tree/node.rs', r'.* / fn (clone|get_mut|cached_len)'),
             ('src/regex_radix_tree/item.rs', r'.* / fn (clone|get_mut|cached_len|iter|iter_mut)'),
             ('src/regex_radix_tree/tree.rs', r'.* / fn (clone|get_mut|cached_len|iter|iter_mut)'), ('src/regex_radix_tree/tree.rs', r'impl <V>UniqueRegexTreeMap<V> / fn get'),
             ('src/regex_radix_tree/iter.rs', r'.* / fn next')]
LAYER_CACHE = [('src/router/request_matcher/%s.rs' % l, r'impl <T>\w+<T> / fn cache') for l in LAYERS]
ROUTER_CTOR = [('src/router/mod.rs', r'.* / fn (default|from_config|routes)')]
CURATED = {
    'C01': [('src/router/route_weekday.rs', r'impl PartialOrdforWeekdays / fn partial_cmp')],
    'C02': TREE_MISC + [('src/api/rules_message.rs', r'impl RuleChangeSet / fn is_empty')],
    'C08': TREE_MISC,
    'C12': [('src/regex_radix_tree/%s.rs' % f, r'.* / fn (cached_len|clone)') for f in ('leaf', 'node', 'item', 'tree')]
           + [('src/marker/mod.rs', r'impl (MarkerString|StaticOrDynamic) / fn (compile|capture)'), ('src/router/route.rs', r'impl <T>Route<T> / fn (compile|capture)')],
    'C16': [('src/html/mod.rs', r'impl Token / fn tag_string')],
    'C05': [('src/action/mod.rs', r'impl Action / fn get_target')],
    'C19': [('src/action/mod.rs', r'impl (UnitTrace|WithTargetUnitTrace) / fn \w+'), ('src/api/explain_request.rs', r'.* / fn create_result_(from|without)_project'),
            ('src/api/test_examples.rs', r'.* / fn (?!test_example$)\w+'), ('src/api/unit_ids.rs', r'.* / fn (?!create_result$)\w+'), ('src/api/rules_message.rs', r'impl RuleChangeSet / fn is_empty')],
    'C09': [('src/http/request.rs', r'impl Request / fn new'), ('src/http/request.rs', r'impl FromStrforRequest / fn from_str'),
            ('src/router_config.rs', r'.*fn (default|default_as_false|default_marketing_parameters|hash)')],
    'C10': [('src/marker/mod.rs', r'impl Marker / fn (new|format)'), ('src/marker/mod.rs', r'impl StaticOrDynamic / fn compile')],
    'C14': [('src/filter/encoding/mod.rs', r'impl SupportedEncoding / fn new_hash_set')],
    'C17': [('src/router/request_matcher/header.rs', r'impl ValueCondition / fn format')],
    'C18': [('src/callback_log.rs', r'.*fn \w+')],
}
cache = gen.SrcCache()


def all_fns(rel):
    src = cache.get(rel)
    out = []

    def walk(items, prefix):
        for it in items:
            if it.kind == 'mod' and it.name == 'tests':
                continue
            nm = rustlex.norm_hdr(it.name) if it.kind == 'impl' else it.name
            sel = (prefix + ' / ' if prefix else '') + ('%s %s' % (it.kind, nm))
            if it.kind == 'fn':
                out.append((sel, it))
            if it.kind in ('impl', 'mod', 'trait'):
                walk(src.children(it), sel)
    walk(src.top(), '')
    return src, out


def token_hash(src, it):
    sig = ' '.join(t.text for t in src.toks[it.start:it.end] if t.kind not in ('ws', 'comment'))
    return hashlib.sha256(sig.encode()).hexdigest()[:12]


def unit_covered(unit):
    """(file, item start token) of every function a unit extracts (fn / sig directives) or pins"""
    cov = set()
    path = '/verif/units/%s/unit.rs' % unit
    if not os.path.exists(path):
        return cov
    for line in open(path):
        m = re.match(r'\s*//@@ (fn|sig|pin)\s+(\S+)\s*::\s*(.*?)(?:\s*->\s*\w+)?\s*$', line)
        if not m:
            continue
        rel, sel = m.group(2), m.group(3).strip()
        if m.group(1) == 'pin':
            sel = sel.rsplit('=', 1)[0].strip()
        try:
            src = cache.get(rel)
        except Exception:
            continue
        found = src.find(sel)
        om = re.search(r'#(\d+)$', sel)
        if not found and om:
            found = src.find(sel[:om.start()].strip())
            found = found[int(om.group(1)):int(om.group(1)) + 1]
        for it in found:
            cov.add((rel, it.start))
    return cov


def auto_rows(prop, anchors, units, seen):
    """every function of the property's anchor files that none of its units extracts or pins (the coverage map, computed instead of curated)"""
    import glob
    cov = set()
    for u in units:
        cov |= unit_covered(u)
    rows = []
    for pat in anchors:
        for path in sorted(glob.glob(os.path.join('/repo', pat))):
            rel = os.path.relpath(path, '/repo')
            if prop == 'C18' and rel == 'src/filter/buffer.rs':
                continue    # exercised by the injected Kani harnesses
            src, fns = all_fns(rel)
            for sel, it in fns:
                if 'DotBuilder' in sel or (rel, it.start) in cov or (rel, sel) in seen:
                    continue
                if len(src.find(sel)) != 1:
                    continue
                seen.add((rel, sel))
                rows.append({'file': rel, 'selector': sel, 'hash': token_hash(src, it), 'auto': True})
    return rows


if __name__ == '__main__':
    out = {}
    props = json.load(open('/verif/props.json'))
    anchors = {}
    for l in open('/verif/properties.jsonl'):
        pj = json.loads(l)
        anchors[pj['id']] = pj['anchors']['files']
    for prop in sorted(props):
        pats = CURATED.get(prop, [])
        seen = set()
        rows = []
        cov = set()
        for u in props[prop].get('units', {}):
            cov |= unit_covered(u)
        for rel, pat in pats:
            src, fns = all_fns(rel)
            hit = [(sel, it) for sel, it in fns if re.fullmatch(pat, sel)]
            if not hit:
                sys.exit('no function matches %s :: %s' % (rel, pat))
            for sel, it in hit:
                if (rel, sel) in seen or len(src.find(sel)) != 1 or (rel, it.start) in cov:
                    continue
                seen.add((rel, sel))
                rows.append({'file': rel, 'selector': sel, 'hash': token_hash(src, it)})
        rows += auto_rows(prop, anchors.get(prop, []), list(props[prop].get('units', {}).keys()), seen)
        out[prop] = rows
    json.dump(out, open('/verif/context_pins.json', 'w'), indent=1)
    print({k: len(v) for k, v in out.items()}, sum(len(v) for v in out.values()))

#!/bin/bash
# re-run every registered check on the CURRENT /repo tree (must be clean) and validate every evidence file; run before committing
set -u
cd /repo && git diff --quiet || { echo "repo dirty: refusing"; exit 9; }
cd /verif
# the shape baseline of the new-construct / displaced-aid rules is a function of the clean tree and the unit templates: keep it in step
tools/baseline_shapes.py > /dev/null || { echo 'baseline_shapes failed'; exit 9; }
tools/context_pins.py > /dev/null || { echo 'context_pins failed'; exit 9; }
bad=0
for id in $(python3 -c "import json;print(' '.join(c['property_id'] for c in json.load(open('MANIFEST.json'))['checks']))"); do
  out=$(./check $id --tier quick 2>&1 | tail -1); rc=$?
  echo "$id: $out" | cut -c1-160
  case "$out" in OK*) ;; *) bad=1;; esac
  python3-vt - "$id" <<'P' || bad=1
import json,jsonschema,sys
i=sys.argv[1]
ev=json.load(open('/verif/evidence/%s.json'%i))
jsonschema.validate(ev,json.load(open('/root/.vp/EVIDENCE.schema.json')))
m=[c for c in json.load(open('/verif/MANIFEST.json'))['checks'] if c['property_id']==i][0]
assert ev['level']==m['level_claimed']['category'], (i, ev['level'], m['level_claimed']['category'])
c=ev['coverage']
if ev['level']=='proof': assert c['obligations']>=1 and c['discharged']==c['obligations'], (i,c['obligations'],c['discharged'])
P
done
python3-vt -c "
import json,jsonschema
jsonschema.validate(json.load(open('/verif/MANIFEST.json')),json.load(open('/root/.vp/MANIFEST.schema.json')))"
[ $bad = 0 ] && echo "ALL OK" || echo "PROBLEMS"
exit $bad

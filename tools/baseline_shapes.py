#!/usr/bin/env python3
"""write /verif/baseline_shapes.json from the CURRENT /repo tree (run on the clean tree only): per unit and extracted function, the names it calls
and the number of closure expressions in its source text. check.py uses it for the new-construct rule (DESIGN 9.3)."""
import sys, os, json, subprocess, hashlib
sys.path.insert(0, '/verif')
from vf import gen
if subprocess.run(['git', '-C', '/repo', 'diff', '--quiet']).returncode != 0:
    sys.exit('repo dirty: refusing')
out = {}
for unit in sorted(os.listdir('/verif/units')):
    if not os.path.exists('/verif/units/%s/unit.rs' % unit):
        continue
    u = gen.Unit(unit, '/verif/units/%s/unit.rs' % unit)
    u.generate()
    out[unit] = {r.selector: {'callees': r.callees, 'closures': r.n_closures, 'skeleton': hashlib.sha256(r.skeleton.encode()).hexdigest()[:12], 'aids': r.aid_ctx, 'if_ord': r.if_ord} for r in u.records if r.kind == 'fn'}
json.dump(out, open('/verif/baseline_shapes.json', 'w'), indent=0, sort_keys=True)
print('units', len(out), 'functions', sum(len(v) for v in out.values()))

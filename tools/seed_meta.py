#!/usr/bin/env python3
"""usage: tools/seed_meta.py <seed-id> <PROP> <check_result> <change> <needs> [failed_obligation]  -- write seeded/<id>/meta.json from the logs"""
import sys, json, os, re
sid, prop, result, change, needs = sys.argv[1:6]
obl = sys.argv[6] if len(sys.argv) > 6 else ''
d = os.path.join('/verif/seeded', sid)
def grab(f, pat):
    p = os.path.join(d, f)
    if not os.path.exists(p): return []
    return [l.strip() for l in open(p) if re.search(pat, l)][:6]
meta = {
 'seed': sid, 'breaks_property': prop, 'change': change, 'needs_to_manifest': needs,
 'origin': 'independent sub-agent given only the property text and a scratch worktree',
 'confirmed_by_me': {'how': 'tools/seed_eval.sh: scratch worktree of /repo HEAD; demo without the change (must pass), with the change (must fail), existing suite with the change (must be green, 549 tests)',
   'results': {'demo_without.log': grab('demo_without.log', 'test result'), 'demo_with.log': grab('demo_with.log', 'test result'),
               'suite_with.log': grab('suite_with.log', 'test result'), 'check_with.log': grab('check_with.log', 'VIOLATION|UNDECIDED|^OK')}},
 'check_result': result, 'failed_obligation': obl}
json.dump(meta, open(os.path.join(d, 'meta.json'), 'w'), indent=1)
print('wrote', d)

#!/usr/bin/env python3
"""usage: tools/pin_hash.py <file> '<selector>' [<file> '<selector>' ...]  -- print `//@@ pin` lines (token hash of the function in /repo now)"""
import sys, hashlib
sys.path.insert(0, '/verif')
from vf.gen import SrcCache
cache = SrcCache()
args = sys.argv[1:]
for k in range(0, len(args), 2):
    f, sel = args[k], args[k + 1]
    src = cache.get(f)
    found = src.find(sel)
    if len(found) != 1:
        print('// NOT FOUND (%d): %s :: %s' % (len(found), f, sel)); continue
    it = found[0]
    sig = ' '.join(t.text for t in src.toks[it.start:it.end] if t.kind not in ('ws', 'comment'))
    print('//@@ pin %s :: %s = %s' % (f, sel, hashlib.sha256(sig.encode()).hexdigest()[:12]))

#!/bin/bash
# usage: tools/mut.sh <PROP> <file-in-repo> <sed-expr>   -- apply a mutation to /repo, run the check, revert
set -u
P=$1; F=$2; S=$3
cd /repo && git diff --quiet || { echo "repo dirty"; exit 9; }
sed -i "$S" "/repo/$F"
if git -C /repo diff --quiet; then echo "MUTATION DID NOT APPLY"; exit 8; fi
git -C /repo diff | grep '^[+-]' | grep -v '^+++\|^---'
cd /verif && ./check $P; rc=$?
git -C /repo checkout -- .
./check $P > /dev/null 2>&1   # restore evidence of the clean tree
echo "rc=$rc"

#!/usr/bin/env python3
"""usage: tools/mutsweep.py <worker-id> <n-workers> <n-mutants-total> <seed> <out.jsonl>
Mutation sweep against an ISOLATED copy: copies /verif to /var/tmp/vsweep<id> and /repo (git worktree) to /var/tmp/rsweep<id>, applies one standard
mutation operator at a time to a line of a function under contract, runs the checks of the properties that map the function's unit, records
exit codes. Mutants reported OK are either equivalent or point at a weak contract: they are the output to read. Nothing here is registered in MANIFEST."""
import sys, os, re, json, random, subprocess, shutil
wid, nw, total, seed, outp = int(sys.argv[1]), int(sys.argv[2]), int(sys.argv[3]), int(sys.argv[4]), sys.argv[5]
V = '/var/tmp/vsweep%d' % wid
R = '/var/tmp/rsweep%d' % wid
if os.path.exists(V): shutil.rmtree(V)
subprocess.run(['git', '-C', '/repo', 'worktree', 'remove', '--force', R], capture_output=True)
subprocess.run(['git', '-C', '/repo', 'worktree', 'prune'])
shutil.copytree('/verif', V, ignore=shutil.ignore_patterns('.git', 'seeded', 'replays', 'findings', 'notes'))
subprocess.run(['git', '-C', '/repo', 'worktree', 'add', '-q', '--detach', R, 'HEAD'], check=True)
sys.path.insert(0, '/verif')
os.environ['VERIF_REPO'] = '/repo'
from vf import gen
props = json.load(open('/verif/props.json'))
unit_props = {}
for pid, spec in props.items():
    if not isinstance(spec, dict) or 'units' not in spec or pid == 'C18': continue
    us = spec['units']
    for u in (us.keys() if isinstance(us, dict) else us):
        cfg = us[u] if isinstance(us, dict) else {}
        unit_props.setdefault(u, []).append((pid, cfg))
# functions under contract with their source line ranges
fns = []
for unit in sorted(os.listdir('/verif/units')):
    tp = '/verif/units/%s/unit.rs' % unit
    if not os.path.exists(tp) or unit not in unit_props: continue
    u = gen.Unit(unit, tp); u.generate()
    for r in u.records:
        if r.kind != 'fn' or not r.contracted: continue
        src = u.src.get(r.file)
        found = src.find(r.selector)
        if len(found) != 1: continue
        it = found[0]
        lo = src.line_of(src.toks[it.body].start) if it.body >= 0 else r.src_line
        hi = src.line_of(src.toks[it.end - 1].end)
        fns.append((unit, r.file, r.selector, lo + 1, hi - 1))
OPS = [(r'&&', '||'), (r'\|\|', '&&'), (r'==', '!='), (r'!=', '=='), (r' < ', ' <= '), (r' <= ', ' < '), (r' > ', ' >= '), (r' >= ', ' > '),
       (r'\+= 1\b', '+= 2'), (r'-= 1\b', '-= 2'), (r'\+ 1\b', '+ 0'), (r'- 1\b', '- 0'), (r'\btrue\b', 'false'), (r'\bfalse\b', 'true'),
       (r'\bcontinue\b', 'break'), (r'\bis_some\(\)', 'is_none()'), (r'\bis_none\(\)', 'is_some()'), (r'\bis_empty\(\)', 'len() > 0'),
       (r'^(\s*)if (?!let\b)(.*) \{\s*$', r'\1if !(\2) {'), ('DELETE', '')]
rnd = random.Random(seed)
cands = []
for (unit, f, sel, lo, hi) in fns:
    lines = open('/repo/' + f).read().split('\n')
    for ln in range(lo, hi + 1):
        t = lines[ln - 1]
        st = t.strip()
        if not st or st.startswith('//') or st.startswith('#[') or 'log::' in st: continue
        for k, (pat, rep) in enumerate(OPS):
            if pat == 'DELETE':
                if st.endswith(';') and not st.startswith('let ') and not st.startswith('return') and '=' in st or (st.endswith(');') and not st.startswith('let ') and not st.startswith('return')):
                    cands.append((unit, f, sel, ln, k))
            elif re.search(pat, t):
                cands.append((unit, f, sel, ln, k))
rnd.shuffle(cands)
# at most 2 mutants per function, spread
per = {}
chosen = []
for c in cands:
    key = (c[1], c[2])
    if per.get(key, 0) >= 2: continue
    per[key] = per.get(key, 0) + 1
    chosen.append(c)
    if len(chosen) >= total: break
mine = chosen[wid::nw]
env = dict(os.environ, VERIF_REPO=R, CARGO_NET_OFFLINE='true')
out = open(outp, 'a')
for (unit, f, sel, ln, k) in mine:
    pat, rep = OPS[k]
    path = os.path.join(R, f)
    orig = open(path).read()
    lines = orig.split('\n')
    old = lines[ln - 1]
    new = ('// ' + old) if pat == 'DELETE' else re.sub(pat, rep, old, count=1)
    if new == old: continue
    lines[ln - 1] = new
    open(path, 'w').write('\n'.join(lines))
    res = {}
    try:
        short = sel.split(' / ')[-1].split(' ', 1)[1]
        pl = unit_props[unit]
        # properties whose function filter can match this function first
        def match(cfg):
            fl = cfg.get('fns')
            return not fl or any(re.fullmatch('.*' + re.escape(short) if '::' not in p_ else p_.split('::')[-1].replace('(', '(?:'), short) or short in p_ for p_ in fl)
        pl = sorted(pl, key=lambda x: (not match(x[1]), x[0]))[:3]
        for pid, cfg in pl:
            p = subprocess.run(['./check', pid], cwd=V, env=env, capture_output=True, text=True, timeout=1500)
            last = [l for l in p.stdout.split('\n') if l.startswith(('OK', 'VIOLATION', 'UNDECIDED'))]
            res[pid] = [p.returncode, (last[0][:220] if last else '')]
    except Exception as e:
        res['error'] = str(e)[:200]
    finally:
        open(path, 'w').write(orig)
    rec = {'unit': unit, 'file': f, 'fn': sel, 'line': ln, 'old': old.strip(), 'new': new.strip(), 'res': res}
    out.write(json.dumps(rec) + '\n'); out.flush()
subprocess.run(['git', '-C', '/repo', 'worktree', 'remove', '--force', R], capture_output=True)
shutil.rmtree(V, ignore_errors=True)
print('worker', wid, 'done', len(mine))

//@@ include ../common/prelude.rs
// Unit `cap` — property C10, capture side at the route level: Route::capture collects the marker captures of the path, of the host and of
// EVERY header pattern against every request header of that name. Header names are compared as matching compares them (unit rtr: lower-cased
// on both sides), otherwise a rule that matched through a header pattern would reach its target with the marker unsubstituted.
// The captures of one pattern against one string (regex crate) are a named function here.
verus! {
//@@ include ../common/vec_specs.rs
use vstd::std_specs::hash::*;
#[verifier::external_body] pub broadcast proof fn axiom_string_key_model() ensures #[trigger] obeys_key_model::<String>() {}
#[verifier::external_body] pub struct IpAddr { x: u8 }
#[verifier::external_body] pub struct Utc { x: u8 }
#[verifier::external_body] #[verifier::accept_recursive_types(Tz)] pub struct DateTime<Tz> { x: std::marker::PhantomData<Tz> }
#[verifier::external_body] pub struct RouteIp { x: u8 }
#[verifier::external_body] pub struct RouteDateTime { x: u8 }
#[verifier::external_body] pub struct RouteTime { x: u8 }
#[verifier::external_body] pub struct RouteWeekday { x: u8 }
#[verifier::external_body] pub struct StaticOrDynamic { x: u8 }
#[verifier::external_body] pub struct RouteHeaderKind { x: u8 }
//@@ item src/http/header.rs :: struct Header
//@@ item src/http/query.rs :: struct PathAndQueryWithSkipped
//@@ item src/http/request.rs :: struct Request
//@@ item src/router/route_header.rs :: struct RouteHeader
//@@ item src/router/route.rs :: struct Route
pub assume_specification<T, A: std::alloc::Allocator> [<Vec<T, A> as std::convert::AsRef<Vec<T, A>>>::as_ref] (v: &Vec<T, A>) -> (r: &Vec<T, A>) ensures r == v;
pub uninterp spec fn lower(s: Seq<char>) -> Seq<char>;
pub assume_specification [str::to_lowercase] (s: &str) -> (r: std::string::String) ensures r@ == lower(s@);
// captures of one pattern against one string: marker name -> captured text (regex crate; MarkerString::capture is not under contract here)
pub uninterp spec fn sod_caps(p: StaticOrDynamic, s: Seq<char>) -> Map<String, String>;
pub uninterp spec fn hdr_caps(h: RouteHeader, s: Seq<char>) -> Map<String, String>;
impl StaticOrDynamic {
    #[verifier::external_body] pub fn capture(&self, str: &str) -> (r: HashMap<String, String>) ensures r@ == sod_caps(*self, str@) { unimplemented!() }
}
impl RouteHeader {
    #[verifier::external_body] pub fn capture(&self, str: &str) -> (r: HashMap<String, String>) ensures r@ == hdr_caps(*self, str@) { unimplemented!() }
}
// `parameters.extend(other)` (HashMap::extend has no Verus spec): ASSUMED std behaviour — every entry of `other` is inserted (later wins), nothing is removed
#[verifier::external_body]
pub fn ext_params(parameters: &mut HashMap<String, String>, other: HashMap<String, String>)
    ensures forall|k: String| #[trigger] final(parameters)@.contains_key(k) <==> old(parameters)@.contains_key(k) || other@.contains_key(k),
        forall|k: String| other@.contains_key(k) ==> #[trigger] final(parameters)@[k] == other@[k],
        forall|k: String| old(parameters)@.contains_key(k) && !other@.contains_key(k) ==> #[trigger] final(parameters)@[k] == old(parameters)@[k],
{ /* verbatim: parameters.extend(host.capture(request_host)); | parameters.extend(header.capture(request_header.value.as_str())); */ unimplemented!() }
pub open spec fn has_keys(m: Map<String, String>, c: Map<String, String>) -> bool { forall|k: String| #[trigger] c.contains_key(k) ==> m.contains_key(k) }
// statement: the request header is one of those the header trigger looks at (names compared without regard to case, as the header layer does)
pub open spec fn same_name(a: Seq<char>, b: Seq<char>) -> bool { lower(a) == lower(b) }
pub open spec fn pairs_done(m: Map<String, String>, hs: Seq<RouteHeader>, rhs: Seq<Header>, i: int, j: int) -> bool {
    // all pairs (i', j') with i' < i, and the pairs (i, j') with j' < j
    forall|a: int, b: int| 0 <= a < hs.len() && 0 <= b < rhs.len() && (a < i || (a == i && b < j)) && same_name(rhs[b].name@, hs[a].name@) ==> has_keys(m, #[trigger] hdr_caps(hs[a], rhs[b].value@))
}
impl<T> Route<T> {
    //@@ fn src/router/route.rs :: impl <T>Route<T> / fn host -> r
    //@| ensures (r is Some) == (self.host is Some), r is Some ==> *r.unwrap() == self.host.unwrap(),
    //@@ fn src/router/route.rs :: impl <T>Route<T> / fn path_and_query -> r
    //@| ensures *r == self.path_and_query,
    //@@ fn src/router/route.rs :: impl <T>Route<T> / fn headers -> r
    //@| ensures *r == self.headers,

    //@@ fn src/router/route.rs :: impl <T>Route<T> / fn capture -> r
    //@| ensures has_keys(r@, sod_caps(self.path_and_query, request.path_and_query_skipped.path_and_query@)),
    //@|     (self.host is Some && request.host is Some) ==> has_keys(r@, sod_caps(self.host.unwrap(), request.host.unwrap()@)),
    //@|     // every header pattern against every request header of that name
    //@|     forall|a: int, b: int| 0 <= a < self.headers@.len() && 0 <= b < request.headers@.len() && same_name(request.headers@[b].name@, self.headers@[a].name@)
    //@|         ==> has_keys(r@, #[trigger] hdr_caps(self.headers@[a], request.headers@[b].value@)),
    //@| outline `parameters.extend(host.capture(request_host));` => `ext_params(&mut parameters, host.capture(request_host));`
    //@| outline `parameters.extend(header.capture(request_header.value.as_str()));` => `ext_params(&mut parameters, header.capture(request_header.value.as_str()));`
    //@| opt r5:0
    //@| opt r6i:0
    //@| opt r5:1
    //@| opt r6:1
    //@| attr #[verifier::loop_isolation(false)]
    //@| entry broadcast use group_hash_axioms; broadcast use axiom_string_key_model;
    //@| loopbefore 0: let ghost hs = self.headers@; let ghost rhs = request.headers@; let ghost pc = sod_caps(self.path_and_query, request.path_and_query_skipped.path_and_query@);
    //@|     let ghost hc = if self.host is Some && request.host is Some { sod_caps(self.host.unwrap(), request.host.unwrap()@) } else { Map::<String, String>::empty() };
    //@| loop 0: invariant 0 <= vf_it0_idx <= vf_it0_rem0.len(), vf_it0.remaining() == vf_it0_rem0.skip(vf_it0_idx), vf_it0_rem0.len() == hs.len(),
    //@|         forall|a: int| 0 <= a < hs.len() ==> *#[trigger] vf_it0_rem0[a] == hs[a],
    //@|         has_keys(parameters@, pc), has_keys(parameters@, hc), pairs_done(parameters@, hs, rhs, vf_it0_idx, 0),
    //@|     decreases hs.len() - vf_it0_idx,
    //@| loophead 0: let ghost i = vf_it0_idx - 1; proof { assert(*header == hs[i]); }
    //@| loop 1: invariant 0 <= vf_it1_idx <= vf_it1_rem0.len(), vf_it1.remaining() == vf_it1_rem0.skip(vf_it1_idx), vf_it1_rem0.len() == rhs.len(),
    //@|         forall|b: int| 0 <= b < rhs.len() ==> *#[trigger] vf_it1_rem0[b] == rhs[b],
    //@|         has_keys(parameters@, pc), has_keys(parameters@, hc), pairs_done(parameters@, hs, rhs, i, vf_it1_idx),
    //@|     decreases rhs.len() - vf_it1_idx,
    //@| loophead 1: let ghost j = vf_it1_idx - 1; let ghost p0 = parameters@; proof { assert(*request_header == rhs[j]); }
    //@| looptail 1: proof {
    //@|     assert forall|a: int, b: int| 0 <= a < hs.len() && 0 <= b < rhs.len() && (a < i || (a == i && b < j + 1)) && same_name(rhs[b].name@, hs[a].name@) implies has_keys(parameters@, #[trigger] hdr_caps(hs[a], rhs[b].value@)) by {
    //@|         if a < i || b < j { assert(has_keys(p0, hdr_caps(hs[a], rhs[b].value@))); }
    //@|     }
    //@| }
    //@| loopend 1: proof { assert(pairs_done(parameters@, hs, rhs, i + 1, 0)); }
}

// ---- PINS: functions of /repo this unit (or the property it serves) only ASSUMES something about — a hand-written shim stands for them, or nothing at
// all does. The assumption was made for one text of each; the token hash ties it to that text: a change makes the unit UNDECIDED (exit 2), never OK.
//@@ pin src/marker/mod.rs :: impl MarkerString / fn capture = 99691c3ceeda
//@@ pin src/marker/mod.rs :: impl StaticOrDynamic / fn capture = 93859b29e128
//@@ pin src/router/route_header.rs :: impl RouteHeader / fn capture = c97eda766360
//@@ pin src/marker/mod.rs :: impl StaticOrDynamic / fn new_with_markers = 38ca80c67820
//@@ pin src/marker/mod.rs :: impl MarkerString / fn compile = 3b3f7edd1bda
//@@ strlits
} // verus!
fn main() {}

//@@ include ../common/prelude.rs
// Unit `rte` — property C11, the link between the order `routes.sort()` uses and the verified order on rules: Route<T>'s PartialEq / PartialOrd / Ord
// delegate to the handler's (for T = api::Rule: the comparison functions verified in unit `act` against rank-descending-then-id-descending).
// The trait impls are kept as trait impls (so `==` / `<` on routes inside them keep their meaning); what each must compute is stated through vstd's
// *SpecImpl traits: Verus checks every impl body against `obeys_*_spec() ==> result == *_spec(self, other)`.
use std::cmp::Ordering;
use vstd::std_specs::cmp::*;
verus! {
// the fields of the real struct that are plain data (the matcher-specific ones — host / path patterns, header, ip, date-time triggers — are foreign to this unit and dropped)
pub struct Route<T> { pub handler: T, pub scheme: Option<String>, pub methods: Option<Vec<String>>, pub exclude_methods: Option<bool>, pub id: String, pub priority: i64 }
// statement (C11): rules are applied by descending rank, ties broken by id — the order on routes IS the order on their rules
impl<T: PartialEq> PartialEqSpecImpl for Route<T> {
    open spec fn obeys_eq_spec() -> bool { T::obeys_eq_spec() }
    open spec fn eq_spec(&self, other: &Self) -> bool { self.handler.eq_spec(&other.handler) }
}
impl<T: PartialOrd> PartialOrdSpecImpl for Route<T> {
    open spec fn obeys_partial_cmp_spec() -> bool { T::obeys_partial_cmp_spec() }
    open spec fn partial_cmp_spec(&self, other: &Self) -> Option<Ordering> { self.handler.partial_cmp_spec(&other.handler) }
}
impl<T: Ord> OrdSpecImpl for Route<T> {
    open spec fn obeys_cmp_spec() -> bool { T::obeys_cmp_spec() }
    open spec fn cmp_spec(&self, other: &Self) -> Ordering { self.handler.cmp_spec(&other.handler) }
}
impl<T: PartialEq> PartialEq for Route<T> {
    //@@ fn src/router/route.rs :: impl <T> PartialEq for Route<T> where T: PartialEq, / fn eq
}
impl<T: PartialEq> Eq for Route<T> {}
impl<T: PartialOrd> PartialOrd for Route<T> {
    //@@ fn src/router/route.rs :: impl <T> PartialOrd for Route<T> where T: PartialOrd, / fn partial_cmp
}
impl<T: Ord> Ord for Route<T> {
    //@@ fn src/router/route.rs :: impl <T> Ord for Route<T> where T: Ord, / fn cmp
}
} // verus!
fn main() {}

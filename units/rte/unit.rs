//@@ include ../common/prelude.rs
// Unit `rte` — property C11, the link between the order `routes.sort()` uses and the verified order on rules: Route<T>'s PartialEq / PartialOrd / Ord
// delegate to the handler's (for T = api::Rule: the comparison functions verified in unit `act` against rank-descending-then-id-descending).
use std::cmp::Ordering;
use vstd::std_specs::cmp::*;
verus! {
// the fields of the real struct that are plain data (the matcher-specific ones — host / path patterns, header, ip, date-time triggers — are foreign to this unit and dropped)
pub struct Route<T> { pub handler: T, pub scheme: Option<String>, pub methods: Option<Vec<String>>, pub exclude_methods: Option<bool>, pub id: String, pub priority: i64 }
// R7: the trait impls are verified as inherent methods (std's sort reaches them through the traits: listed assumption)
impl<T: PartialEq> Route<T> {
    //@@ fn src/router/route.rs :: impl <T>PartialEqforRoute<T>whereT:PartialEq, / fn eq -> r
    //@| ensures T::obeys_eq_spec() ==> r == self.handler.eq_spec(&other.handler),
}
impl<T: PartialOrd> Route<T> {
    //@@ fn src/router/route.rs :: impl <T>PartialOrdforRoute<T>whereT:PartialOrd, / fn partial_cmp -> r
    //@| ensures T::obeys_partial_cmp_spec() ==> r == self.handler.partial_cmp_spec(&other.handler),
}
impl<T: Ord> Route<T> {
    //@@ fn src/router/route.rs :: impl <T>OrdforRoute<T>whereT:Ord, / fn cmp -> r
    //@| ensures T::obeys_cmp_spec() ==> r == self.handler.cmp_spec(&other.handler),
}
} // verus!
fn main() {}

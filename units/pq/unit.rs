//@@ include ../common/prelude.rs
// Unit `pq` — request-side URL normalisation PathAndQueryWithSkipped::from_config (src/http/query.rs), C09 clauses "marketing parameters
// are ignored for matching and forwarded to the target only when so configured", "path/query case folding when configured", and the
// shape of the canonical query (parameters rendered in the BTreeMap's key order). The percent-encoders, the URI parser and the query
// parser are foreign crates: uninterpreted functions.
use std::collections::BTreeSet;
verus! {

//@@ include ../common/vec_specs.rs
use vstd::std_specs::hash::*;
pub uninterp spec fn lower(s: Seq<char>) -> Seq<char>;
pub assume_specification [str::to_lowercase] (s: &str) -> (r: std::string::String) ensures r@ == lower(s@);
#[verifier::external_body] pub proof fn axiom_string_ext() ensures forall|a: String, b: String| #[trigger] a@ == #[trigger] b@ ==> a == b {}
#[verifier::external_body] pub broadcast proof fn axiom_string_key_model() ensures #[trigger] obeys_key_model::<String>() {}
#[verifier::external_body] pub broadcast proof fn axiom_string_cmp() ensures #[trigger] vstd::std_specs::btree::key_obeys_cmp_spec::<String>() {}

//@@ item src/router_config.rs :: struct RouterConfig
//@@ item src/http/query.rs :: struct PathAndQueryWithSkipped
// ---- SHIMS / outlines for the foreign crates (http::uri::PathAndQuery, url::form_urlencoded, percent_encoding): uninterpreted functions
pub uninterp spec fn sanitized(s: Seq<char>) -> Seq<char>;
pub uninterp spec fn pq_parse(s: Seq<char>) -> Option<(Seq<char>, Option<Seq<char>>)>;     // (path, query)
pub uninterp spec fn qmap(q: Seq<char>) -> Map<String, String>;                             // decoded key -> value (last wins)
pub uninterp spec fn enc_q(s: Seq<char>) -> Seq<char>;                                      // utf8_percent_encode(.., QUERY_ENCODE_SET)
#[verifier::external_body] pub fn sanitize_url(path_and_query_str: &str) -> (r: String) ensures r@ == sanitized(path_and_query_str@) { unimplemented!() }
#[verifier::external_body] pub struct PathAndQuery { x: u8 }
#[verifier::external_body] pub struct InvalidUri { x: u8 }
pub uninterp spec fn pq_val(p: PathAndQuery) -> (Seq<char>, Option<Seq<char>>);
pub open spec fn opt_chars(o: Option<&str>) -> Option<Seq<char>> { match o { Some(s) => Some(s@), None => None } }
impl PathAndQuery {
    #[verifier::external_body] pub fn path(&self) -> (r: &str) ensures r@ == pq_val(*self).0 { unimplemented!() }
    #[verifier::external_body] pub fn query(&self) -> (r: Option<&str>) ensures opt_chars(r) == pq_val(*self).1 { unimplemented!() }
}
#[verifier::external_body]
pub fn outl_parse_pq(url: &String) -> (r: std::result::Result<PathAndQuery, InvalidUri>)
    ensures match r { Ok(p) => pq_parse(url@) == Some(pq_val(p)), Err(_) => pq_parse(url@) is None },
{ /* verbatim: url.parse() */ unimplemented!() }
#[verifier::external_body]
pub fn outl_parse_query(query: &str) -> (r: BTreeMap<String, String>) ensures r@ == qmap(query@)
{ /* verbatim: parse_query(query.as_bytes()).into_owned().collect() */ unimplemented!() }
#[verifier::external_body]
pub fn outl_enc_q(s: &String) -> (r: String) ensures r@ == enc_q(s@)
{ /* verbatim: utf8_percent_encode(key, QUERY_ENCODE_SET).to_string() | utf8_percent_encode(value, QUERY_ENCODE_SET).to_string() */ unimplemented!() }

// the file's other encode set (URL_ENCODE_SET: the same without '+'): a different function, nothing else known -- so code that encodes a key or a
// value with it is seen as doing so and cannot be proved to render enc_q
pub uninterp spec fn enc_u(s: Seq<char>) -> Seq<char>;
#[verifier::external_body]
pub fn outl_enc_u(s: &String) -> (r: String) ensures r@ == enc_u(s@)
{ /* verbatim: utf8_percent_encode(key, URL_ENCODE_SET).to_string() | utf8_percent_encode(value, URL_ENCODE_SET).to_string() */ unimplemented!() }

// ---- reference rendering (statement): parameters in the map's key order, `key` or `key=value`, joined by '&'; the marketing keys go to
// the skipped list, all others to the matching query
pub open spec fn param(k: String, v: String) -> Seq<char> { enc_q(k@) + (if v@.len() > 0 { seq!['='] + enc_q(v@) } else { Seq::<char>::empty() }) }
pub open spec fn render(es: Seq<(String, String)>, mk: Set<String>, marketing: bool) -> Seq<char>
    decreases es.len()
{
    if es.len() == 0 { Seq::empty() } else {
        let p = render(es.drop_last(), mk, marketing);
        let e = es.last();
        if mk.contains(e.0) == marketing { if p.len() > 0 { p + seq!['&'] + param(e.0, e.1) } else { param(e.0, e.1) } } else { p }
    }
}
// es is an enumeration of the map without repetition
pub open spec fn enumerates(es: Seq<(String, String)>, m: Map<String, String>) -> bool {
    &&& es.len() == m.len()
    &&& forall|i: int| 0 <= i < es.len() ==> m.contains_key(#[trigger] es[i].0) && m[es[i].0] == es[i].1
    &&& forall|i: int, j: int| 0 <= i < j < es.len() ==> (#[trigger] es[i]).0 != (#[trigger] es[j]).0
}
pub open spec fn with_q(path: Seq<char>, q: Seq<char>) -> Seq<char> { if q.len() > 0 { path + seq!['?'] + q } else { path } }
pub open spec fn fold_case(flag: bool, s: Seq<char>) -> Seq<char> { if flag { lower(s) } else { s } }
pub open spec fn plain(config: RouterConfig, s: Seq<char>, r: PathAndQueryWithSkipped) -> bool {
    r.path_and_query@ == sanitized(s) && r.skipped_query_params is None && r.original@ == s
    && (r.path_and_query_matching matches Some(m) && m@ == fold_case(config.ignore_path_and_query_case, sanitized(s)))
}
// statement: marketing parameters are set aside only when the configuration says so; under EVERY configuration the query is rebuilt from the
// decoded parameter map (so its order in the request is irrelevant)
pub open spec fn eff_mk(config: RouterConfig) -> Set<String> { if config.ignore_marketing_query_params { config.marketing_query_params@ } else { Set::empty() } }
pub open spec fn skipped_ok(config: RouterConfig, r: PathAndQueryWithSkipped, es: Seq<(String, String)>) -> bool {
    if config.pass_marketing_query_params_to_target && render(es, eff_mk(config), true).len() > 0
        { r.skipped_query_params matches Some(sk) && sk@ == render(es, eff_mk(config), true) } else { r.skipped_query_params is None }
}
pub open spec fn canonical(config: RouterConfig, s: Seq<char>, r: PathAndQueryWithSkipped, path: Seq<char>, query: Option<Seq<char>>) -> bool {
    &&& r.original@ == s
    &&& r.path_and_query_matching matches Some(m) && m@ == fold_case(config.ignore_path_and_query_case, r.path_and_query@)
    &&& match query {
        None => r.path_and_query@ == path && r.skipped_query_params is None,
        Some(q) => exists|es: Seq<(String, String)>| #[trigger] enumerates(es, qmap(q))
            // marketing parameters are ignored for matching ...
            && r.path_and_query@ == with_q(path, render(es, eff_mk(config), false))
            // ... and forwarded to the target only when so configured
            && skipped_ok(config, r, es),
    }
}

// statement: "matching does not depend ... on ASCII letter case when case-insensitivity is configured" together with "... on the order of query
// parameters": under ignore_path_and_query_case the matching form is DETERMINED BY THE CASE-FOLDED URL — it is the canonical rendering (parameter map of
// the folded URL, marketing keys set aside) of lower(sanitized(s)), folded once more (percent-escapes are re-encoded in upper case). Two spellings of one
// URL that differ only in letter case then have the same matching form whatever order their keys sort in as written.
pub open spec fn ci_canonical(config: RouterConfig, s: Seq<char>, r: PathAndQueryWithSkipped) -> bool {
    let u = lower(sanitized(s));
    r.path_and_query_matching matches Some(m) && match pq_parse(u) {
        None => m@ == lower(u),
        Some(pv) => match pv.1 {
            None => m@ == lower(pv.0),
            Some(q) => exists|es: Seq<(String, String)>| #[trigger] enumerates(es, qmap(q)) && m@ == lower(with_q(pv.0, render(es, eff_mk(config), false))),
        },
    }
}
// C09 "marketing parameters are ignored for matching": the matching query is the rendering of the NON-marketing entries alone — a
// marketing parameter (any value, any number of them) contributes nothing to it; dually the skipped list only sees marketing entries
pub open spec fn only(es: Seq<(String, String)>, mk: Set<String>, marketing: bool) -> Seq<(String, String)>
    decreases es.len()
{ if es.len() == 0 { Seq::empty() } else { let p = only(es.drop_last(), mk, marketing); if mk.contains(es.last().0) == marketing { p.push(es.last()) } else { p } } }
pub proof fn c09_marketing_ignored(es: Seq<(String, String)>, mk: Set<String>, marketing: bool)
    ensures render(es, mk, marketing) == render(only(es, mk, marketing), mk, marketing),
        forall|i: int| 0 <= i < only(es, mk, marketing).len() ==> mk.contains(#[trigger] only(es, mk, marketing)[i].0) == marketing,
    decreases es.len(),
{
    if es.len() > 0 {
        c09_marketing_ignored(es.drop_last(), mk, marketing);
        let p = only(es.drop_last(), mk, marketing);
        if mk.contains(es.last().0) == marketing { assert(p.push(es.last()).drop_last() =~= p); }
    }
}
impl PathAndQueryWithSkipped {
    //@@ fn src/http/query.rs :: impl PathAndQueryWithSkipped / fn from_config -> r
    //@| ensures pq_parse(sanitized(path_and_query_str@)) is None ==> plain(*config, path_and_query_str@, r),
    //@|     pq_parse(sanitized(path_and_query_str@)) matches Some(pv) ==> canonical(*config, path_and_query_str@, r, pv.0, pv.1),
    //@|     config.ignore_path_and_query_case ==> ci_canonical(*config, path_and_query_str@, r),
    //@| outline `url.parse()` => `outl_parse_pq(&url)`
    //@| outline `parse_query(query.as_bytes()).into_owned().collect()` => `outl_parse_query(query)`
    //@| outline `utf8_percent_encode(key, QUERY_ENCODE_SET).to_string()` => `outl_enc_q(key)` || `utf8_percent_encode(key, URL_ENCODE_SET).to_string()` => `outl_enc_u(key)`
    //@| outline `utf8_percent_encode(value, QUERY_ENCODE_SET).to_string()` => `outl_enc_q(value)` || `utf8_percent_encode(value, URL_ENCODE_SET).to_string()` => `outl_enc_u(value)`
    //@| exit proof { if pq_parse(sanitized(path_and_query_str@)) is Some { let pv = pq_parse(sanitized(path_and_query_str@)).unwrap(); if pv.1 is Some { let q = pv.1.unwrap(); assert(exists|es: Seq<(String, String)>| #[trigger] enumerates(es, qmap(q)) && vf_ret.path_and_query@ == with_q(pv.0, render(es, eff_mk(*config), false)) && skipped_ok(*config, vf_ret, es)); } } }
    //@| opt r5:0
    //@| opt r6:0
    //@| attr #[verifier::loop_isolation(false)]
    //@| entry broadcast use group_hash_axioms; broadcast use axiom_string_key_model; broadcast use vstd::std_specs::btree::group_btree_axioms; broadcast use axiom_string_cmp;
    //@|     let ghost mk = eff_mk(*config); proof { axiom_string_ext(); lit_empty(); }
    //@| loopbefore 0: let ghost qm = hash_query@; let ghost es = ents(vf_it0_rem0);
    //@| loop 0: invariant 0 <= vf_it0_idx <= vf_it0_rem0.len(), vf_it0.remaining() == vf_it0_rem0.skip(vf_it0_idx), vf_it0_rem0.len() == qm.len(), es == ents(vf_it0_rem0),
    //@|     query_string@ == render(es.take(vf_it0_idx), mk, false),
    //@|     skipped_query_params@ == render(es.take(vf_it0_idx), mk, true),
    //@|     decreases qm.len() - vf_it0_idx,
    //@| loophead 0: let ghost k = vf_it0_idx - 1;
    //@|     proof { assert(es[k] == (*key, *value)); assert(es.take(k + 1).drop_last() =~= es.take(k)); assert(es.take(k + 1).last() == es[k]); }
    //@| before `if !query_string.is_empty() {`#1: let ghost p0 = new_path_and_query@; let ghost esg = choose|e: Seq<(String, String)>| #[trigger] enumerates(e, hash_query@) && query_string@ == render(e, mk, false) && skipped_query_params@ == render(e, mk, true);
    //@|     proof { assert(hash_query@ == qmap(query@)); if query_string@.len() == 0 { assert(enumerates(esg, qmap(query@)) && new_path_and_query@ == with_q(p0, render(esg, mk, false)) && skipped_query_params@ == render(esg, mk, true)); } }
    //@| after `new_path_and_query.push_str(query_string.as_str());`: proof { assert(new_path_and_query@ =~= p0 + seq!['?'] + query_string@); assert(enumerates(esg, qmap(query@)) && new_path_and_query@ == with_q(p0, render(esg, mk, false)) && skipped_query_params@ == render(esg, mk, true)); }
    //@| loopend 0: proof { assert(es.take(es.len() as int) =~= es);
    //@|     assert(es.len() == qm.len());
    //@|     assert forall|i: int| 0 <= i < es.len() implies qm.contains_key(#[trigger] es[i].0) && qm[es[i].0] == es[i].1 by { assert(es[i] == (*vf_it0_rem0[i].0, *vf_it0_rem0[i].1)); }
    //@|     assert forall|i: int, j: int| 0 <= i < j < es.len() implies (#[trigger] es[i]).0 != (#[trigger] es[j]).0 by { assert(es[i].0 == *vf_it0_rem0[i].0 && es[j].0 == *vf_it0_rem0[j].0); }
    //@|     assert(enumerates(es, qm));
    //@|     assert(exists|e: Seq<(String, String)>| #[trigger] enumerates(e, hash_query@) && query_string@ == render(e, mk, false) && skipped_query_params@ == render(e, mk, true)); }
}
// ---- rule side of the same canonical form: Request::build_sorted_query (used by api::Rule::path_and_query for the rule's query)
// every parameter followed by '&' (the loop of build_sorted_query before the final pop)
pub open spec fn render_amp(es: Seq<(String, String)>) -> Seq<char>
    decreases es.len()
{ if es.len() == 0 { Seq::empty() } else { render_amp(es.drop_last()) + param(es.last().0, es.last().1) + seq!['&'] } }
pub open spec fn no_empty_param(es: Seq<(String, String)>) -> bool { forall|i: int| 0 <= i < es.len() ==> param((#[trigger] es[i]).0, es[i].1).len() > 0 }
pub proof fn lemma_render_amp(es: Seq<(String, String)>)
    requires no_empty_param(es),
    ensures es.len() > 0 ==> render(es, Set::<String>::empty(), false).len() > 0,
        es.len() > 0 ==> render_amp(es).len() > 0 && render_amp(es).last() == '&' && render_amp(es).drop_last() == render(es, Set::<String>::empty(), false),
        es.len() == 0 ==> render_amp(es).len() == 0 && render(es, Set::<String>::empty(), false).len() == 0,
    decreases es.len(),
{
    if es.len() > 0 {
        let d = es.drop_last(); let e = es.last(); let mk = Set::<String>::empty();
        assert(no_empty_param(d)) by { assert forall|i: int| 0 <= i < d.len() implies param((#[trigger] d[i]).0, d[i].1).len() > 0 by { assert(d[i] == es[i]); } }
        lemma_render_amp(d);
        let p = render(d, mk, false);
        assert(param(e.0, e.1).len() > 0) by { assert(es[es.len() - 1] == e); }
        assert(mk.contains(e.0) == false);
        if d.len() > 0 {
            assert(render_amp(d).drop_last() == p);
            assert(render_amp(d) =~= p + seq!['&']);
            assert(p.len() > 0 || p.len() == 0);
            assert((render_amp(d) + param(e.0, e.1) + seq!['&']).drop_last() =~= p + seq!['&'] + param(e.0, e.1));
            if p.len() == 0 { assert(p + seq!['&'] + param(e.0, e.1) =~= seq!['&'] + param(e.0, e.1)); }
        } else {
            assert((render_amp(d) + param(e.0, e.1) + seq!['&']).drop_last() =~= param(e.0, e.1));
        }
    }
}
pub open spec fn amp_ok(es: Seq<(String, String)>) -> bool {
    (es.len() > 0 ==> render(es, Set::<String>::empty(), false).len() > 0 && render_amp(es).len() > 0 && render_amp(es).last() == '&' && render_amp(es).drop_last() == render(es, Set::<String>::empty(), false))
    && (es.len() == 0 ==> render_amp(es).len() == 0 && render(es, Set::<String>::empty(), false).len() == 0)
}
// (the iterator's remaining() is prophetic in this vstd and cannot be passed to a lemma: quantified form)
pub proof fn lemma_render_amp_all()
    ensures forall|es: Seq<(String, String)>| no_empty_param(es) ==> #[trigger] amp_ok(es),
{
    assert forall|es: Seq<(String, String)>| no_empty_param(es) implies #[trigger] amp_ok(es) by { lemma_render_amp(es); }
}
pub struct Request { }
impl Request {
    // the rule's query in the SAME canonical form as the request side: the decoded parameters in key order, `key` or `key=value`, joined by '&'
    // (a parameter whose key and value are both empty renders as nothing; the two sides then differ by a stray '&' — excluded here)
    //@@ fn src/http/request.rs :: impl Request / fn build_sorted_query -> r
    //@| ensures exists|es: Seq<(String, String)>| #[trigger] enumerates(es, qmap(query@)) && (no_empty_param(es) ==> match r { Some(q) => q@ == render(es, Set::<String>::empty(), false) && q@.len() > 0, None => render(es, Set::<String>::empty(), false).len() == 0 }),
    //@| outline `parse_query(query.as_bytes()).into_owned().collect()` => `outl_parse_query(query)`
    //@| outline `utf8_percent_encode(key, QUERY_ENCODE_SET).to_string()` => `outl_enc_q(key)` || `utf8_percent_encode(key, URL_ENCODE_SET).to_string()` => `outl_enc_u(key)`
    //@| outline `utf8_percent_encode(value, QUERY_ENCODE_SET).to_string()` => `outl_enc_q(value)` || `utf8_percent_encode(value, URL_ENCODE_SET).to_string()` => `outl_enc_u(value)`
    //@| opt r5:0
    //@| opt r6:0
    //@| attr #[verifier::loop_isolation(false)]
    //@| entry broadcast use group_hash_axioms; broadcast use axiom_string_key_model; broadcast use vstd::std_specs::btree::group_btree_axioms; broadcast use axiom_string_cmp;
    //@|     proof { axiom_string_ext(); lit_empty(); }
    //@| loopbefore 0: let ghost qm = hash_query@; let ghost es = ents(vf_it0_rem0);
    //@| loop 0: invariant 0 <= vf_it0_idx <= vf_it0_rem0.len(), vf_it0.remaining() == vf_it0_rem0.skip(vf_it0_idx), vf_it0_rem0.len() == qm.len(), es == ents(vf_it0_rem0),
    //@|     query_string@ == render_amp(es.take(vf_it0_idx)),
    //@|     decreases qm.len() - vf_it0_idx,
    //@| loophead 0: let ghost k = vf_it0_idx - 1; let ghost q0 = query_string@;
    //@|     proof { assert(es[k] == (*key, *value)); assert(es.take(k + 1).drop_last() =~= es.take(k)); assert(es.take(k + 1).last() == es[k]); }
    //@| looptail 0: proof { assert(query_string@ =~= q0 + param(*key, *value) + seq!['&']); }
    //@| loopend 0: proof { assert(es.take(es.len() as int) =~= es);
    //@|     assert(es.len() == qm.len());
    //@|     assert forall|i: int| 0 <= i < es.len() implies qm.contains_key(#[trigger] es[i].0) && qm[es[i].0] == es[i].1 by { assert(es[i] == (*vf_it0_rem0[i].0, *vf_it0_rem0[i].1)); }
    //@|     assert forall|i: int, j: int| 0 <= i < j < es.len() implies (#[trigger] es[i]).0 != (#[trigger] es[j]).0 by { assert(es[i].0 == *vf_it0_rem0[i].0 && es[j].0 == *vf_it0_rem0[j].0); }
    //@|     assert(enumerates(es, qm)); lemma_render_amp_all(); assert(no_empty_param(es) ==> amp_ok(es)); }
}
pub open spec fn ents(rem: Seq<(&String, &String)>) -> Seq<(String, String)> { Seq::new(rem.len(), |i: int| (*rem[i].0, *rem[i].1)) }

// ---- PINS: functions of /repo this unit (or the property it serves) only ASSUMES something about — a hand-written shim stands for them, or nothing at
// all does. The assumption was made for one text of each; the token hash ties it to that text: a change makes the unit UNDECIDED (exit 2), never OK.
//@@ pin src/api/rule.rs :: impl Rule / fn path_and_query = 9c0c543b0a83
//@@ strlits
} // verus!
fn main() {}

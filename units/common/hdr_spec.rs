// ---- shared specification of header filtering (C13), included by units `hdr` (where it is proved of the code) and `act` (where the
// proved contracts of FilterHeaderAction::{new,filter} are used as assumed contracts of the foreign type)
pub uninterp spec fn spec_lower(s: Seq<char>) -> Seq<char>;
// ---------------------------------------------------------------- reference semantics, written from the statement of C13
pub type H = (Seq<char>, Seq<char>);
pub type HV = Seq<H>;
pub open spec fn hview(h: Header) -> H { (h.name@, h.value@) }
pub open spec fn hsview(hs: Seq<Header>) -> HV { hs.map_values(|h: Header| hview(h)) }
pub open spec fn ci(a: Seq<char>, b: Seq<char>) -> bool { spec_lower(a) == spec_lower(b) }
pub open spec fn has(hs: HV, n: Seq<char>) -> bool { exists|i: int| 0 <= i < hs.len() && ci(#[trigger] hs[i].0, n) }

pub open spec fn ref_add(hs: HV, n: Seq<char>, v: Seq<char>) -> HV { hs.push((n, v)) }
// remove: delete all occurrences (order of the others kept)
pub open spec fn ref_remove(hs: HV, n: Seq<char>) -> HV
    decreases hs.len()
{
    if hs.len() == 0 { Seq::empty() } else {
        let p = ref_remove(hs.drop_last(), n);
        if ci(hs.last().0, n) { p } else { p.push(hs.last()) }
    }
}
// replace: rewrite existing occurrences only, in place
pub open spec fn ref_replace(hs: HV, n: Seq<char>, v: Seq<char>) -> HV { hs.map_values(|h: H| if ci(h.0, n) { (n, v) } else { h }) }
pub open spec fn ref_override(hs: HV, n: Seq<char>, v: Seq<char>) -> HV { if has(hs, n) { ref_replace(hs, n, v) } else { hs.push((n, v)) } }
pub open spec fn ref_default(hs: HV, n: Seq<char>, v: Seq<char>) -> HV { if has(hs, n) { hs } else { hs.push((n, v)) } }

// what a filter description means (statement: unknown operations are ignored)
pub open spec fn filter_known(f: HeaderFilter) -> bool {
    f.action@ == "add"@ || f.action@ == "remove"@ || f.action@ == "replace"@ || f.action@ == "override"@ || f.action@ == "default"@
}
pub open spec fn filter_op(f: HeaderFilter, hs: HV) -> HV {
    if f.action@ == "add"@ { ref_add(hs, f.header@, f.value@) }
    else if f.action@ == "remove"@ { ref_remove(hs, f.header@) }
    else if f.action@ == "replace"@ { ref_replace(hs, f.header@, f.value@) }
    else if f.action@ == "override"@ { ref_override(hs, f.header@, f.value@) }
    else if f.action@ == "default"@ { ref_default(hs, f.header@, f.value@) }
    else { hs }
}

// reference: fold of the reference operations over the filter descriptions, in order, unknown ones ignored
pub open spec fn fold_filters(fs: Seq<HeaderFilter>, hs: HV) -> HV
    decreases fs.len()
{
    if fs.len() == 0 { hs } else { filter_op(fs.last(), fold_filters(fs.drop_last(), hs)) }
}
pub open spec fn any_known(fs: Seq<HeaderFilter>) -> bool { exists|i: int| 0 <= i < fs.len() && filter_known(#[trigger] fs[i]) }


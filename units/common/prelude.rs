// ---- common prelude (hand-written, trusted where marked): included by every unit
#![feature(pattern, allocator_api)]
#![allow(unused_imports, unused_variables, dead_code, unused_mut, unused_macros, unreachable_code, unused_assignments, non_snake_case, unused_parens, unused_braces)]
use vstd::prelude::*;
use vstd::string::StringSliceAdditionalSpecFns;
use vstd::std_specs::iter::IteratorSpec;
use std::collections::HashMap;
use std::collections::BTreeMap;
use std::collections::HashSet;

// R9: logging macros of foreign crates expand to nothing (side effects dropped, arguments not evaluated)
macro_rules! __vf_nop { ($($t:tt)*) => { () } }
pub(crate) use __vf_nop;
mod log {
    pub(crate) use crate::__vf_nop as error;
    pub(crate) use crate::__vf_nop as warn;
    pub(crate) use crate::__vf_nop as debug;
    pub(crate) use crate::__vf_nop as info;
    pub(crate) use crate::__vf_nop as trace;
}
mod tracing {
    pub(crate) use crate::__vf_nop as error;
    pub(crate) use crate::__vf_nop as warn;
    pub(crate) use crate::__vf_nop as debug;
    pub(crate) use crate::__vf_nop as info;
    pub(crate) use crate::__vf_nop as trace;
}
verus! {
// for-loop ghost iterator bookkeeping (vstd's prophetic iterator model): history is the prefix of the
// remaining() sequence fixed at loop entry
pub open spec fn iter_ok<T>(hist: Seq<T>, idx: int, rem: Seq<T>, all: Seq<T>) -> bool {
    rem == all && 0 <= idx <= rem.len() && hist =~= rem.take(idx)
}
} // verus!
verus! {
pub open spec fn iter_ref_ok<T>(hist: Seq<&T>, idx: int, rem: Seq<&T>, all: Seq<T>) -> bool {
    rem.len() == all.len() && (forall|i: int| 0 <= i < rem.len() ==> *#[trigger] rem[i] == all[i]) && 0 <= idx <= rem.len() && hist =~= rem.take(idx)
}
} // verus!
verus! {
// ASSUMED (trusted, listed): a str is determined by its characters (needed for `match` on string-literal patterns, which Verus models
// as equality of str values)
#[verifier::external_body]
pub proof fn axiom_str_ext() ensures forall|a: &str, b: &str| #[trigger] a@ == #[trigger] b@ ==> a == b {}
} // verus!

// ---- assumed std specs shared by several units (trusted, listed)
// Vec::extend(iter): appends the elements the iterator yields; `iter_seq` names that sequence, with the defining axiom for Vec arguments
pub uninterp spec fn iter_seq<T, I>(i: I) -> Seq<T>;
pub assume_specification<T, A: std::alloc::Allocator, I: std::iter::IntoIterator<Item = T>> [<std::vec::Vec<T, A> as std::iter::Extend<T>>::extend] (v: &mut std::vec::Vec<T, A>, i: I)
    ensures final(v)@ == old(v)@ + iter_seq::<T, I>(i);
#[verifier::external_body]
pub broadcast proof fn axiom_iter_seq_vec<T>(v: Vec<T>)
    ensures #[trigger] iter_seq::<T, Vec<T>>(v) == v@,
{}
pub assume_specification [std::string::String::into_bytes] (s: std::string::String) -> (r: std::vec::Vec<u8>)
    ensures r@ == vstd::utf8::encode_utf8(s@);
pub assume_specification [std::string::String::as_bytes] (s: &std::string::String) -> (r: &[u8])
    ensures r@ == vstd::utf8::encode_utf8(s@);
pub assume_specification [std::string::String::len] (s: &std::string::String) -> (r: usize)
    ensures r == vstd::utf8::encode_utf8(s@).len();

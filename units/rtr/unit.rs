//@@ include ../common/prelude.rs
// Unit `rtr` — properties C01 (matching exact), C17 (trace agrees), C02 (incremental == rebuild), feeds C07
verus! {

// ================================================================ foreign crate shims (chrono, cidr): opaque values with uninterpreted observers
#[verifier::external_body] pub struct NaiveTime { x: u8 }
#[verifier::external_body] pub struct NaiveDateTime { x: u8 }
#[verifier::external_body] pub struct Utc { x: u8 }
#[verifier::external_body] #[verifier::accept_recursive_types(Tz)] pub struct DateTime<Tz> { x: std::marker::PhantomData<Tz> }
#[verifier::external_body] pub struct Weekday { x: u8 }
#[verifier::external_body] pub struct AnyIpCidr { x: u8 }
#[verifier::external_body] pub struct IpAddr { x: u8 }
impl Clone for NaiveTime { #[verifier::external_body] fn clone(&self) -> (r: Self) ensures r == *self { unimplemented!() } }
impl Copy for NaiveTime {}
impl Clone for NaiveDateTime { #[verifier::external_body] fn clone(&self) -> (r: Self) ensures r == *self { unimplemented!() } }
impl Copy for NaiveDateTime {}
// chrono: times / datetimes are totally ordered by an integer key (trusted, listed)
pub uninterp spec fn time_key(t: NaiveTime) -> int;
pub uninterp spec fn datetime_key(t: NaiveDateTime) -> int;
pub uninterp spec fn dt_naive(d: DateTime<Utc>) -> NaiveDateTime;
pub uninterp spec fn ndt_time(d: NaiveDateTime) -> NaiveTime;
pub uninterp spec fn dt_weekday(d: DateTime<Utc>) -> Weekday;
pub uninterp spec fn cidr_contains(c: AnyIpCidr, ip: IpAddr) -> bool;
impl DateTime<Utc> {
    #[verifier::external_body] pub fn naive_utc(&self) -> (r: NaiveDateTime) ensures r == dt_naive(*self) { unimplemented!() }
    #[verifier::external_body] pub fn weekday(&self) -> (r: Weekday) ensures r == dt_weekday(*self) { unimplemented!() }
}
impl NaiveDateTime {
    #[verifier::external_body] pub fn time(&self) -> (r: NaiveTime) ensures r == ndt_time(*self) { unimplemented!() }
}
impl AnyIpCidr {
    #[verifier::external_body] pub fn contains(&self, ip: &IpAddr) -> (r: bool) ensures r == cidr_contains(*self, *ip) { unimplemented!() }
}
// comparison operators of the shim types are given their chrono meaning through vstd's PartialOrd spec traits (trusted, listed)
use std::cmp::Ordering;
pub open spec fn key_cmp(a: int, b: int) -> Option<Ordering> { if a < b { Some(Ordering::Less) } else if a > b { Some(Ordering::Greater) } else { Some(Ordering::Equal) } }
impl PartialEq for NaiveTime { #[verifier::external_body] fn eq(&self, o: &Self) -> (r: bool) ensures r == (time_key(*self) == time_key(*o)) { unimplemented!() } }
impl vstd::std_specs::cmp::PartialOrdSpecImpl for NaiveTime {
    open spec fn obeys_partial_cmp_spec() -> bool { true }
    open spec fn partial_cmp_spec(&self, o: &Self) -> Option<Ordering> { key_cmp(time_key(*self), time_key(*o)) }
}
impl PartialOrd for NaiveTime { #[verifier::external_body] fn partial_cmp(&self, o: &Self) -> (r: Option<Ordering>) { unimplemented!() } }
impl PartialEq for NaiveDateTime { #[verifier::external_body] fn eq(&self, o: &Self) -> (r: bool) ensures r == (datetime_key(*self) == datetime_key(*o)) { unimplemented!() } }
impl vstd::std_specs::cmp::PartialOrdSpecImpl for NaiveDateTime {
    open spec fn obeys_partial_cmp_spec() -> bool { true }
    open spec fn partial_cmp_spec(&self, o: &Self) -> Option<Ordering> { key_cmp(datetime_key(*self), datetime_key(*o)) }
}
impl PartialOrd for NaiveDateTime { #[verifier::external_body] fn partial_cmp(&self, o: &Self) -> (r: Option<Ordering>) { unimplemented!() } }
impl Eq for NaiveTime {}
impl Ord for NaiveTime { #[verifier::external_body] fn cmp(&self, o: &Self) -> Ordering { unimplemented!() } }
impl Eq for NaiveDateTime {}
impl Ord for NaiveDateTime { #[verifier::external_body] fn cmp(&self, o: &Self) -> Ordering { unimplemented!() } }
impl Eq for Weekday {}
impl PartialEq for Weekday { #[verifier::external_body] fn eq(&self, o: &Self) -> (r: bool) ensures r == (*self == *o) { unimplemented!() } }
// used only at element types whose PartialEq is structural equality
pub assume_specification<T: PartialEq> [<[T]>::contains] (s: &[T], x: &T) -> (r: bool) ensures r == s@.contains(*x);

// ================================================================ trigger predicates (C01): written from the statement
//@@ item src/router/route_ip.rs :: enum RouteIp
//@@ item src/router/route_time.rs :: struct RouteTime
//@| opt keepderive:PartialEq,Eq,PartialOrd,Ord
//@@ item src/router/route_datetime.rs :: struct RouteDateTime
//@| opt keepderive:PartialEq,Eq,PartialOrd,Ord
//@@ item src/router/route_weekday.rs :: struct Weekdays
//@| opt keepderive:PartialEq,Eq
//@@ item src/router/route_weekday.rs :: struct RouteWeekday
//@| opt keepderive:PartialEq,Eq,PartialOrd,Ord
// Weekdays has a hand-written Ord (iterator adapters): assumed total order (only used as a BTreeMap key component)
impl Ord for Weekdays { #[verifier::external_body] fn cmp(&self, other: &Self) -> Ordering { unimplemented!() } }
impl PartialOrd for Weekdays { #[verifier::external_body] fn partial_cmp(&self, other: &Self) -> Option<Ordering> { unimplemented!() } }
// the REAL text of that comparison is extracted too (as an inherent method, R7), with its iterator-adapter body outlined: nothing is proved
// about it (assumed: lexicographic comparison of the day numbers, a total order), but any change to it loses the outline anchor and the
// unit is then rejected (undecided) instead of silently keeping the assumption
pub uninterp spec fn wd_cmp(a: Weekdays, b: Weekdays) -> Ordering;
#[verifier::external_body]
pub fn outl_weekdays_cmp(a: &Weekdays, b: &Weekdays) -> (r: Ordering) ensures r == wd_cmp(*a, *b)
{ /* verbatim: let self_num = self.0.iter().map(|weekday| weekday.num_days_from_monday()); let other_num = other.0.iter().map(|weekday| weekday.num_days_from_monday()); self_num.cmp(other_num) */ unimplemented!() }
impl Weekdays {
    //@@ fn src/router/route_weekday.rs :: impl Ord for Weekdays / fn cmp -> r
    //@| ensures r == wd_cmp(*self, *other),
    //@| outline `let self_num = self.0.iter().map(|weekday| weekday.num_days_from_monday()); let other_num = other.0.iter().map(|weekday| weekday.num_days_from_monday()); self_num.cmp(other_num)` => `outl_weekdays_cmp(self, other)`
}

// a window [start, end) with open sides: start inclusive, end exclusive
pub open spec fn in_window(start: Option<int>, end: Option<int>, t: int) -> bool {
    (start matches Some(s) ==> t >= s) && (end matches Some(e) ==> t < e)
}
pub open spec fn okey_t(o: Option<NaiveTime>) -> Option<int> { match o { Some(t) => Some(time_key(t)), None => None } }
pub open spec fn okey_d(o: Option<NaiveDateTime>) -> Option<int> { match o { Some(t) => Some(datetime_key(t)), None => None } }
pub open spec fn sat_ip(r: RouteIp, ip: IpAddr) -> bool { match r { RouteIp::InRange(c) => cidr_contains(c, ip), RouteIp::NotInRange(c) => !cidr_contains(c, ip) } }
pub open spec fn sat_time(r: RouteTime, d: DateTime<Utc>) -> bool { in_window(okey_t(r.start), okey_t(r.end), time_key(ndt_time(dt_naive(d)))) }
pub open spec fn sat_datetime(r: RouteDateTime, d: DateTime<Utc>) -> bool { in_window(okey_d(r.start), okey_d(r.end), datetime_key(dt_naive(d))) }
pub open spec fn sat_weekday(r: RouteWeekday, d: DateTime<Utc>) -> bool { r.weekdays.0@.contains(dt_weekday(d)) }

impl RouteIp {
    //@@ fn src/router/route_ip.rs :: impl RouteIp / fn match_ip -> r
    //@| ensures r == sat_ip(*self, *ip),
}
impl RouteTime {
    //@@ fn src/router/route_time.rs :: impl RouteTime / fn match_datetime -> r
    //@| ensures r == sat_time(*self, *datetime),
}
impl RouteDateTime {
    //@@ fn src/router/route_datetime.rs :: impl RouteDateTime / fn match_datetime -> r
    //@| ensures r == sat_datetime(*self, *datetime),
}
impl RouteWeekday {
    //@@ fn src/router/route_weekday.rs :: impl RouteWeekday / fn match_datetime -> r
    //@| ensures r == sat_weekday(*self, *datetime),
}

// ================================================================ layers (C01): each layer's match_request against the layer below, given as an abstract answer
use std::sync::Arc;
use vstd::multiset::Multiset;
use vstd::std_specs::hash::*;
//@@ include ../common/vec_specs.rs
#[verifier::external_body] #[verifier::accept_recursive_types(T)] pub struct Route<T> { h: std::marker::PhantomData<T> }
#[verifier::external_body] pub struct RouterConfig { x: u8 }
// http::Request (src/http/request.rs): only what the layers read
// http::Request and the accessors the layers use — extracted (src/http/request.rs, src/http/query.rs, src/http/header.rs)
//@@ item src/http/header.rs :: struct Header
//@@ item src/http/query.rs :: struct PathAndQueryWithSkipped
//@@ item src/http/request.rs :: struct Request
pub open spec fn ostring_view(o: Option<String>) -> Option<Seq<char>> { match o { Some(s) => Some(s@), None => None } }
pub open spec fn ostr_ref(o: Option<&str>) -> Option<Seq<char>> { match o { Some(h) => Some(h@), None => None } }
pub open spec fn req_host(r: Request) -> Option<Seq<char>> { ostring_view(r.host) }
pub open spec fn req_scheme(r: Request) -> Option<Seq<char>> { ostring_view(r.scheme) }
// statement of the request model: a request without method is a GET
pub open spec fn req_method(r: Request) -> Seq<char> { match r.method { Some(m) => m@, None => "GET"@ } }
pub open spec fn req_path(r: Request) -> Seq<char> { match r.path_and_query_skipped.path_and_query_matching { Some(p) => p@, None => r.path_and_query_skipped.path_and_query@ } }
pub uninterp spec fn spec_lower(s: Seq<char>) -> Seq<char>;
pub assume_specification [str::to_lowercase] (s: &str) -> (r: std::string::String) ensures r@ == spec_lower(s@);
// values of the request headers whose lower-cased name equals the lower-cased name asked for, in order
pub open spec fn hdr_values(hs: Seq<Header>, name: Seq<char>) -> Seq<Seq<char>>
    decreases hs.len()
{
    if hs.len() == 0 { Seq::empty() } else {
        let p = hdr_values(hs.drop_last(), name);
        if spec_lower(hs.last().name@) == spec_lower(name) { p.push(hs.last().value@) } else { p }
    }
}
pub open spec fn strs(v: Seq<&str>) -> Seq<Seq<char>> { v.map_values(|s: &str| s@) }
impl Request {
    //@@ fn src/http/request.rs :: impl Request / fn method -> r
    //@| ensures r@ == req_method(*self),
    //@@ fn src/http/request.rs :: impl Request / fn host -> r
    //@| ensures ostr_ref(r) == req_host(*self),
    //@@ fn src/http/request.rs :: impl Request / fn scheme -> r
    //@| ensures ostr_ref(r) == req_scheme(*self),
    //@@ fn src/http/request.rs :: impl Request / fn path_and_query -> r
    //@| ensures r@ == req_path(*self),
    //@@ fn src/http/request.rs :: impl Request / fn header_exists -> r
    //@| ensures r == (hdr_values(self.headers@, name@).len() > 0),
    //@| forlabel 0: it
    //@| loop 0: invariant iter_ref_ok(it.history@, it.index@, it.snapshot@.remaining(), self.headers@), lowercase_name@ == spec_lower(name@),
    //@|         hdr_values(self.headers@.take(it.index@), name@).len() == 0,
    //@| loophead 0: proof { let k = it.index@; assert(*header == self.headers@[k]); assert(self.headers@.take(k + 1).drop_last() =~= self.headers@.take(k)); assert(self.headers@.take(k + 1).last() == self.headers@[k]); }
    //@| before `return true;`: proof { lemma_hdr_values_mono(self.headers@, name@, it.index@ + 1); }
    //@| loopend 0: proof { assert(self.headers@.take(self.headers@.len() as int) =~= self.headers@); }
    //@@ fn src/http/request.rs :: impl Request / fn header_values -> r
    //@| ensures strs(r@) == hdr_values(self.headers@, name@),
    //@| forlabel 0: it
    //@| loop 0: invariant iter_ref_ok(it.history@, it.index@, it.snapshot@.remaining(), self.headers@), lowercase_name@ == spec_lower(name@),
    //@|         strs(values@) == hdr_values(self.headers@.take(it.index@), name@),
    //@| loophead 0: let ghost v0 = values@; proof { let k = it.index@; assert(*header == self.headers@[k]); assert(self.headers@.take(k + 1).drop_last() =~= self.headers@.take(k)); assert(self.headers@.take(k + 1).last() == self.headers@[k]); }
    //@| looptail 0: proof { if values@.len() > v0.len() { assert(strs(values@) =~= strs(v0).push(header.value@)); } }
    //@| loopend 0: proof { assert(self.headers@.take(self.headers@.len() as int) =~= self.headers@); }
}
pub proof fn lemma_hdr_values_mono(hs: Seq<Header>, name: Seq<char>, k: int)
    requires 0 <= k <= hs.len(),
    ensures hdr_values(hs.take(k), name).len() <= hdr_values(hs, name).len(),
    decreases hs.len() - k,
{
    if k < hs.len() {
        lemma_hdr_values_mono(hs, name, k + 1);
        assert(hs.take(k + 1).drop_last() =~= hs.take(k));
    } else { assert(hs.take(k) =~= hs); }
}
// abstract lower layers: each answers a request with a multiset of routes (its own match_request is verified against ITS lower layer)
macro_rules! sub_layer_shim {
    ($name:ident) => {
        verus! {
        #[verifier::external_body] #[verifier::accept_recursive_types(T)] pub struct $name<T> { h: std::marker::PhantomData<T> }
        impl<T> $name<T> {
            pub uninterp spec fn answer(&self, request: Request) -> Multiset<RouteRef<T>>;
            #[verifier::external_body]
            pub fn match_request(&self, request: &Request) -> (r: Vec<RouteRef<T>>) ensures ms_of(r@) == self.answer(*request) { unimplemented!() }
            // C17 contract of a lower layer (verified on that layer's own trace()): the routes stored in its trace forest are its answer
            #[verifier::external_body]
            pub fn trace(&self, request: &Request) -> (r: Vec<Trace<T>>) ensures forest_routes(r@, r@.len() as int) == self.answer(*request) { unimplemented!() }
            #[verifier::external_body]
            pub fn len(&self) -> usize { unimplemented!() }
        }
        }
    };
}
sub_layer_shim!(SubMethod);
sub_layer_shim!(SubHeader);
sub_layer_shim!(SubHost);
sub_layer_shim!(SubPath);
// ASSUMED (trusted, listed): String / RouteIp keys obey the hash-table key model; a String is determined by its characters;
// a &str key finds exactly the String key with the same characters (Borrow<str> for String)
#[verifier::external_body] pub broadcast proof fn axiom_string_key_model() ensures #[trigger] obeys_key_model::<String>() {}
#[verifier::external_body] pub broadcast proof fn axiom_routeip_key_model() ensures #[trigger] obeys_key_model::<RouteIp>() {}
#[verifier::external_body] pub proof fn axiom_string_ext() ensures forall|a: String, b: String| #[trigger] a@ == #[trigger] b@ ==> a == b {}
#[verifier::external_body]
pub broadcast proof fn axiom_borrow_str_contains<V>(m: Map<String, V>, k: &str)
    ensures #[trigger] contains_borrowed_key::<String, V, str>(m, k) == (exists|key: String| key@ == k@ && m.contains_key(key)),
{}
#[verifier::external_body]
pub broadcast proof fn axiom_borrow_str_maps<V>(m: Map<String, V>, k: &str, v: V)
    ensures #[trigger] maps_borrowed_key_to_value::<String, V, str>(m, k, v) == (exists|key: String| key@ == k@ && m.contains_key(key) && m[key] == v),
{}

// ---- the layer below Host: IpMatcher, abstract here (its own match_request is verified further down against ITS sub layer)
pub type RouteRef<T> = Arc<Route<T>>;
pub open spec fn ms_of<T>(v: Seq<RouteRef<T>>) -> Multiset<RouteRef<T>> { v.to_multiset() }
pub proof fn lemma_ms_add<T>(a: Seq<RouteRef<T>>, b: Seq<RouteRef<T>>)
    ensures ms_of(a + b) == ms_of(a).add(ms_of(b)),
{ vstd::seq_lib::lemma_multiset_commutative(a, b); }
pub proof fn lemma_ms_empty<T>()
    ensures ms_of(Seq::<RouteRef<T>>::empty()) == Multiset::<RouteRef<T>>::empty(),
{
    broadcast use vstd::seq_lib::group_to_multiset_ensures;
    let m = Seq::<RouteRef<T>>::empty().to_multiset();
    assert(m.len() == 0);
    assert forall|v: RouteRef<T>| m.count(v) == 0 by { if m.count(v) > 0 { assert(Seq::<RouteRef<T>>::empty().contains(v)); } }
    assert(m =~= Multiset::<RouteRef<T>>::empty());
}
// ASSUMED (trusted, listed): cloning an Arc yields an equal value (same allocation)
#[verifier::external_body]
pub broadcast proof fn axiom_arc_cloned<T>(a: Arc<T>, b: Arc<T>) requires #[trigger] cloned::<Arc<T>>(a, b) ensures a == b {}
// Vec<Arc<_>>::clone, VERIFIED wrapper: same sequence
pub fn clone_routes<T>(v: &Vec<RouteRef<T>>) -> (r: Vec<RouteRef<T>>)
    ensures r@ == v@,
{
    broadcast use axiom_arc_cloned;
    /* verbatim: routes_stored.clone() */
    let r = v.clone();
    proof { assert(forall|i: int| 0 <= i < r@.len() ==> cloned::<RouteRef<T>>(v@[i], r@[i])); assert(r@ =~= v@); }
    r
}
// `routes.extend(x)` is routed through this VERIFIED wrapper (R8 with a proved helper) so that the multiset fact is available by contract
pub fn ext_routes<T>(routes: &mut Vec<RouteRef<T>>, other: Vec<RouteRef<T>>)
    ensures final(routes)@ == old(routes)@ + other@, ms_of(final(routes)@) == ms_of(old(routes)@).add(ms_of(other@)),
        forall|x: RouteRef<T>| #[trigger] final(routes)@.contains(x) <==> old(routes)@.contains(x) || other@.contains(x),
{
    broadcast use axiom_iter_seq_vec;
    let ghost a = routes@; let ghost b = other@;
    /* verbatim: routes.extend(matcher.match_request(request)); | routes.extend(self.any_host.match_request(request)); | routes.extend(routes_stored.clone()); | rules.extend(matcher.match_request(request)); | routes.extend(static_storage.values().cloned().collect::<Vec<Arc<Route<T>>>>()); | routes.extend(Trace::get_routes_from_traces(&trace.children)); */
    routes.extend(other);
    proof { lemma_ms_add(a, b);
        assert forall|x: RouteRef<T>| #[trigger] routes@.contains(x) <==> a.contains(x) || b.contains(x) by {
            if routes@.contains(x) { let i = choose|i: int| 0 <= i < routes@.len() && routes@[i] == x; if i < a.len() { assert(a[i] == x); } else { assert(b[i - a.len()] == x); } }
            if a.contains(x) { let i = choose|i: int| 0 <= i < a.len() && a[i] == x; assert(routes@[i] == x); }
            if b.contains(x) { let i = choose|i: int| 0 <= i < b.len() && b[i] == x; assert(routes@[a.len() + i] == x); }
        }
    }
}
#[verifier::external_body] #[verifier::accept_recursive_types(T)] pub struct SubIp<T> { h: std::marker::PhantomData<T> }
impl<T> SubIp<T> {
    pub uninterp spec fn answer(&self, request: Request) -> Multiset<RouteRef<T>>;
    #[verifier::external_body]
    pub fn match_request(&self, request: &Request) -> (r: Vec<RouteRef<T>>) ensures ms_of(r@) == self.answer(*request) { unimplemented!() }
    #[verifier::external_body]
    pub fn trace(&self, request: &Request) -> (r: Vec<Trace<T>>) ensures forest_routes(r@, r@.len() as int) == self.answer(*request) { unimplemented!() }
    #[verifier::external_body]
    pub fn len(&self) -> usize { unimplemented!() }
}
// regex tree keyed by host patterns (unit `tree`): find returns the matchers whose pattern matches — abstract here
#[verifier::external_body] #[verifier::accept_recursive_types(V)] pub struct UniqueRegexTreeMap<V> { h: std::marker::PhantomData<V> }
impl<V> UniqueRegexTreeMap<V> {
    pub uninterp spec fn found(&self, haystack: Seq<char>) -> Seq<V>;
    #[verifier::external_body]
    pub fn find<'a>(&'a self, haystack: &str) -> (r: Vec<&'a V>) ensures r@.len() == self.found(haystack@).len(), forall|i: int| 0 <= i < r@.len() ==> *#[trigger] r@[i] == self.found(haystack@)[i] { unimplemented!() }
}
//@@ rename IpMatcher SubIp
//@@ item src/router/request_matcher/host.rs :: struct HostMatcher
pub open spec fn sum_answers<T>(ms: Seq<SubIp<T>>, request: Request, k: int) -> Multiset<RouteRef<T>>
    decreases k
{ if k <= 0 || k > ms.len() { Multiset::empty() } else { sum_answers(ms, request, k - 1).add(ms[k - 1].answer(request)) } }
pub open spec fn static_answer<T>(m: Map<String, SubIp<T>>, h: Seq<char>, request: Request) -> Multiset<RouteRef<T>> {
    if exists|key: String| key@ == h && m.contains_key(key) { let key = choose|key: String| key@ == h && m.contains_key(key); m[key].answer(request) } else { Multiset::empty() }
}
// statement of C01 for the host layer: host-specific candidates = regex hosts ∪ static host; rules bound to no host are candidates
// always (policy on) or only when no host-specific rule of this scheme scope matched
pub open spec fn host_answer<T>(m: HostMatcher<T>, request: Request) -> Multiset<RouteRef<T>> {
    let specific = match req_host(request) {
        Some(h) => sum_answers(m.regex_tree_rule.found(h), request, m.regex_tree_rule.found(h).len() as int).add(static_answer(m.static_hosts@, h, request)),
        None => Multiset::empty(),
    };
    if m.always_match_any_host || specific.len() == 0 { specific.add(m.any_host.answer(request)) } else { specific }
}
impl<T> HostMatcher<T> {
    //@@ fn src/router/request_matcher/host.rs :: impl <T>HostMatcher<T> / fn match_request -> r
    //@| ensures ms_of(r@) == host_answer(*self, *request),
    //@| entry broadcast use axiom_iter_seq_vec; broadcast use vstd::std_specs::hash::group_hash_axioms; broadcast use axiom_string_key_model; broadcast use axiom_borrow_str_contains; broadcast use axiom_borrow_str_maps;
    //@|     proof { lemma_ms_empty::<T>(); axiom_string_ext(); }
    //@| forlabel 0: it
    //@| loopbefore 0: let ghost fs = self.regex_tree_rule.found(host@); let ghost ms0 = matchers@;
    //@| loop 0: invariant iter_ok(it.history@, it.index@, it.snapshot@.remaining(), ms0), ms0.len() == fs.len(),
    //@|         forall|i: int| 0 <= i < ms0.len() ==> *#[trigger] ms0[i] == fs[i],
    //@|         ms_of(routes@) == sum_answers(fs, *request, it.index@),
    //@| loophead 0: proof { assert(*matcher == fs[it.index@ as int]); }
    //@| before `if self.always_match_any_host || routes.is_empty() {`: proof {
    //@|     broadcast use vstd::seq_lib::group_to_multiset_ensures;
    //@|     assert(ms_of(routes@).len() == routes@.len());
    //@|     let sp = match req_host(*request) { Some(h) => sum_answers(self.regex_tree_rule.found(h), *request, self.regex_tree_rule.found(h).len() as int).add(static_answer(self.static_hosts@, h, *request)), None => Multiset::empty() };
    //@|     if req_host(*request) is Some { let h = req_host(*request).unwrap(); let sa = static_answer(self.static_hosts@, h, *request); assert(sum_answers(self.regex_tree_rule.found(h), *request, self.regex_tree_rule.found(h).len() as int).add(Multiset::empty()) =~= sum_answers(self.regex_tree_rule.found(h), *request, self.regex_tree_rule.found(h).len() as int)); }
    //@|     assert(ms_of(routes@) == sp);
    //@| }
    //@| outline `routes.extend(matcher.match_request(request));`#0 => `ext_routes(&mut routes, matcher.match_request(request));`
    //@| outline `routes.extend(matcher.match_request(request));`#1 => `ext_routes(&mut routes, matcher.match_request(request));`
    //@| outline `routes.extend(self.any_host.match_request(request));` => `ext_routes(&mut routes, self.any_host.match_request(request));`
}
//@@ unrename IpMatcher

// ================================================================ scheme layer (C01)
//@@ rename HostMatcher SubHost
//@@ item src/router/request_matcher/scheme.rs :: struct SchemeMatcher
//@@ unrename HostMatcher
pub open spec fn scheme_bucket<T>(m: Map<String, SubHost<T>>, s: Seq<char>, request: Request) -> Multiset<RouteRef<T>> {
    if exists|key: String| key@ == s && m.contains_key(key) { let key = choose|key: String| key@ == s && m.contains_key(key); m[key].answer(request) } else { Multiset::empty() }
}
// statement: rules for any scheme, plus the rules bound to exactly the request's scheme (each scheme bucket owns its host layer,
// which is what scopes the any-host policy per scheme)
pub open spec fn scheme_answer<T>(m: SchemeMatcher<T>, request: Request) -> Multiset<RouteRef<T>> {
    m.any_scheme.answer(request).add(match req_scheme(request) { Some(s) => scheme_bucket(m.schemes@, s, request), None => Multiset::empty() })
}
impl<T> SchemeMatcher<T> {
    //@@ fn src/router/request_matcher/scheme.rs :: impl <T>SchemeMatcher<T> / fn match_request -> r
    //@| ensures ms_of(r@) == scheme_answer(*self, *request),
    //@| entry broadcast use vstd::std_specs::hash::group_hash_axioms; broadcast use axiom_string_key_model; broadcast use axiom_borrow_str_contains; broadcast use axiom_borrow_str_maps;
    //@|     proof { axiom_string_ext(); let a = self.any_scheme.answer(*request); assert(a.add(Multiset::empty()) =~= a); }
    //@| outline `routes.extend(matcher.match_request(request));` => `ext_routes(&mut routes, matcher.match_request(request));`
}

// ---- C17 for the scheme layer. Agreement with match_request needs the layer invariant "no bucket for the empty scheme" (insert
// files an empty scheme under any_scheme; see unit lay / C02), stated as a precondition here.
pub type SchItem<'a, T> = (&'a String, &'a SubHost<T>);
pub open spec fn sch_contrib<T>(rem: Seq<SchItem<T>>, n: int, m: Seq<char>, request: Request, x: RouteRef<T>) -> bool {
    exists|i: int| 0 <= i < n && (*#[trigger] rem[i].0)@ == m && (*rem[i].1).answer(request).count(x) > 0
}
impl<T> SchemeMatcher<T> {
    //@@ fn src/router/request_matcher/scheme.rs :: impl <T>SchemeMatcher<T> / fn trace -> r
    //@| opt r5:0
    //@| opt r6:0
    //@| requires forall|k: String| self.schemes@.contains_key(k) ==> k@.len() > 0,
    //@| ensures forall|x: RouteRef<T>| forest_routes(r@, r@.len() as int).count(x) > 0 <==> scheme_answer(*self, *request).count(x) > 0,
    //@| attr #[verifier::loop_isolation(false)]
    //@| entry broadcast use vstd::seq_lib::group_to_multiset_ensures; broadcast use vstd::std_specs::hash::group_hash_axioms; broadcast use axiom_string_key_model;
    //@|     proof { axiom_string_ext(); lit_empty(); }
    //@| after `let request_scheme = request.scheme().unwrap_or("");`: let ghost any0 = forest_routes(traces@, traces@.len() as int); let ghost mm = self.schemes@; let ghost rm = request_scheme@;
    //@|     proof { assert(rm == match req_scheme(*request) { Some(s) => s, None => Seq::<char>::empty() }); assert(any0 == self.any_scheme.answer(*request)); }
    //@| loop 0: invariant 0 <= vf_it0_idx <= vf_it0_rem0.len(), vf_it0.remaining() == vf_it0_rem0.skip(vf_it0_idx), vf_it0_rem0.len() == mm.len(),
    //@|         forall|x: RouteRef<T>| #[trigger] forest_routes(traces@, traces@.len() as int).count(x) > 0 <==> (any0.count(x) > 0 || sch_contrib(vf_it0_rem0, vf_it0_idx, rm, *request, x)),
    //@|     decreases mm.len() - vf_it0_idx,
    //@| loophead 0: let ghost t0 = traces@; let ghost k = vf_it0_idx - 1; let ghost rem = vf_it0_rem0;
    //@|     proof { assert(scheme == rem[k].0 && matcher == rem[k].1); }
    //@| looptail 0: proof {
    //@|     let t = traces@.last();
    //@|     assert(traces@ =~= t0.push(t));
    //@|     lemma_forest_push(t0, t); lemma_trace_node(t); lemma_forest_empty::<T>();
    //@|     let cond = scheme@ == rm;
    //@|     assert(mm.contains_key(*rem[k].0)); assert(scheme@.len() > 0);
    //@|     assert forall|x: RouteRef<T>| #[trigger] forest_routes(traces@, traces@.len() as int).count(x) > 0 <==> (any0.count(x) > 0 || sch_contrib(rem, k + 1, rm, *request, x)) by {
    //@|         if cond { assert(trace_routes(t) == matcher.answer(*request)); } else { assert(trace_routes(t).count(x) == 0); }
    //@|         if sch_contrib(rem, k + 1, rm, *request, x) {
    //@|             let i = choose|i: int| 0 <= i < k + 1 && (*#[trigger] rem[i].0)@ == rm && (*rem[i].1).answer(*request).count(x) > 0;
    //@|             if i < k { assert(sch_contrib(rem, k, rm, *request, x)); }
    //@|         }
    //@|         if sch_contrib(rem, k, rm, *request, x) {
    //@|             let i = choose|i: int| 0 <= i < k && (*#[trigger] rem[i].0)@ == rm && (*rem[i].1).answer(*request).count(x) > 0;
    //@|             assert((*rem[i].0)@ == rm);
    //@|         }
    //@|         if cond && matcher.answer(*request).count(x) > 0 { assert((*rem[k].0)@ == rm); }
    //@|     }
    //@| }
    //@| loopend 0: proof {
    //@|     let rem = vf_it0_rem0;
    //@|     lemma_forest_empty::<T>();
    //@|     let sb = match req_scheme(*request) { Some(s) => scheme_bucket(mm, s, *request), None => Multiset::empty() };
    //@|     assert forall|x: RouteRef<T>| #[trigger] forest_routes(traces@, traces@.len() as int).count(x) > 0 <==> (any0.count(x) > 0 || sb.count(x) > 0) by {
    //@|         if sch_contrib(rem, rem.len() as int, rm, *request, x) {
    //@|             let i = choose|i: int| 0 <= i < rem.len() && (*#[trigger] rem[i].0)@ == rm && (*rem[i].1).answer(*request).count(x) > 0;
    //@|             let key = *rem[i].0;
    //@|             assert(mm.contains_key(key) && mm[key] == *rem[i].1);
    //@|             assert(req_scheme(*request) is Some);
    //@|             let key2 = choose|key2: String| key2@ == rm && mm.contains_key(key2);
    //@|             assert(key2 == key);
    //@|         }
    //@|         if sb.count(x) > 0 {
    //@|             let key = choose|key: String| key@ == rm && mm.contains_key(key);
    //@|             let i = choose|i: int| 0 <= i < rem.len() && *rem[i].0 == key;
    //@|             assert(mm[*rem[i].0] == *rem[i].1);
    //@|             assert((*rem[i].0)@ == rm);
    //@|         }
    //@|     }
    //@|     assert(scheme_answer(*self, *request) =~= any0.add(sb));
    //@| }
    //@| before `if !request_scheme.is_empty() && !self.schemes.contains_key(request_scheme) {`: let ghost t_end = traces@;
    //@| exit proof { if traces@.len() > t_end.len() { let t = traces@.last(); assert(traces@ =~= t_end.push(t)); lemma_forest_push(t_end, t); lemma_trace_node(t); lemma_forest_empty::<T>(); assert(forest_routes(traces@, traces@.len() as int) =~= forest_routes(t_end, t_end.len() as int)); } }
    //@| replace `scheme == request_scheme` => `*scheme == *request_scheme` :: `&String == &str` is defined by std as the comparison of the referents; Verus has no spec for the reference impl
}

// ================================================================ ip layer (C01)
#[verifier::external_body] pub broadcast proof fn axiom_routeip_key_model2() ensures #[trigger] obeys_key_model::<RouteIp>() {}
//@@ rename MethodMatcher SubMethod
//@@ item src/router/request_matcher/ip.rs :: struct IpMatcher
//@@ unrename MethodMatcher
// `routes.iter().any(|known| Arc::ptr_eq(known, &route))`: only the sound direction is assumed here (an identical handle is an equal one)
#[verifier::external_body] pub fn outl_known<T>(routes: &Vec<RouteRef<T>>, route: &RouteRef<T>) -> (r: bool)
    ensures r ==> routes@.contains(*route),
{ /* verbatim: routes.iter().any(|known| Arc::ptr_eq(known, &route)) */ unimplemented!() }
pub open spec fn seen_upto<T>(s: Seq<RouteRef<T>>, n: int, x: RouteRef<T>) -> bool { exists|i: int| 0 <= i < n && #[trigger] s[i] == x }
pub type IpItem<'a, T> = (&'a RouteIp, &'a SubMethod<T>);
pub open spec fn ip_contrib<T>(rem: Seq<IpItem<T>>, n: int, addr: IpAddr, request: Request, x: RouteRef<T>) -> bool {
    exists|i: int| 0 <= i < n && sat_ip(*#[trigger] rem[i].0, addr) && (*rem[i].1).answer(request).count(x) > 0
}
impl<T> IpMatcher<T> {
    // membership-exact: rules without ip trigger, plus the rules of every range bucket whose range test the client address satisfies
    // (since the F7 repair the rules of a satisfied bucket are added one by one unless an identical handle is already in the answer)
    //@@ fn src/router/request_matcher/ip.rs :: impl <T>IpMatcher<T> / fn match_request -> r
    //@| opt r5:0
    //@| opt r6:0
    //@| opt r5:1
    //@| opt optloop:1
    //@| ensures forall|x: RouteRef<T>| r@.contains(x) <==> (self.no_matcher.answer(*request).count(x) > 0
    //@|     || (request.remote_addr matches Some(addr) && exists|ip: RouteIp| self.matchers@.contains_key(ip) && sat_ip(ip, addr) && #[trigger] self.matchers@[ip].answer(*request).count(x) > 0)),
    //@| attr #[verifier::loop_isolation(false)]
    //@| entry broadcast use vstd::seq_lib::group_to_multiset_ensures; broadcast use vstd::std_specs::hash::group_hash_axioms; broadcast use axiom_routeip_key_model2; broadcast use axiom_iter_seq_vec;
    //@| loopbefore 0: let ghost any0 = routes@; let ghost gm = self.matchers@; let ghost addr = *remote_addr;
    //@| loop 0: invariant 0 <= vf_it0_idx <= vf_it0_rem0.len(), vf_it0.remaining() == vf_it0_rem0.skip(vf_it0_idx), vf_it0_rem0.len() == gm.len(),
    //@|         forall|x: RouteRef<T>| #[trigger] routes@.contains(x) <==> (any0.contains(x) || ip_contrib(vf_it0_rem0, vf_it0_idx, addr, *request, x)),
    //@|     decreases gm.len() - vf_it0_idx,
    //@| loophead 0: let ghost r0 = routes@; let ghost k = vf_it0_idx - 1; let ghost rem = vf_it0_rem0;
    //@|     proof { assert(ip_cidr == rem[k].0 && matcher == rem[k].1); }
    //@| loop 1: invariant 0 <= vf_it1_idx <= vf_it1_rem0.len(), vf_it1.remaining() == vf_it1_rem0.skip(vf_it1_idx), ms_of(vf_it1_rem0) == matcher.answer(*request), vf_it1_rem0.len() == matcher.answer(*request).len(),
    //@|         forall|x: RouteRef<T>| #[trigger] routes@.contains(x) <==> (r0.contains(x) || seen_upto(vf_it1_rem0, vf_it1_idx, x)),
    //@|     decreases matcher.answer(*request).len() - vf_it1_idx,
    //@| loophead 1: let ghost r1 = routes@; let ghost j = vf_it1_idx - 1; let ghost ans = vf_it1_rem0;
    //@|     proof { assert(route == ans[j]); }
    //@| looptail 1: proof {
    //@|     assert forall|x: RouteRef<T>| #[trigger] routes@.contains(x) <==> (r0.contains(x) || seen_upto(ans, j + 1, x)) by {
    //@|         if routes@ != r1 { assert(routes@ =~= r1.push(route)); assert(routes@[r1.len() as int] == route); if r1.contains(x) { let i = choose|i: int| 0 <= i < r1.len() && r1[i] == x; assert(routes@[i] == x); } }
    //@|         if seen_upto(ans, j + 1, x) { let i = choose|i: int| 0 <= i < j + 1 && ans[i] == x; if i < j { assert(seen_upto(ans, j, x)); } }
    //@|         if seen_upto(ans, j, x) { let i = choose|i: int| 0 <= i < j && ans[i] == x; assert(0 <= i < j + 1 && ans[i] == x); }
    //@|         if x == route { assert(0 <= j < j + 1 && ans[j] == x); }
    //@|     }
    //@| }
    //@| loopend 1: proof {
    //@|     let ans = vf_it1_rem0;
    //@|     assert forall|x: RouteRef<T>| seen_upto(ans, ans.len() as int, x) <==> matcher.answer(*request).count(x) > 0 by {
    //@|         if seen_upto(ans, ans.len() as int, x) { let i = choose|i: int| 0 <= i < ans.len() && ans[i] == x; assert(ans.contains(x)); }
    //@|         if ans.contains(x) { let i = choose|i: int| 0 <= i < ans.len() && ans[i] == x; assert(seen_upto(ans, ans.len() as int, x)); }
    //@|     }
    //@|     assert(forall|x: RouteRef<T>| #[trigger] routes@.contains(x) <==> (r0.contains(x) || matcher.answer(*request).count(x) > 0));
    //@| }
    //@| looptail 0: proof {
    //@|     assert forall|x: RouteRef<T>| #[trigger] routes@.contains(x) <==> (any0.contains(x) || ip_contrib(rem, k + 1, addr, *request, x)) by {
    //@|         assert(routes@.contains(x) <==> (r0.contains(x) || (sat_ip(*ip_cidr, addr) && matcher.answer(*request).count(x) > 0)));
    //@|         if ip_contrib(rem, k + 1, addr, *request, x) {
    //@|             let i = choose|i: int| 0 <= i < k + 1 && sat_ip(*#[trigger] rem[i].0, addr) && (*rem[i].1).answer(*request).count(x) > 0;
    //@|             if i < k { assert(ip_contrib(rem, k, addr, *request, x)); }
    //@|         }
    //@|         if ip_contrib(rem, k, addr, *request, x) {
    //@|             let i = choose|i: int| 0 <= i < k && sat_ip(*#[trigger] rem[i].0, addr) && (*rem[i].1).answer(*request).count(x) > 0;
    //@|             assert(sat_ip(*rem[i].0, addr));
    //@|         }
    //@|         if sat_ip(*ip_cidr, addr) && matcher.answer(*request).count(x) > 0 { assert(sat_ip(*rem[k].0, addr)); }
    //@|     }
    //@| }
    //@| loopend 0: proof {
    //@|     let rem = vf_it0_rem0;
    //@|     assert forall|x: RouteRef<T>| ip_contrib(rem, rem.len() as int, addr, *request, x) <==> (exists|ip: RouteIp| gm.contains_key(ip) && sat_ip(ip, addr) && #[trigger] gm[ip].answer(*request).count(x) > 0) by {
    //@|         if ip_contrib(rem, rem.len() as int, addr, *request, x) {
    //@|             let i = choose|i: int| 0 <= i < rem.len() && sat_ip(*#[trigger] rem[i].0, addr) && (*rem[i].1).answer(*request).count(x) > 0;
    //@|             let ip = *rem[i].0;
    //@|             assert(gm.contains_key(ip) && gm[ip] == *rem[i].1);
    //@|             assert(gm[ip].answer(*request).count(x) > 0);
    //@|         }
    //@|         if exists|ip: RouteIp| gm.contains_key(ip) && sat_ip(ip, addr) && #[trigger] gm[ip].answer(*request).count(x) > 0 {
    //@|             let ip = choose|ip: RouteIp| gm.contains_key(ip) && sat_ip(ip, addr) && #[trigger] gm[ip].answer(*request).count(x) > 0;
    //@|             let i = choose|i: int| 0 <= i < rem.len() && *rem[i].0 == ip;
    //@|             assert(gm[*rem[i].0] == *rem[i].1);
    //@|             assert(sat_ip(*rem[i].0, addr));
    //@|         }
    //@|     }
    //@| }
    //@| outline `routes.iter().any(|known| Arc::ptr_eq(known, &route))` => `outl_known(&routes, &route)`
    //@| outline `routes.extend(matcher.match_request(request));` => `ext_routes(&mut routes, matcher.match_request(request));`
}

#[verifier::external_body] pub fn outl_ip_to_string(a: &IpAddr) -> String { /* verbatim: remote_addr.to_string() */ unimplemented!() }
#[verifier::external_body] pub fn outl_routeip_to_string(a: &RouteIp) -> String { /* verbatim: ip_cidr.to_string() */ unimplemented!() }
// a trace node that is not a Storage node stores exactly what its children store
pub proof fn lemma_trace_node<T>(t: Trace<T>)
    requires !(t.info is Storage),
    ensures trace_routes(t) == forest_routes(t.children@, t.children@.len() as int),
{ assert(Multiset::<RouteRef<T>>::empty().add(forest_routes(t.children@, t.children@.len() as int)) =~= forest_routes(t.children@, t.children@.len() as int)); }
pub proof fn lemma_forest_empty<T>()
    ensures forest_routes(Seq::<Trace<T>>::empty(), 0) == Multiset::<RouteRef<T>>::empty(),
{}
impl<T> IpMatcher<T> {
    // C17, ip layer: the routes in the trace forest are exactly those match_request returns (same right-hand side)
    //@@ fn src/router/request_matcher/ip.rs :: impl <T>IpMatcher<T> / fn trace -> r
    //@| opt r5:0
    //@| opt r6:0
    //@| ensures forall|x: RouteRef<T>| forest_routes(r@, r@.len() as int).count(x) > 0 <==> (self.no_matcher.answer(*request).count(x) > 0
    //@|     || (request.remote_addr matches Some(addr) && exists|ip: RouteIp| self.matchers@.contains_key(ip) && sat_ip(ip, addr) && #[trigger] self.matchers@[ip].answer(*request).count(x) > 0)),
    //@| attr #[verifier::loop_isolation(false)]
    //@| entry broadcast use vstd::seq_lib::group_to_multiset_ensures; broadcast use vstd::std_specs::hash::group_hash_axioms; broadcast use axiom_routeip_key_model2;
    //@| loopbefore 0: let ghost any0 = forest_routes(traces@, traces@.len() as int); let ghost gm = self.matchers@; let ghost addr = *remote_addr;
    //@| loop 0: invariant 0 <= vf_it0_idx <= vf_it0_rem0.len(), vf_it0.remaining() == vf_it0_rem0.skip(vf_it0_idx), vf_it0_rem0.len() == gm.len(),
    //@|         forall|x: RouteRef<T>| #[trigger] forest_routes(traces@, traces@.len() as int).count(x) > 0 <==> (any0.count(x) > 0 || ip_contrib(vf_it0_rem0, vf_it0_idx, addr, *request, x)),
    //@|     decreases gm.len() - vf_it0_idx,
    //@| loophead 0: let ghost t0 = traces@; let ghost k = vf_it0_idx - 1; let ghost rem = vf_it0_rem0;
    //@|     proof { assert(ip_cidr == rem[k].0 && matcher == rem[k].1); }
    //@| looptail 0: proof {
    //@|     let t = traces@.last();
    //@|     assert(traces@ =~= t0.push(t));
    //@|     lemma_forest_push(t0, t);
    //@|     lemma_trace_node(t);
    //@|     lemma_forest_empty::<T>();
    //@|     assert forall|x: RouteRef<T>| #[trigger] forest_routes(traces@, traces@.len() as int).count(x) > 0 <==> (any0.count(x) > 0 || ip_contrib(rem, k + 1, addr, *request, x)) by {
    //@|         if sat_ip(*ip_cidr, addr) { assert(trace_routes(t) == matcher.answer(*request)); } else { assert(trace_routes(t).count(x) == 0); }
    //@|         if ip_contrib(rem, k + 1, addr, *request, x) {
    //@|             let i = choose|i: int| 0 <= i < k + 1 && sat_ip(*#[trigger] rem[i].0, addr) && (*rem[i].1).answer(*request).count(x) > 0;
    //@|             if i < k { assert(ip_contrib(rem, k, addr, *request, x)); }
    //@|         }
    //@|         if ip_contrib(rem, k, addr, *request, x) {
    //@|             let i = choose|i: int| 0 <= i < k && sat_ip(*#[trigger] rem[i].0, addr) && (*rem[i].1).answer(*request).count(x) > 0;
    //@|             assert(sat_ip(*rem[i].0, addr));
    //@|         }
    //@|         if sat_ip(*ip_cidr, addr) && matcher.answer(*request).count(x) > 0 { assert(sat_ip(*rem[k].0, addr)); }
    //@|     }
    //@| }
    //@| loopend 0: proof {
    //@|     let rem = vf_it0_rem0;
    //@|     assert forall|x: RouteRef<T>| ip_contrib(rem, rem.len() as int, addr, *request, x) <==> (exists|ip: RouteIp| gm.contains_key(ip) && sat_ip(ip, addr) && #[trigger] gm[ip].answer(*request).count(x) > 0) by {
    //@|         if ip_contrib(rem, rem.len() as int, addr, *request, x) {
    //@|             let i = choose|i: int| 0 <= i < rem.len() && sat_ip(*#[trigger] rem[i].0, addr) && (*rem[i].1).answer(*request).count(x) > 0;
    //@|             let ip = *rem[i].0;
    //@|             assert(gm.contains_key(ip) && gm[ip] == *rem[i].1);
    //@|             assert(gm[ip].answer(*request).count(x) > 0);
    //@|         }
    //@|         if exists|ip: RouteIp| gm.contains_key(ip) && sat_ip(ip, addr) && #[trigger] gm[ip].answer(*request).count(x) > 0 {
    //@|             let ip = choose|ip: RouteIp| gm.contains_key(ip) && sat_ip(ip, addr) && #[trigger] gm[ip].answer(*request).count(x) > 0;
    //@|             let i = choose|i: int| 0 <= i < rem.len() && *rem[i].0 == ip;
    //@|             assert(gm[*rem[i].0] == *rem[i].1);
    //@|             assert(sat_ip(*rem[i].0, addr));
    //@|         }
    //@|     }
    //@| }
    //@| replace `remote_addr.to_string()`#0 => `outl_ip_to_string(remote_addr)` :: Display of a foreign type; trace text only
    //@| replace `remote_addr.to_string()`#1 => `outl_ip_to_string(remote_addr)` :: Display of a foreign type; trace text only
    //@| replace `ip_cidr.to_string()`#0 => `outl_routeip_to_string(ip_cidr)` :: Display impl not extracted; trace text only
    //@| replace `ip_cidr.to_string()`#1 => `outl_routeip_to_string(ip_cidr)` :: Display impl not extracted; trace text only
}

// ================================================================ method layer (C01)
#[verifier::external_body] pub broadcast proof fn axiom_vecstring_key_model() ensures #[trigger] obeys_key_model::<Vec<String>>() {}
//@@ rename HeaderMatcher SubHeader
//@@ item src/router/request_matcher/method.rs :: struct MethodMatcher
//@@ unrename HeaderMatcher
pub open spec fn list_has(ms: Seq<String>, m: Seq<char>) -> bool { exists|i: int| 0 <= i < ms.len() && #[trigger] ms[i]@ == m }
// R8 outlined expression: `methods.contains(&request.method().into())` (&str -> String conversion through Into has no Verus spec);
// assumed: membership of the method name in the list
#[verifier::external_body]
pub fn outl_methods_contains(methods: &Vec<String>, method: &str) -> (r: bool) ensures r == list_has(methods@, method@)
{ /* verbatim: methods.contains(&request.method().into()) | methods.contains(&request_method.into()) */ methods.contains(&method.into()) }
pub open spec fn method_bucket<T>(m: Map<String, SubHeader<T>>, s: Seq<char>, request: Request) -> Multiset<RouteRef<T>> {
    if exists|key: String| key@ == s && m.contains_key(key) { let key = choose|key: String| key@ == s && m.contains_key(key); m[key].answer(request) } else { Multiset::empty() }
}
pub type ExclItem<'a, T> = (&'a Vec<String>, &'a SubHeader<T>);
pub open spec fn excl_contrib<T>(rem: Seq<ExclItem<T>>, n: int, request: Request, x: RouteRef<T>) -> bool {
    exists|i: int| 0 <= i < n && !list_has((*#[trigger] rem[i].0)@, req_method(request)) && (*rem[i].1).answer(request).count(x) > 0
}
impl<T> MethodMatcher<T> {
    // statement: rules for any method, rules listing the request's method, and rules EXCLUDING a list that does not contain it
    //@@ fn src/router/request_matcher/method.rs :: impl <T>MethodMatcher<T> / fn match_request -> r
    //@| opt r5:0
    //@| opt r6:0
    //@| ensures forall|x: RouteRef<T>| r@.contains(x) <==> (self.any_method.answer(*request).count(x) > 0
    //@|     || method_bucket(self.methods@, req_method(*request), *request).count(x) > 0
    //@|     || exists|ms: Vec<String>| self.exclude_methods@.contains_key(ms) && !list_has(ms@, req_method(*request)) && #[trigger] self.exclude_methods@[ms].answer(*request).count(x) > 0),
    //@| attr #[verifier::loop_isolation(false)]
    //@| entry broadcast use vstd::seq_lib::group_to_multiset_ensures; broadcast use vstd::std_specs::hash::group_hash_axioms; broadcast use axiom_string_key_model; broadcast use axiom_vecstring_key_model; broadcast use axiom_borrow_str_contains; broadcast use axiom_borrow_str_maps;
    //@|     proof { axiom_string_ext(); }
    //@| loopbefore 0: let ghost any0 = routes@; let ghost gm = self.exclude_methods@;
    //@|     proof { assert(forall|x: RouteRef<T>| any0.contains(x) <==> (self.any_method.answer(*request).count(x) > 0 || method_bucket(self.methods@, req_method(*request), *request).count(x) > 0)); }
    //@| loop 0: invariant 0 <= vf_it0_idx <= vf_it0_rem0.len(), vf_it0.remaining() == vf_it0_rem0.skip(vf_it0_idx), vf_it0_rem0.len() == gm.len(),
    //@|         forall|x: RouteRef<T>| #[trigger] routes@.contains(x) <==> (any0.contains(x) || excl_contrib(vf_it0_rem0, vf_it0_idx, *request, x)),
    //@|     decreases gm.len() - vf_it0_idx,
    //@| loophead 0: let ghost r0 = routes@; let ghost k = vf_it0_idx - 1; let ghost rem = vf_it0_rem0;
    //@|     proof { assert(methods == rem[k].0 && matcher == rem[k].1); }
    //@| looptail 0: proof {
    //@|     let other = routes@.subrange(r0.len() as int, routes@.len() as int);
    //@|     let cond = !list_has(methods@, req_method(*request));
    //@|     assert forall|x: RouteRef<T>| #[trigger] routes@.contains(x) <==> (any0.contains(x) || excl_contrib(rem, k + 1, *request, x)) by {
    //@|         if cond {
    //@|             assert(routes@ =~= r0 + other);
    //@|             lemma_ms_add(r0, other);
    //@|             assert(ms_of(routes@).count(x) == ms_of(r0).count(x) + ms_of(other).count(x));
    //@|             assert(ms_of(other).count(x) == matcher.answer(*request).count(x));
    //@|         }
    //@|         if excl_contrib(rem, k + 1, *request, x) {
    //@|             let i = choose|i: int| 0 <= i < k + 1 && !list_has((*#[trigger] rem[i].0)@, req_method(*request)) && (*rem[i].1).answer(*request).count(x) > 0;
    //@|             if i < k { assert(excl_contrib(rem, k, *request, x)); }
    //@|         }
    //@|         if excl_contrib(rem, k, *request, x) {
    //@|             let i = choose|i: int| 0 <= i < k && !list_has((*#[trigger] rem[i].0)@, req_method(*request)) && (*rem[i].1).answer(*request).count(x) > 0;
    //@|             assert(!list_has((*rem[i].0)@, req_method(*request)));
    //@|         }
    //@|         if cond && matcher.answer(*request).count(x) > 0 { assert(!list_has((*rem[k].0)@, req_method(*request))); }
    //@|     }
    //@| }
    //@| loopend 0: proof {
    //@|     let rem = vf_it0_rem0;
    //@|     assert forall|x: RouteRef<T>| excl_contrib(rem, rem.len() as int, *request, x) <==> (exists|ms: Vec<String>| gm.contains_key(ms) && !list_has(ms@, req_method(*request)) && #[trigger] gm[ms].answer(*request).count(x) > 0) by {
    //@|         if excl_contrib(rem, rem.len() as int, *request, x) {
    //@|             let i = choose|i: int| 0 <= i < rem.len() && !list_has((*#[trigger] rem[i].0)@, req_method(*request)) && (*rem[i].1).answer(*request).count(x) > 0;
    //@|             let ms = *rem[i].0;
    //@|             assert(gm.contains_key(ms) && gm[ms] == *rem[i].1);
    //@|             assert(gm[ms].answer(*request).count(x) > 0);
    //@|         }
    //@|         if exists|ms: Vec<String>| gm.contains_key(ms) && !list_has(ms@, req_method(*request)) && #[trigger] gm[ms].answer(*request).count(x) > 0 {
    //@|             let ms = choose|ms: Vec<String>| gm.contains_key(ms) && !list_has(ms@, req_method(*request)) && #[trigger] gm[ms].answer(*request).count(x) > 0;
    //@|             let i = choose|i: int| 0 <= i < rem.len() && *rem[i].0 == ms;
    //@|             assert(gm[*rem[i].0] == *rem[i].1);
    //@|             assert(!list_has((*rem[i].0)@, req_method(*request)));
    //@|         }
    //@|     }
    //@| }
    //@| outline `methods.contains(&request.method().into())` => `outl_methods_contains(methods, request.method())`
    //@| outline `routes.extend(matcher.match_request(request));`#0 => `ext_routes(&mut routes, matcher.match_request(request));`
    //@| outline `routes.extend(matcher.match_request(request));`#1 => `ext_routes(&mut routes, matcher.match_request(request));`
}

// ---- C17 for the method layer
pub assume_specification [<std::string::String as PartialEq<str>>::eq] (a: &std::string::String, b: &str) -> (r: bool) ensures r == (a@ == b@);
// ASCII-case-insensitive comparison, should a layer use it: equality of an uninterpreted fold (the fold of equal strings is equal; nothing else is known)
pub uninterp spec fn ascii_fold(s: Seq<char>) -> Seq<char>;
pub assume_specification [str::eq_ignore_ascii_case] (a: &str, b: &str) -> (r: bool) ensures r == (ascii_fold(a@) == ascii_fold(b@));
pub type MethItem<'a, T> = (&'a String, &'a SubHeader<T>);
pub open spec fn meth_contrib<T>(rem: Seq<MethItem<T>>, n: int, m: Seq<char>, request: Request, x: RouteRef<T>) -> bool {
    exists|i: int| 0 <= i < n && (*#[trigger] rem[i].0)@ == m && (*rem[i].1).answer(request).count(x) > 0
}
#[verifier::external_body] pub fn outl_vecstring_clone(v: &Vec<String>) -> Vec<String> { /* verbatim: methods.clone() */ v.clone() }
impl<T> MethodMatcher<T> {
    //@@ fn src/router/request_matcher/method.rs :: impl <T>MethodMatcher<T> / fn trace -> r
    //@| opt r5:0
    //@| opt r6:0
    //@| opt r5:1
    //@| opt r6:1
    //@| ensures forall|x: RouteRef<T>| forest_routes(r@, r@.len() as int).count(x) > 0 <==> (self.any_method.answer(*request).count(x) > 0
    //@|     || method_bucket(self.methods@, req_method(*request), *request).count(x) > 0
    //@|     || exists|ms: Vec<String>| self.exclude_methods@.contains_key(ms) && !list_has(ms@, req_method(*request)) && #[trigger] self.exclude_methods@[ms].answer(*request).count(x) > 0),
    //@| attr #[verifier::loop_isolation(false)]
    //@| entry broadcast use vstd::seq_lib::group_to_multiset_ensures; broadcast use vstd::std_specs::hash::group_hash_axioms; broadcast use axiom_string_key_model; broadcast use axiom_vecstring_key_model;
    //@|     proof { axiom_string_ext(); }
    //@| after `let mut found = false;`: let ghost any0 = forest_routes(traces@, traces@.len() as int); let ghost gm = self.exclude_methods@; let ghost mm = self.methods@; let ghost rm = req_method(*request);
    //@|     proof { assert(request_method@ == rm); }
    //@| loop 0: invariant 0 <= vf_it0_idx <= vf_it0_rem0.len(), vf_it0.remaining() == vf_it0_rem0.skip(vf_it0_idx), vf_it0_rem0.len() == gm.len(),
    //@|         forall|x: RouteRef<T>| #[trigger] forest_routes(traces@, traces@.len() as int).count(x) > 0 <==> (any0.count(x) > 0 || excl_contrib(vf_it0_rem0, vf_it0_idx, *request, x)),
    //@|     decreases gm.len() - vf_it0_idx,
    //@| loophead 0: let ghost t0 = traces@; let ghost k = vf_it0_idx - 1; let ghost rem = vf_it0_rem0;
    //@|     proof { assert(methods == rem[k].0 && matcher == rem[k].1); }
    //@| looptail 0: proof {
    //@|     let t = traces@.last();
    //@|     assert(traces@ =~= t0.push(t));
    //@|     lemma_forest_push(t0, t); lemma_trace_node(t); lemma_forest_empty::<T>();
    //@|     let cond = !list_has(methods@, rm);
    //@|     assert forall|x: RouteRef<T>| #[trigger] forest_routes(traces@, traces@.len() as int).count(x) > 0 <==> (any0.count(x) > 0 || excl_contrib(rem, k + 1, *request, x)) by {
    //@|         if cond { assert(trace_routes(t) == matcher.answer(*request)); } else { assert(trace_routes(t).count(x) == 0); }
    //@|         if excl_contrib(rem, k + 1, *request, x) {
    //@|             let i = choose|i: int| 0 <= i < k + 1 && !list_has((*#[trigger] rem[i].0)@, req_method(*request)) && (*rem[i].1).answer(*request).count(x) > 0;
    //@|             if i < k { assert(excl_contrib(rem, k, *request, x)); }
    //@|         }
    //@|         if excl_contrib(rem, k, *request, x) {
    //@|             let i = choose|i: int| 0 <= i < k && !list_has((*#[trigger] rem[i].0)@, req_method(*request)) && (*rem[i].1).answer(*request).count(x) > 0;
    //@|             assert(!list_has((*rem[i].0)@, req_method(*request)));
    //@|         }
    //@|         if cond && matcher.answer(*request).count(x) > 0 { assert(!list_has((*rem[k].0)@, req_method(*request))); }
    //@|     }
    //@| }
    //@| loopend 0: proof {
    //@|     let rem = vf_it0_rem0;
    //@|     assert forall|x: RouteRef<T>| #[trigger] forest_routes(traces@, traces@.len() as int).count(x) > 0 <==> (any0.count(x) > 0 || (exists|ms: Vec<String>| gm.contains_key(ms) && !list_has(ms@, req_method(*request)) && #[trigger] gm[ms].answer(*request).count(x) > 0)) by {
    //@|         if excl_contrib(rem, rem.len() as int, *request, x) {
    //@|             let i = choose|i: int| 0 <= i < rem.len() && !list_has((*#[trigger] rem[i].0)@, req_method(*request)) && (*rem[i].1).answer(*request).count(x) > 0;
    //@|             let ms = *rem[i].0;
    //@|             assert(gm.contains_key(ms) && gm[ms] == *rem[i].1);
    //@|             assert(gm[ms].answer(*request).count(x) > 0);
    //@|         }
    //@|         if exists|ms: Vec<String>| gm.contains_key(ms) && !list_has(ms@, req_method(*request)) && #[trigger] gm[ms].answer(*request).count(x) > 0 {
    //@|             let ms = choose|ms: Vec<String>| gm.contains_key(ms) && !list_has(ms@, req_method(*request)) && #[trigger] gm[ms].answer(*request).count(x) > 0;
    //@|             let i = choose|i: int| 0 <= i < rem.len() && *rem[i].0 == ms;
    //@|             assert(gm[*rem[i].0] == *rem[i].1);
    //@|             assert(!list_has((*rem[i].0)@, req_method(*request)));
    //@|         }
    //@|     }
    //@| }
    //@| before `for (method, matcher) in &self.methods {`: let ghost mid0 = forest_routes(traces@, traces@.len() as int);
    //@| loop 1: invariant 0 <= vf_it1_idx <= vf_it1_rem0.len(), vf_it1.remaining() == vf_it1_rem0.skip(vf_it1_idx), vf_it1_rem0.len() == mm.len(),
    //@|         forall|x: RouteRef<T>| #[trigger] forest_routes(traces@, traces@.len() as int).count(x) > 0 <==> (mid0.count(x) > 0 || meth_contrib(vf_it1_rem0, vf_it1_idx, rm, *request, x)),
    //@|     decreases mm.len() - vf_it1_idx,
    //@| loophead 1: let ghost t0 = traces@; let ghost k = vf_it1_idx - 1; let ghost rem = vf_it1_rem0;
    //@|     proof { assert(method == rem[k].0 && matcher == rem[k].1); }
    //@| looptail 1: proof {
    //@|     let t = traces@.last();
    //@|     assert(traces@ =~= t0.push(t));
    //@|     lemma_forest_push(t0, t); lemma_trace_node(t); lemma_forest_empty::<T>();
    //@|     let cond = method@ == rm;
    //@|     assert forall|x: RouteRef<T>| #[trigger] forest_routes(traces@, traces@.len() as int).count(x) > 0 <==> (mid0.count(x) > 0 || meth_contrib(rem, k + 1, rm, *request, x)) by {
    //@|         if cond { assert(trace_routes(t) == matcher.answer(*request)); } else { assert(trace_routes(t).count(x) == 0); }
    //@|         if meth_contrib(rem, k + 1, rm, *request, x) {
    //@|             let i = choose|i: int| 0 <= i < k + 1 && (*#[trigger] rem[i].0)@ == rm && (*rem[i].1).answer(*request).count(x) > 0;
    //@|             if i < k { assert(meth_contrib(rem, k, rm, *request, x)); }
    //@|         }
    //@|         if meth_contrib(rem, k, rm, *request, x) {
    //@|             let i = choose|i: int| 0 <= i < k && (*#[trigger] rem[i].0)@ == rm && (*rem[i].1).answer(*request).count(x) > 0;
    //@|             assert((*rem[i].0)@ == rm);
    //@|         }
    //@|         if cond && matcher.answer(*request).count(x) > 0 { assert((*rem[k].0)@ == rm); }
    //@|     }
    //@| }
    //@| loopend 1: proof {
    //@|     let rem = vf_it1_rem0;
    //@|     lemma_forest_empty::<T>();
    //@|     assert forall|x: RouteRef<T>| #[trigger] forest_routes(traces@, traces@.len() as int).count(x) > 0 <==> (mid0.count(x) > 0 || method_bucket(mm, rm, *request).count(x) > 0) by {
    //@|         if meth_contrib(rem, rem.len() as int, rm, *request, x) {
    //@|             let i = choose|i: int| 0 <= i < rem.len() && (*#[trigger] rem[i].0)@ == rm && (*rem[i].1).answer(*request).count(x) > 0;
    //@|             let key = *rem[i].0;
    //@|             assert(mm.contains_key(key) && mm[key] == *rem[i].1);
    //@|             let key2 = choose|key2: String| key2@ == rm && mm.contains_key(key2);
    //@|             assert(key2 == key);
    //@|         }
    //@|         if method_bucket(mm, rm, *request).count(x) > 0 {
    //@|             let key = choose|key: String| key@ == rm && mm.contains_key(key);
    //@|             let i = choose|i: int| 0 <= i < rem.len() && *rem[i].0 == key;
    //@|             assert(mm[*rem[i].0] == *rem[i].1);
    //@|             assert((*rem[i].0)@ == rm);
    //@|         }
    //@|     }
    //@| }
    //@| before `if !found {`: let ghost t_end = traces@;
    //@| exit proof { if traces@.len() > t_end.len() { let t = traces@.last(); assert(traces@ =~= t_end.push(t)); lemma_forest_push(t_end, t); lemma_trace_node(t); lemma_forest_empty::<T>(); assert(forest_routes(traces@, traces@.len() as int) =~= forest_routes(t_end, t_end.len() as int)); } }
    //@| replace `method == request_method` => `*method == *request_method` :: `&String == &str` is defined by std as the comparison of the referents; Verus has no spec for the reference impl
    //@| outline `methods.contains(&request_method.into())` => `outl_methods_contains(methods, request_method)`
    //@| replace `methods.clone()`#0 => `outl_vecstring_clone(methods)` :: trace text only
    //@| replace `methods.clone()`#1 => `outl_vecstring_clone(methods)` :: trace text only
}

// ================================================================ path-and-query layer (C01)
// regex tree keyed by path patterns (unit `tree` proves find == linear scan of the stored patterns): abstract here
#[verifier::external_body] #[verifier::accept_recursive_types(V)] pub struct RegexTreeMap<V> { h: std::marker::PhantomData<V> }
impl<T> RegexTreeMap<RouteRef<T>> {
    pub uninterp spec fn matching(&self, haystack: Seq<char>) -> Multiset<RouteRef<T>>;    // == tree unit's scan_match
}
pub uninterp spec fn route_vals<T>(m: Map<String, RouteRef<T>>) -> Multiset<RouteRef<T>>;    // multiset of the values of an id -> route map
// R8 outlined expressions (iterator adapter chains): assumed std behaviour — clones of the found routes / of the map's values
#[verifier::external_body]
pub fn outl_find_cloned<T>(tree: &RegexTreeMap<RouteRef<T>>, path: &str) -> (r: Vec<RouteRef<T>>) ensures ms_of(r@) == tree.matching(path@)
{ /* verbatim: self .regex_tree_rule .find(path.as_str()) .iter() .map(|route| (*route).clone()) .collect() */ unimplemented!() }
#[verifier::external_body]
pub fn outl_values_cloned<T>(m: &HashMap<String, RouteRef<T>>) -> (r: Vec<RouteRef<T>>) ensures ms_of(r@) == route_vals(m@)
{ /* verbatim: static_storage.values().cloned().collect::<Vec<Arc<Route<T>>>>() | routes.values().cloned().collect::<Vec<Arc<Route<T>>>>() */ unimplemented!() }
//@@ item src/router/request_matcher/path_and_query.rs :: struct PathAndQueryMatcher
pub open spec fn static_bucket<T>(m: Map<String, HashMap<String, RouteRef<T>>>, s: Seq<char>) -> Multiset<RouteRef<T>> {
    if exists|key: String| key@ == s && m.contains_key(key) { let key = choose|key: String| key@ == s && m.contains_key(key); route_vals(m[key]@) } else { Multiset::empty() }
}
impl<T> PathAndQueryMatcher<T> {
    // statement: rules whose path pattern matches the normalised path-and-query, plus the rules whose literal equals it
    //@@ fn src/router/request_matcher/path_and_query.rs :: impl <T>PathAndQueryMatcher<T> / fn match_request -> r
    //@| ensures ms_of(r@) == self.regex_tree_rule.matching(req_path(*request)).add(static_bucket(self.static_rules@, req_path(*request))),
    //@| entry broadcast use vstd::std_specs::hash::group_hash_axioms; broadcast use axiom_string_key_model; broadcast use axiom_borrow_str_contains; broadcast use axiom_borrow_str_maps;
    //@|     proof { axiom_string_ext(); let a = self.regex_tree_rule.matching(req_path(*request)); assert(a.add(Multiset::empty()) =~= a); }
    //@| outline `self .regex_tree_rule .find(path.as_str()) .iter() .map(|route| (*route).clone()) .collect()` => `outl_find_cloned(&self.regex_tree_rule, path.as_str())`
    //@| outline `routes.extend(static_storage.values().cloned().collect::<Vec<Arc<Route<T>>>>());` => `ext_routes(&mut routes, outl_values_cloned(static_storage));`
}

// ================================================================ header layer (C01)
use std::collections::BTreeSet;
//@@ item src/router/request_matcher/header.rs :: enum ValueCondition
//@| opt keepderive:PartialEq,Eq,PartialOrd,Ord
//@@ item src/router/request_matcher/header.rs :: struct HeaderCondition
//@| opt keepderive:PartialEq,Eq,PartialOrd,Ord
// R1: derived Clone re-stated structurally (a clone is an equal value; uses: a String is determined by its characters)
impl Clone for ValueCondition {
    fn clone(&self) -> (r: Self) ensures r == *self {
        proof { axiom_string_ext(); }
        match self {
            ValueCondition::IsDefined => ValueCondition::IsDefined,
            ValueCondition::IsNotDefined => ValueCondition::IsNotDefined,
            ValueCondition::IsEquals(s) => ValueCondition::IsEquals(s.clone()),
            ValueCondition::IsNotEqualTo(s) => ValueCondition::IsNotEqualTo(s.clone()),
            ValueCondition::Contains(s) => ValueCondition::Contains(s.clone()),
            ValueCondition::DoesNotContain(s) => ValueCondition::DoesNotContain(s.clone()),
            ValueCondition::EndsWith(s) => ValueCondition::EndsWith(s.clone()),
            ValueCondition::StartsWith(s) => ValueCondition::StartsWith(s.clone()),
            ValueCondition::MatchRegex(s) => ValueCondition::MatchRegex(s.clone()),
        }
    }
}
impl Clone for HeaderCondition {
    fn clone(&self) -> (r: Self) ensures r == *self {
        proof { axiom_string_ext(); }
        HeaderCondition { header_name: self.header_name.clone(), condition: self.condition.clone() }
    }
}
// ASSUMED (trusted, listed): the derived Ord of these key types is a total order consistent with Eq (BTreeMap key model)
#[verifier::external_body] pub broadcast proof fn axiom_hc_key() ensures #[trigger] vstd::std_specs::btree::key_obeys_cmp_spec::<HeaderCondition>() {}
#[verifier::external_body] pub broadcast proof fn axiom_hcset_key() ensures #[trigger] vstd::std_specs::btree::key_obeys_cmp_spec::<BTreeSet<HeaderCondition>>() {}
#[verifier::external_body] #[verifier::accept_recursive_types(T)] pub struct SubDt<T> { h: std::marker::PhantomData<T> }
impl<T> SubDt<T> {
    pub uninterp spec fn answer(&self, request: Request) -> Multiset<RouteRef<T>>;
    #[verifier::external_body]
    pub fn match_request(&self, request: &Request) -> (r: Vec<RouteRef<T>>) ensures ms_of(r@) == self.answer(*request) { unimplemented!() }
    // C17 contract of a lower layer (verified on that layer's own trace()): the routes stored in its trace forest are its answer
    #[verifier::external_body]
    pub fn trace(&self, request: &Request) -> (r: Vec<Trace<T>>) ensures forest_routes(r@, r@.len() as int) == self.answer(*request) { unimplemented!() }
    #[verifier::external_body]
    pub fn len(&self) -> usize { unimplemented!() }
}
//@@ rename DateTimeMatcher SubDt
//@@ item src/router/request_matcher/header.rs :: struct HeaderMatcher
//@@ unrename DateTimeMatcher
// ---- header conditions (statement): existential kinds hold iff SOME value of the header satisfies them, negative kinds iff NO value violates them
pub uninterp spec fn str_contains(a: Seq<char>, b: Seq<char>) -> bool;       // substring test (std, uninterpreted)
pub open spec fn is_suffix(q: Seq<char>, p: Seq<char>) -> bool { q.len() <= p.len() && q == p.skip(p.len() - q.len()) }
pub open spec fn is_prefix(q: Seq<char>, p: Seq<char>) -> bool { q.len() <= p.len() && q == p.take(q.len() as int) }
pub uninterp spec fn hre_compiles(pat: Seq<char>) -> bool;                    // regex crate (uninterpreted)
pub uninterp spec fn hre_matches(pat: Seq<char>, h: Seq<char>) -> bool;
#[verifier::external_body] pub struct Regex { x: u8 }
#[verifier::external_body] pub struct RegexError { x: u8 }
pub uninterp spec fn hre_pat(r: Regex) -> Seq<char>;
impl Regex {
    #[verifier::external_body] pub fn new(re: &str) -> (r: std::result::Result<Regex, RegexError>) ensures r.is_ok() == hre_compiles(re@), r matches Ok(x) ==> hre_pat(x) == re@ { unimplemented!() }
    #[verifier::external_body] pub fn is_match(&self, h: &str) -> (r: bool) ensures r == hre_matches(hre_pat(*self), h@) { unimplemented!() }
}
// R8 outlined expressions (generic Pattern API of str): assumed std behaviour
#[verifier::external_body] pub fn outl_contains(a: &str, b: &str) -> (r: bool) ensures r == str_contains(a@, b@) { /* verbatim: value.contains(str.as_str()) */ a.contains(b) }
#[verifier::external_body] pub fn outl_ends_with(a: &str, b: &str) -> (r: bool) ensures r == is_suffix(b@, a@) { /* verbatim: value.ends_with(str.as_str()) */ a.ends_with(b) }
#[verifier::external_body] pub fn outl_starts_with(a: &str, b: &str) -> (r: bool) ensures r == is_prefix(b@, a@) { /* verbatim: value.starts_with(str.as_str()) */ a.starts_with(b) }
pub assume_specification<'a> [<&'a str as PartialEq<std::string::String>>::eq] (a: &&'a str, b: &std::string::String) -> (r: bool) ensures r == (a@ == b@);
pub assume_specification [<str as PartialEq<std::string::String>>::eq] (a: &str, b: &std::string::String) -> (r: bool) ensures r == (a@ == b@);
pub open spec fn some_value(vs: Seq<Seq<char>>, f: spec_fn(Seq<char>) -> bool) -> bool { exists|i: int| 0 <= i < vs.len() && f(#[trigger] vs[i]) }
pub open spec fn spec_match_value(c: ValueCondition, request: Request, name: Seq<char>) -> bool {
    let vs = hdr_values(request.headers@, name);
    match c {
        ValueCondition::IsDefined => vs.len() > 0,
        ValueCondition::IsNotDefined => vs.len() == 0,
        ValueCondition::IsEquals(s) => some_value(vs, |v: Seq<char>| v == s@),
        ValueCondition::IsNotEqualTo(s) => !some_value(vs, |v: Seq<char>| v == s@),
        ValueCondition::Contains(s) => some_value(vs, |v: Seq<char>| str_contains(v, s@)),
        ValueCondition::DoesNotContain(s) => !some_value(vs, |v: Seq<char>| str_contains(v, s@)),
        ValueCondition::EndsWith(s) => some_value(vs, |v: Seq<char>| is_suffix(s@, v)),
        ValueCondition::StartsWith(s) => some_value(vs, |v: Seq<char>| is_prefix(s@, v)),
        ValueCondition::MatchRegex(re) => hre_compiles(re@) && some_value(vs, |v: Seq<char>| hre_matches(re@, v)),
    }
}
pub open spec fn cond_true(c: HeaderCondition, request: Request) -> bool { spec_match_value(c.condition, request, c.header_name@) }
// statement: a group contributes iff ALL its conditions hold
pub open spec fn group_true(cs: Set<HeaderCondition>, request: Request) -> bool { forall|c: HeaderCondition| cs.contains(c) ==> cond_true(c, request) }
pub open spec fn some_upto(vs: Seq<Seq<char>>, f: spec_fn(Seq<char>) -> bool, n: int) -> bool { exists|i: int| 0 <= i < n && f(#[trigger] vs[i]) }
impl ValueCondition {
    //@@ fn src/router/request_matcher/header.rs :: impl ValueCondition / fn match_value -> r
    //@| ensures r == spec_match_value(*self, *request, name@),
    //@| forlabel 0: it
    //@| loopbefore 0: let ghost vs0 = values@;
    //@| loop 0: invariant iter_ok(it.history@, it.index@, it.snapshot@.remaining(), vs0), strs(vs0) == hdr_values(request.headers@, name@),
    //@|         result == some_upto(strs(vs0), |v: Seq<char>| v == str@, it.index@),
    //@| loophead 0: proof { assert(value == vs0[it.index@ as int]); assert(strs(vs0)[it.index@ as int] == value@); }
    //@| looptail 0: proof {
    //@|     let f = |v: Seq<char>| v == str@; let k = it.index@;
    //@|     if some_upto(strs(vs0), f, k + 1) { let i = choose|i: int| 0 <= i < k + 1 && f(#[trigger] strs(vs0)[i]); if i < k { assert(some_upto(strs(vs0), f, k)); } }
    //@|     if some_upto(strs(vs0), f, k) { let i = choose|i: int| 0 <= i < k && f(#[trigger] strs(vs0)[i]); assert(f(strs(vs0)[i])); }
    //@|     if f(strs(vs0)[k]) { assert(some_upto(strs(vs0), f, k + 1)); }
    //@| }
    //@| forlabel 1: it
    //@| loopbefore 1: let ghost vs0 = values@;
    //@| loop 1: invariant iter_ok(it.history@, it.index@, it.snapshot@.remaining(), vs0), strs(vs0) == hdr_values(request.headers@, name@),
    //@|         result == !some_upto(strs(vs0), |v: Seq<char>| v == str@, it.index@),
    //@| loophead 1: proof { assert(value == vs0[it.index@ as int]); assert(strs(vs0)[it.index@ as int] == value@); }
    //@| looptail 1: proof {
    //@|     let f = |v: Seq<char>| v == str@; let k = it.index@;
    //@|     if some_upto(strs(vs0), f, k + 1) { let i = choose|i: int| 0 <= i < k + 1 && f(#[trigger] strs(vs0)[i]); if i < k { assert(some_upto(strs(vs0), f, k)); } }
    //@|     if some_upto(strs(vs0), f, k) { let i = choose|i: int| 0 <= i < k && f(#[trigger] strs(vs0)[i]); assert(f(strs(vs0)[i])); }
    //@|     if f(strs(vs0)[k]) { assert(some_upto(strs(vs0), f, k + 1)); }
    //@| }
    //@| forlabel 2: it
    //@| loopbefore 2: let ghost vs0 = values@;
    //@| loop 2: invariant iter_ok(it.history@, it.index@, it.snapshot@.remaining(), vs0), strs(vs0) == hdr_values(request.headers@, name@),
    //@|         result == some_upto(strs(vs0), |v: Seq<char>| str_contains(v, str@), it.index@),
    //@| loophead 2: proof { assert(value == vs0[it.index@ as int]); assert(strs(vs0)[it.index@ as int] == value@); }
    //@| looptail 2: proof {
    //@|     let f = |v: Seq<char>| str_contains(v, str@); let k = it.index@;
    //@|     if some_upto(strs(vs0), f, k + 1) { let i = choose|i: int| 0 <= i < k + 1 && f(#[trigger] strs(vs0)[i]); if i < k { assert(some_upto(strs(vs0), f, k)); } }
    //@|     if some_upto(strs(vs0), f, k) { let i = choose|i: int| 0 <= i < k && f(#[trigger] strs(vs0)[i]); assert(f(strs(vs0)[i])); }
    //@|     if f(strs(vs0)[k]) { assert(some_upto(strs(vs0), f, k + 1)); }
    //@| }
    //@| forlabel 3: it
    //@| loopbefore 3: let ghost vs0 = values@;
    //@| loop 3: invariant iter_ok(it.history@, it.index@, it.snapshot@.remaining(), vs0), strs(vs0) == hdr_values(request.headers@, name@),
    //@|         result == !some_upto(strs(vs0), |v: Seq<char>| str_contains(v, str@), it.index@),
    //@| loophead 3: proof { assert(value == vs0[it.index@ as int]); assert(strs(vs0)[it.index@ as int] == value@); }
    //@| looptail 3: proof {
    //@|     let f = |v: Seq<char>| str_contains(v, str@); let k = it.index@;
    //@|     if some_upto(strs(vs0), f, k + 1) { let i = choose|i: int| 0 <= i < k + 1 && f(#[trigger] strs(vs0)[i]); if i < k { assert(some_upto(strs(vs0), f, k)); } }
    //@|     if some_upto(strs(vs0), f, k) { let i = choose|i: int| 0 <= i < k && f(#[trigger] strs(vs0)[i]); assert(f(strs(vs0)[i])); }
    //@|     if f(strs(vs0)[k]) { assert(some_upto(strs(vs0), f, k + 1)); }
    //@| }
    //@| forlabel 4: it
    //@| loopbefore 4: let ghost vs0 = values@;
    //@| loop 4: invariant iter_ok(it.history@, it.index@, it.snapshot@.remaining(), vs0), strs(vs0) == hdr_values(request.headers@, name@),
    //@|         result == some_upto(strs(vs0), |v: Seq<char>| is_suffix(str@, v), it.index@),
    //@| loophead 4: proof { assert(value == vs0[it.index@ as int]); assert(strs(vs0)[it.index@ as int] == value@); }
    //@| looptail 4: proof {
    //@|     let f = |v: Seq<char>| is_suffix(str@, v); let k = it.index@;
    //@|     if some_upto(strs(vs0), f, k + 1) { let i = choose|i: int| 0 <= i < k + 1 && f(#[trigger] strs(vs0)[i]); if i < k { assert(some_upto(strs(vs0), f, k)); } }
    //@|     if some_upto(strs(vs0), f, k) { let i = choose|i: int| 0 <= i < k && f(#[trigger] strs(vs0)[i]); assert(f(strs(vs0)[i])); }
    //@|     if f(strs(vs0)[k]) { assert(some_upto(strs(vs0), f, k + 1)); }
    //@| }
    //@| forlabel 5: it
    //@| loopbefore 5: let ghost vs0 = values@;
    //@| loop 5: invariant iter_ok(it.history@, it.index@, it.snapshot@.remaining(), vs0), strs(vs0) == hdr_values(request.headers@, name@),
    //@|         result == some_upto(strs(vs0), |v: Seq<char>| is_prefix(str@, v), it.index@),
    //@| loophead 5: proof { assert(value == vs0[it.index@ as int]); assert(strs(vs0)[it.index@ as int] == value@); }
    //@| looptail 5: proof {
    //@|     let f = |v: Seq<char>| is_prefix(str@, v); let k = it.index@;
    //@|     if some_upto(strs(vs0), f, k + 1) { let i = choose|i: int| 0 <= i < k + 1 && f(#[trigger] strs(vs0)[i]); if i < k { assert(some_upto(strs(vs0), f, k)); } }
    //@|     if some_upto(strs(vs0), f, k) { let i = choose|i: int| 0 <= i < k && f(#[trigger] strs(vs0)[i]); assert(f(strs(vs0)[i])); }
    //@|     if f(strs(vs0)[k]) { assert(some_upto(strs(vs0), f, k + 1)); }
    //@| }
    //@| forlabel 6: it
    //@| loopbefore 6: let ghost vs0 = values@;
    //@| loop 6: invariant iter_ok(it.history@, it.index@, it.snapshot@.remaining(), vs0), strs(vs0) == hdr_values(request.headers@, name@),
    //@|         result == some_upto(strs(vs0), |v: Seq<char>| hre_matches(regex_string@, v), it.index@), hre_pat(regex) == regex_string@,
    //@| loophead 6: proof { assert(header_value == vs0[it.index@ as int]); assert(strs(vs0)[it.index@ as int] == header_value@); }
    //@| looptail 6: proof {
    //@|     let f = |v: Seq<char>| hre_matches(regex_string@, v); let k = it.index@;
    //@|     if some_upto(strs(vs0), f, k + 1) { let i = choose|i: int| 0 <= i < k + 1 && f(#[trigger] strs(vs0)[i]); if i < k { assert(some_upto(strs(vs0), f, k)); } }
    //@|     if some_upto(strs(vs0), f, k) { let i = choose|i: int| 0 <= i < k && f(#[trigger] strs(vs0)[i]); assert(f(strs(vs0)[i])); }
    //@|     if f(strs(vs0)[k]) { assert(some_upto(strs(vs0), f, k + 1)); }
    //@| }
    //@| replace `value == str` => `*value == **str` :: `&str == &String` is defined by std as the comparison of the referents (`*a == *b`); Verus has no spec for the heterogeneous reference impl
    //@| replace `value != str` => `*value != **str` :: same as above
    //@| outline `value.contains(str.as_str())`#0 => `outl_contains(value, str.as_str())`
    //@| outline `value.contains(str.as_str())`#1 => `outl_contains(value, str.as_str())`
    //@| outline `value.ends_with(str.as_str())` => `outl_ends_with(value, str.as_str())`
    //@| outline `value.starts_with(str.as_str())` => `outl_starts_with(value, str.as_str())`
}
pub proof fn lemma_cover_sound<T>(r: Seq<&T>, st: Set<T>)
    requires r.no_duplicates(), st.finite(), r.len() == st.len(), forall|k: T| st.contains(k) ==> r.contains(&k),
    ensures forall|i: int| 0 <= i < r.len() ==> st.contains(*#[trigger] r[i]),
{
    let d = r.map_values(|x: &T| *x);
    assert forall|i: int, j: int| 0 <= i < d.len() && 0 <= j < d.len() && i != j implies d[i] != d[j] by { if d[i] == d[j] { assert(r[i] == r[j]); } }
    d.unique_seq_to_set();
    let ds = d.to_set();
    assert forall|k: T| st.contains(k) implies ds.contains(k) by {
        assert(r.contains(&k));
        let i = choose|i: int| 0 <= i < r.len() && r[i] == &k;
        assert(d[i] == k);
    }
    vstd::set_lib::lemma_len_subset(st, ds);
    vstd::set_lib::lemma_subset_equality(st, ds);
    assert forall|i: int| 0 <= i < r.len() implies st.contains(*#[trigger] r[i]) by { assert(d[i] == *r[i]); assert(ds.contains(d[i])); }
}
pub type GroupItem<'a, T> = (&'a BTreeSet<HeaderCondition>, &'a SubDt<T>);
// x is contributed by one of the first n groups (in iteration order) all of whose conditions hold
pub open spec fn contrib<T>(rem: Seq<GroupItem<T>>, n: int, request: Request, x: RouteRef<T>) -> bool {
    exists|i: int| 0 <= i < n && group_true((*#[trigger] rem[i].0)@, request) && (*rem[i].1).answer(request).count(x) > 0
}
pub proof fn lemma_contrib_false<T>(rem: Seq<GroupItem<T>>, n: int, request: Request)
    requires 1 <= n <= rem.len(), !group_true((*rem[n - 1].0)@, request),
    ensures forall|x: RouteRef<T>| #[trigger] contrib(rem, n, request, x) == contrib(rem, n - 1, request, x),
{
    assert forall|x: RouteRef<T>| #[trigger] contrib(rem, n, request, x) == contrib(rem, n - 1, request, x) by {
        if contrib(rem, n, request, x) {
            let i = choose|i: int| 0 <= i < n && group_true((*#[trigger] rem[i].0)@, request) && (*rem[i].1).answer(request).count(x) > 0;
            assert(i < n - 1);
        }
        if contrib(rem, n - 1, request, x) {
            let i = choose|i: int| 0 <= i < n - 1 && group_true((*#[trigger] rem[i].0)@, request) && (*rem[i].1).answer(request).count(x) > 0;
            assert(group_true((*rem[i].0)@, request));
        }
    }
}
pub proof fn lemma_contrib_true<T>(rem: Seq<GroupItem<T>>, n: int, request: Request)
    requires 1 <= n <= rem.len(), group_true((*rem[n - 1].0)@, request),
    ensures forall|x: RouteRef<T>| #[trigger] contrib(rem, n, request, x) == (contrib(rem, n - 1, request, x) || (*rem[n - 1].1).answer(request).count(x) > 0),
{
    assert forall|x: RouteRef<T>| #[trigger] contrib(rem, n, request, x) == (contrib(rem, n - 1, request, x) || (*rem[n - 1].1).answer(request).count(x) > 0) by {
        if contrib(rem, n, request, x) {
            let i = choose|i: int| 0 <= i < n && group_true((*#[trigger] rem[i].0)@, request) && (*rem[i].1).answer(request).count(x) > 0;
            if i < n - 1 { assert(group_true((*rem[i].0)@, request)); }
        }
        if contrib(rem, n - 1, request, x) {
            let i = choose|i: int| 0 <= i < n - 1 && group_true((*#[trigger] rem[i].0)@, request) && (*rem[i].1).answer(request).count(x) > 0;
            assert(group_true((*rem[i].0)@, request));
        }
        if (*rem[n - 1].1).answer(request).count(x) > 0 { assert(group_true((*rem[n - 1].0)@, request)); }
    }
}
impl<T> HeaderMatcher<T> {
    // membership-exact (a route is returned iff it comes from the no-condition bucket or from a group ALL of whose conditions hold);
    // multiplicities are not stated at this layer
    //@@ fn src/router/request_matcher/header.rs :: impl <T>HeaderMatcher<T> / fn match_request -> r
    //@| opt r5:0
    //@| opt r6:0
    //@| opt r5:1
    //@| opt r6i:1
    //@| attr #[verifier::loop_isolation(false)]
    //@| ensures forall|x: RouteRef<T>| r@.contains(x) <==> (self.any_header.answer(*request).count(x) > 0
    //@|     || exists|cs: BTreeSet<HeaderCondition>| self.condition_groups@.contains_key(cs) && group_true(cs@, *request) && #[trigger] self.condition_groups@[cs].answer(*request).count(x) > 0),
    //@| entry broadcast use vstd::seq_lib::group_to_multiset_ensures; broadcast use vstd::std_specs::btree::group_btree_axioms; broadcast use axiom_hc_key; broadcast use axiom_hcset_key;
    //@| loopbefore 0: let ghost any0 = rules@; let ghost gm = self.condition_groups@;
    //@|     proof { assert(forall|x: RouteRef<T>| any0.contains(x) <==> self.any_header.answer(*request).count(x) > 0); }
    //@| loop 0: invariant 0 <= vf_it0_idx <= vf_it0_rem0.len(), vf_it0.remaining() == vf_it0_rem0.skip(vf_it0_idx), vf_it0_rem0.len() == gm.len(),
    //@|         forall|c: HeaderCondition| execute_conditions@.contains_key(c) ==> #[trigger] execute_conditions@[c] == cond_true(c, *request),
    //@|         forall|x: RouteRef<T>| #[trigger] rules@.contains(x) <==> (any0.contains(x) || contrib(vf_it0_rem0, vf_it0_idx, *request, x)),
    //@|     decreases gm.len() - vf_it0_idx,
    //@| loophead 0: let ghost rules0 = rules@; proof { assert(conditions == vf_it0_rem0[vf_it0_idx - 1].0 && matcher == vf_it0_rem0[vf_it0_idx - 1].1); }
    //@| loopbefore 1: let ghost cset = conditions@;
    //@| loop 1: invariant 0 <= vf_it1_idx <= vf_it1_rem0.len(), vf_it1.remaining() == vf_it1_rem0.skip(vf_it1_idx), vf_it1_rem0.len() == cset.len(), rules@ == rules0,
    //@|         forall|c: HeaderCondition| execute_conditions@.contains_key(c) ==> #[trigger] execute_conditions@[c] == cond_true(c, *request),
    //@|         forall|i: int| 0 <= i < vf_it1_idx ==> cond_true(*#[trigger] vf_it1_rem0[i], *request),
    //@|     decreases cset.len() - vf_it1_idx,
    //@| loophead 1: proof { assert(condition == vf_it1_rem0[vf_it1_idx - 1]); lemma_cover_sound(vf_it1_rem0, cset); assert(cset.contains(*condition)); }
    //@| before `continue 'group;`#*: proof { assert(!cond_true(*condition, *request)); assert(!group_true(cset, *request)); lemma_contrib_false(vf_it0_rem0, vf_it0_idx, *request); }
    //@| loopend 1: proof {
    //@|     assert forall|c: HeaderCondition| cset.contains(c) implies cond_true(c, *request) by {
    //@|         assert(vf_it1_rem0.contains(&c));
    //@|         let i = choose|i: int| 0 <= i < vf_it1_rem0.len() && vf_it1_rem0[i] == &c;
    //@|         assert(cond_true(*vf_it1_rem0[i], *request));
    //@|     }
    //@|     assert(group_true(cset, *request));
    //@|     lemma_contrib_true(vf_it0_rem0, vf_it0_idx, *request);
    //@| }
    //@| looptail 0: proof {
    //@|     let other = rules@.subrange(rules0.len() as int, rules@.len() as int);
    //@|     assert(rules@ =~= rules0 + other);
    //@|     assert forall|x: RouteRef<T>| #[trigger] rules@.contains(x) <==> (rules0.contains(x) || matcher.answer(*request).count(x) > 0) by {
    //@|         lemma_ms_add(rules0, other);
    //@|         assert(ms_of(rules@).count(x) == ms_of(rules0).count(x) + ms_of(other).count(x));
    //@|     }
    //@| }
    //@| loopend 0: proof {
    //@|     assert forall|x: RouteRef<T>| contrib(vf_it0_rem0, vf_it0_rem0.len() as int, *request, x) <==> (exists|cs: BTreeSet<HeaderCondition>| gm.contains_key(cs) && group_true(cs@, *request) && #[trigger] gm[cs].answer(*request).count(x) > 0) by {
    //@|         if contrib(vf_it0_rem0, vf_it0_rem0.len() as int, *request, x) {
    //@|             let i = choose|i: int| 0 <= i < vf_it0_rem0.len() && group_true((*#[trigger] vf_it0_rem0[i].0)@, *request) && (*vf_it0_rem0[i].1).answer(*request).count(x) > 0;
    //@|             let cs = *vf_it0_rem0[i].0;
    //@|             assert(gm.contains_key(cs) && gm[cs] == *vf_it0_rem0[i].1);
    //@|             assert(gm[cs].answer(*request).count(x) > 0);
    //@|         }
    //@|         if exists|cs: BTreeSet<HeaderCondition>| gm.contains_key(cs) && group_true(cs@, *request) && #[trigger] gm[cs].answer(*request).count(x) > 0 {
    //@|             let cs = choose|cs: BTreeSet<HeaderCondition>| gm.contains_key(cs) && group_true(cs@, *request) && #[trigger] gm[cs].answer(*request).count(x) > 0;
    //@|             let i = choose|i: int| 0 <= i < vf_it0_rem0.len() && *vf_it0_rem0[i].0 == cs;
    //@|             assert(gm[*vf_it0_rem0[i].0] == *vf_it0_rem0[i].1);
    //@|             assert(group_true((*vf_it0_rem0[i].0)@, *request));
    //@|         }
    //@|     }
    //@| }
    //@| outline `rules.extend(matcher.match_request(request));` => `ext_routes(&mut rules, matcher.match_request(request));`
}

// ---- C17 for the header layer: the routes in the trace forest are exactly the routes match_request returns (membership-exact, same
// right-hand side as match_request's contract), including the memoisation of condition results across groups
pub proof fn lemma_forest_push<T>(ts: Seq<Trace<T>>, t: Trace<T>)
    ensures forest_routes(ts.push(t), ts.len() as int + 1) == forest_routes(ts, ts.len() as int).add(trace_routes(t)),
{
    let p = ts.push(t);
    lemma_forest_prefix(p, ts, ts.len() as int);
}
pub proof fn lemma_forest_prefix<T>(a: Seq<Trace<T>>, b: Seq<Trace<T>>, k: int)
    requires 0 <= k <= a.len(), k <= b.len(), forall|i: int| 0 <= i < k ==> a[i] == b[i],
    ensures forest_routes(a, k) == forest_routes(b, k),
    decreases k,
{ if k > 0 { lemma_forest_prefix(a, b, k - 1); } }
impl<T> HeaderMatcher<T> {
    //@@ fn src/router/request_matcher/header.rs :: impl <T>HeaderMatcher<T> / fn trace -> r
    //@| opt r5:0
    //@| opt r6:0
    //@| opt r5:1
    //@| opt r6i:1
    //@| attr #[verifier::loop_isolation(false)]
    //@| ensures forall|x: RouteRef<T>| forest_routes(r@, r@.len() as int).count(x) > 0 <==> (self.any_header.answer(*request).count(x) > 0
    //@|     || exists|cs: BTreeSet<HeaderCondition>| self.condition_groups@.contains_key(cs) && group_true(cs@, *request) && #[trigger] self.condition_groups@[cs].answer(*request).count(x) > 0),
    //@| entry broadcast use vstd::seq_lib::group_to_multiset_ensures; broadcast use vstd::std_specs::btree::group_btree_axioms; broadcast use axiom_hc_key; broadcast use axiom_hcset_key;
    //@| loopbefore 0: let ghost any0 = forest_routes(traces@, traces@.len() as int); let ghost gm = self.condition_groups@;
    //@|     proof { assert(any0 == self.any_header.answer(*request)); }
    //@| loop 0: invariant 0 <= vf_it0_idx <= vf_it0_rem0.len(), vf_it0.remaining() == vf_it0_rem0.skip(vf_it0_idx), vf_it0_rem0.len() == gm.len(),
    //@|         forall|c: HeaderCondition| execute_conditions@.contains_key(c) ==> #[trigger] execute_conditions@[c] == cond_true(c, *request),
    //@|         forall|x: RouteRef<T>| #[trigger] forest_routes(traces@, traces@.len() as int).count(x) > 0 <==> (any0.count(x) > 0 || contrib(vf_it0_rem0, vf_it0_idx, *request, x)),
    //@|     decreases gm.len() - vf_it0_idx,
    //@| loophead 0: let ghost traces0 = traces@; proof { assert(conditions == vf_it0_rem0[vf_it0_idx - 1].0 && matcher == vf_it0_rem0[vf_it0_idx - 1].1); }
    //@| loopbefore 1: let ghost cset = conditions@;
    //@| loop 1: invariant 0 <= vf_it1_idx <= vf_it1_rem0.len(), vf_it1.remaining() == vf_it1_rem0.skip(vf_it1_idx), vf_it1_rem0.len() == cset.len(), traces@ == traces0,
    //@|         forall|c: HeaderCondition| execute_conditions@.contains_key(c) ==> #[trigger] execute_conditions@[c] == cond_true(c, *request),
    //@|         matched == (forall|i: int| 0 <= i < vf_it1_idx ==> cond_true(*#[trigger] vf_it1_rem0[i], *request)), executed == matched,
    //@|     decreases cset.len() - vf_it1_idx,
    //@| loophead 1: let ghost m_prev = matched; proof { assert(condition == vf_it1_rem0[vf_it1_idx - 1]); lemma_cover_sound(vf_it1_rem0, cset); assert(cset.contains(*condition)); }
    //@| looptail 1: proof {
    //@|     assert(matched == (m_prev && cond_true(*condition, *request)));
    //@|     if matched { assert forall|i: int| 0 <= i < vf_it1_idx implies cond_true(*#[trigger] vf_it1_rem0[i], *request) by { if i == vf_it1_idx - 1 {} else {} } }
    //@|     else if m_prev { assert(!cond_true(*vf_it1_rem0[vf_it1_idx - 1], *request)); }
    //@|     else { let i = choose|i: int| 0 <= i < vf_it1_idx - 1 && !cond_true(*#[trigger] vf_it1_rem0[i], *request); assert(!cond_true(*vf_it1_rem0[i], *request)); }
    //@| }
    //@| loopend 1: proof {
    //@|     if matched {
    //@|         assert forall|c: HeaderCondition| cset.contains(c) implies cond_true(c, *request) by {
    //@|             assert(vf_it1_rem0.contains(&c));
    //@|             let i = choose|i: int| 0 <= i < vf_it1_rem0.len() && vf_it1_rem0[i] == &c;
    //@|             assert(cond_true(*vf_it1_rem0[i], *request));
    //@|         }
    //@|         assert(group_true(cset, *request));
    //@|         lemma_contrib_true(vf_it0_rem0, vf_it0_idx, *request);
    //@|     } else {
    //@|         let i = choose|i: int| 0 <= i < vf_it1_rem0.len() && !cond_true(*#[trigger] vf_it1_rem0[i], *request);
    //@|         lemma_cover_sound(vf_it1_rem0, cset);
    //@|         assert(cset.contains(*vf_it1_rem0[i]));
    //@|         assert(!group_true(cset, *request));
    //@|         lemma_contrib_false(vf_it0_rem0, vf_it0_idx, *request);
    //@|     }
    //@| }
    //@| looptail 0: proof {
    //@|     let t = traces@.last();
    //@|     assert(traces@ =~= traces0.push(t));
    //@|     lemma_forest_push(traces0, t);
    //@|     assert(stored(t) == Multiset::<RouteRef<T>>::empty());
    //@|     lemma_ms_empty::<T>();
    //@|     assert(trace_routes(t) =~= forest_routes(t.children@, t.children@.len() as int));
    //@|     if matched { assert(trace_routes(t) == matcher.answer(*request)); } else { assert(trace_routes(t) =~= Multiset::<RouteRef<T>>::empty()); }
    //@| }
    //@| loopend 0: proof {
    //@|     assert forall|x: RouteRef<T>| contrib(vf_it0_rem0, vf_it0_rem0.len() as int, *request, x) <==> (exists|cs: BTreeSet<HeaderCondition>| gm.contains_key(cs) && group_true(cs@, *request) && #[trigger] gm[cs].answer(*request).count(x) > 0) by {
    //@|         if contrib(vf_it0_rem0, vf_it0_rem0.len() as int, *request, x) {
    //@|             let i = choose|i: int| 0 <= i < vf_it0_rem0.len() && group_true((*#[trigger] vf_it0_rem0[i].0)@, *request) && (*vf_it0_rem0[i].1).answer(*request).count(x) > 0;
    //@|             let cs = *vf_it0_rem0[i].0;
    //@|             assert(gm.contains_key(cs) && gm[cs] == *vf_it0_rem0[i].1);
    //@|             assert(gm[cs].answer(*request).count(x) > 0);
    //@|         }
    //@|         if exists|cs: BTreeSet<HeaderCondition>| gm.contains_key(cs) && group_true(cs@, *request) && #[trigger] gm[cs].answer(*request).count(x) > 0 {
    //@|             let cs = choose|cs: BTreeSet<HeaderCondition>| gm.contains_key(cs) && group_true(cs@, *request) && #[trigger] gm[cs].answer(*request).count(x) > 0;
    //@|             let i = choose|i: int| 0 <= i < vf_it0_rem0.len() && *vf_it0_rem0[i].0 == cs;
    //@|             assert(gm[*vf_it0_rem0[i].0] == *vf_it0_rem0[i].1);
    //@|             assert(group_true((*vf_it0_rem0[i].0)@, *request));
    //@|         }
    //@|     }
    //@| }
}

// ================================================================ date-time layer (C01)
//@@ item src/router/request_matcher/datetime.rs :: enum DateTimeCondition
//@| opt keepderive:PartialEq,Eq,PartialOrd,Ord
// R1: derived Clone re-stated (structural; assumed equal value for the Vec payloads via the shim clones)
impl Clone for DateTimeCondition { #[verifier::external_body] fn clone(&self) -> (r: Self) ensures r == *self { unimplemented!() } }
#[verifier::external_body] pub broadcast proof fn axiom_dtc_key() ensures #[trigger] vstd::std_specs::btree::key_obeys_cmp_spec::<DateTimeCondition>() {}
#[verifier::external_body] pub broadcast proof fn axiom_dtcset_key() ensures #[trigger] vstd::std_specs::btree::key_obeys_cmp_spec::<BTreeSet<DateTimeCondition>>() {}
//@@ rename PathAndQueryMatcher SubPath
//@@ item src/router/request_matcher/datetime.rs :: struct DateTimeMatcher
//@@ unrename PathAndQueryMatcher
// statement: a date-time condition holds iff the request carries a creation time and SOME range / the weekday set admits it
pub open spec fn dt_cond_true(c: DateTimeCondition, request: Request) -> bool {
    request.created_at matches Some(d) && match c {
        DateTimeCondition::DateTimeRange(v) => exists|i: int| 0 <= i < v@.len() && sat_datetime(#[trigger] v@[i], d),
        DateTimeCondition::TimeRange(v) => exists|i: int| 0 <= i < v@.len() && sat_time(#[trigger] v@[i], d),
        DateTimeCondition::Weekdays(w) => sat_weekday(w, d),
    }
}
pub open spec fn dt_group_true(cs: Set<DateTimeCondition>, request: Request) -> bool { forall|c: DateTimeCondition| cs.contains(c) ==> dt_cond_true(c, request) }
impl DateTimeCondition {
    //@@ fn src/router/request_matcher/datetime.rs :: impl DateTimeCondition / fn match_value -> r
    //@| ensures r == dt_cond_true(*self, *request),
    //@| forlabel 0: it
    //@| loop 0: invariant iter_ref_ok(it.history@, it.index@, it.snapshot@.remaining(), route_date_time@), forall|i: int| 0 <= i < it.index@ ==> !sat_datetime(#[trigger] route_date_time@[i], *datetime),
    //@|         request.created_at == Some(*datetime), *self == DateTimeCondition::DateTimeRange(*route_date_time),
    //@| loophead 0: proof { assert(*range == route_date_time@[it.index@ as int]); }
    //@| forlabel 1: it
    //@| loop 1: invariant iter_ref_ok(it.history@, it.index@, it.snapshot@.remaining(), route_time@), forall|i: int| 0 <= i < it.index@ ==> !sat_time(#[trigger] route_time@[i], *datetime),
    //@|         request.created_at == Some(*datetime), *self == DateTimeCondition::TimeRange(*route_time),
    //@| loophead 1: proof { assert(*range == route_time@[it.index@ as int]); }
    //@| before `return true;`#0: proof { assert(sat_datetime(route_date_time@[it.index@ as int], *datetime)); assert(request.created_at matches Some(d) && d == *datetime); assert(*self matches DateTimeCondition::DateTimeRange(v) && v@ == route_date_time@); assert(dt_cond_true(*self, *request)); }
    //@| before `return true;`#1: proof { assert(sat_time(route_time@[it.index@ as int], *datetime)); assert(request.created_at matches Some(d) && d == *datetime); assert(*self matches DateTimeCondition::TimeRange(v) && v@ == route_time@); assert(dt_cond_true(*self, *request)); }
}
pub type DtGroupItem<'a, T> = (&'a BTreeSet<DateTimeCondition>, &'a SubPath<T>);
// x is contrib_dtuted by one of the first n groups (in iteration order) all of whose conditions hold
pub open spec fn contrib_dt<T>(rem: Seq<DtGroupItem<T>>, n: int, request: Request, x: RouteRef<T>) -> bool {
    exists|i: int| 0 <= i < n && dt_group_true((*#[trigger] rem[i].0)@, request) && (*rem[i].1).answer(request).count(x) > 0
}
pub proof fn lemma_contrib_false_dt<T>(rem: Seq<DtGroupItem<T>>, n: int, request: Request)
    requires 1 <= n <= rem.len(), !dt_group_true((*rem[n - 1].0)@, request),
    ensures forall|x: RouteRef<T>| #[trigger] contrib_dt(rem, n, request, x) == contrib_dt(rem, n - 1, request, x),
{
    assert forall|x: RouteRef<T>| #[trigger] contrib_dt(rem, n, request, x) == contrib_dt(rem, n - 1, request, x) by {
        if contrib_dt(rem, n, request, x) {
            let i = choose|i: int| 0 <= i < n && dt_group_true((*#[trigger] rem[i].0)@, request) && (*rem[i].1).answer(request).count(x) > 0;
            assert(i < n - 1);
        }
        if contrib_dt(rem, n - 1, request, x) {
            let i = choose|i: int| 0 <= i < n - 1 && dt_group_true((*#[trigger] rem[i].0)@, request) && (*rem[i].1).answer(request).count(x) > 0;
            assert(dt_group_true((*rem[i].0)@, request));
        }
    }
}
pub proof fn lemma_contrib_true_dt<T>(rem: Seq<DtGroupItem<T>>, n: int, request: Request)
    requires 1 <= n <= rem.len(), dt_group_true((*rem[n - 1].0)@, request),
    ensures forall|x: RouteRef<T>| #[trigger] contrib_dt(rem, n, request, x) == (contrib_dt(rem, n - 1, request, x) || (*rem[n - 1].1).answer(request).count(x) > 0),
{
    assert forall|x: RouteRef<T>| #[trigger] contrib_dt(rem, n, request, x) == (contrib_dt(rem, n - 1, request, x) || (*rem[n - 1].1).answer(request).count(x) > 0) by {
        if contrib_dt(rem, n, request, x) {
            let i = choose|i: int| 0 <= i < n && dt_group_true((*#[trigger] rem[i].0)@, request) && (*rem[i].1).answer(request).count(x) > 0;
            if i < n - 1 { assert(dt_group_true((*rem[i].0)@, request)); }
        }
        if contrib_dt(rem, n - 1, request, x) {
            let i = choose|i: int| 0 <= i < n - 1 && dt_group_true((*#[trigger] rem[i].0)@, request) && (*rem[i].1).answer(request).count(x) > 0;
            assert(dt_group_true((*rem[i].0)@, request));
        }
        if (*rem[n - 1].1).answer(request).count(x) > 0 { assert(dt_group_true((*rem[n - 1].0)@, request)); }
    }
}
impl<T> DateTimeMatcher<T> {
    // membership-exact (a route is returned iff it comes from the no-condition bucket or from a group ALL of whose conditions hold);
    // multiplicities are not stated at this layer
    //@@ fn src/router/request_matcher/datetime.rs :: impl <T>DateTimeMatcher<T> / fn match_request -> r
    //@| opt r5:0
    //@| opt r6:0
    //@| opt r5:1
    //@| opt r6i:1
    //@| attr #[verifier::loop_isolation(false)]
    //@| ensures forall|x: RouteRef<T>| r@.contains(x) <==> (self.any_datetime.answer(*request).count(x) > 0
    //@|     || exists|cs: BTreeSet<DateTimeCondition>| self.condition_groups@.contains_key(cs) && dt_group_true(cs@, *request) && #[trigger] self.condition_groups@[cs].answer(*request).count(x) > 0),
    //@| entry broadcast use vstd::seq_lib::group_to_multiset_ensures; broadcast use vstd::std_specs::btree::group_btree_axioms; broadcast use axiom_dtc_key; broadcast use axiom_dtcset_key;
    //@| loopbefore 0: let ghost any0 = rules@; let ghost gm = self.condition_groups@;
    //@|     proof { assert(forall|x: RouteRef<T>| any0.contains(x) <==> self.any_datetime.answer(*request).count(x) > 0); }
    //@| loop 0: invariant 0 <= vf_it0_idx <= vf_it0_rem0.len(), vf_it0.remaining() == vf_it0_rem0.skip(vf_it0_idx), vf_it0_rem0.len() == gm.len(),
    //@|         forall|c: DateTimeCondition| execute_conditions@.contains_key(c) ==> #[trigger] execute_conditions@[c] == dt_cond_true(c, *request),
    //@|         forall|x: RouteRef<T>| #[trigger] rules@.contains(x) <==> (any0.contains(x) || contrib_dt(vf_it0_rem0, vf_it0_idx, *request, x)),
    //@|     decreases gm.len() - vf_it0_idx,
    //@| loophead 0: let ghost rules0 = rules@; proof { assert(conditions == vf_it0_rem0[vf_it0_idx - 1].0 && matcher == vf_it0_rem0[vf_it0_idx - 1].1); }
    //@| loopbefore 1: let ghost cset = conditions@;
    //@| loop 1: invariant 0 <= vf_it1_idx <= vf_it1_rem0.len(), vf_it1.remaining() == vf_it1_rem0.skip(vf_it1_idx), vf_it1_rem0.len() == cset.len(), rules@ == rules0,
    //@|         forall|c: DateTimeCondition| execute_conditions@.contains_key(c) ==> #[trigger] execute_conditions@[c] == dt_cond_true(c, *request),
    //@|         forall|i: int| 0 <= i < vf_it1_idx ==> dt_cond_true(*#[trigger] vf_it1_rem0[i], *request),
    //@|     decreases cset.len() - vf_it1_idx,
    //@| loophead 1: proof { assert(condition == vf_it1_rem0[vf_it1_idx - 1]); lemma_cover_sound(vf_it1_rem0, cset); assert(cset.contains(*condition)); }
    //@| before `continue 'group;`#*: proof { assert(!dt_cond_true(*condition, *request)); assert(!dt_group_true(cset, *request)); lemma_contrib_false_dt(vf_it0_rem0, vf_it0_idx, *request); }
    //@| loopend 1: proof {
    //@|     assert forall|c: DateTimeCondition| cset.contains(c) implies dt_cond_true(c, *request) by {
    //@|         assert(vf_it1_rem0.contains(&c));
    //@|         let i = choose|i: int| 0 <= i < vf_it1_rem0.len() && vf_it1_rem0[i] == &c;
    //@|         assert(dt_cond_true(*vf_it1_rem0[i], *request));
    //@|     }
    //@|     assert(dt_group_true(cset, *request));
    //@|     lemma_contrib_true_dt(vf_it0_rem0, vf_it0_idx, *request);
    //@| }
    //@| looptail 0: proof {
    //@|     let other = rules@.subrange(rules0.len() as int, rules@.len() as int);
    //@|     assert(rules@ =~= rules0 + other);
    //@|     assert forall|x: RouteRef<T>| #[trigger] rules@.contains(x) <==> (rules0.contains(x) || matcher.answer(*request).count(x) > 0) by {
    //@|         lemma_ms_add(rules0, other);
    //@|         assert(ms_of(rules@).count(x) == ms_of(rules0).count(x) + ms_of(other).count(x));
    //@|     }
    //@| }
    //@| loopend 0: proof {
    //@|     assert forall|x: RouteRef<T>| contrib_dt(vf_it0_rem0, vf_it0_rem0.len() as int, *request, x) <==> (exists|cs: BTreeSet<DateTimeCondition>| gm.contains_key(cs) && dt_group_true(cs@, *request) && #[trigger] gm[cs].answer(*request).count(x) > 0) by {
    //@|         if contrib_dt(vf_it0_rem0, vf_it0_rem0.len() as int, *request, x) {
    //@|             let i = choose|i: int| 0 <= i < vf_it0_rem0.len() && dt_group_true((*#[trigger] vf_it0_rem0[i].0)@, *request) && (*vf_it0_rem0[i].1).answer(*request).count(x) > 0;
    //@|             let cs = *vf_it0_rem0[i].0;
    //@|             assert(gm.contains_key(cs) && gm[cs] == *vf_it0_rem0[i].1);
    //@|             assert(gm[cs].answer(*request).count(x) > 0);
    //@|         }
    //@|         if exists|cs: BTreeSet<DateTimeCondition>| gm.contains_key(cs) && dt_group_true(cs@, *request) && #[trigger] gm[cs].answer(*request).count(x) > 0 {
    //@|             let cs = choose|cs: BTreeSet<DateTimeCondition>| gm.contains_key(cs) && dt_group_true(cs@, *request) && #[trigger] gm[cs].answer(*request).count(x) > 0;
    //@|             let i = choose|i: int| 0 <= i < vf_it0_rem0.len() && *vf_it0_rem0[i].0 == cs;
    //@|             assert(gm[*vf_it0_rem0[i].0] == *vf_it0_rem0[i].1);
    //@|             assert(dt_group_true((*vf_it0_rem0[i].0)@, *request));
    //@|         }
    //@|     }
    //@| }
    //@| outline `rules.extend(matcher.match_request(request));` => `ext_routes(&mut rules, matcher.match_request(request));`
}

// ---- C17 for the date-time layer (same shape as the header layer)
impl<T> DateTimeMatcher<T> {
    //@@ fn src/router/request_matcher/datetime.rs :: impl <T>DateTimeMatcher<T> / fn trace -> r
    //@| opt r5:0
    //@| opt r6:0
    //@| opt r5:1
    //@| opt r6i:1
    //@| attr #[verifier::loop_isolation(false)]
    //@| ensures forall|x: RouteRef<T>| forest_routes(r@, r@.len() as int).count(x) > 0 <==> (self.any_datetime.answer(*request).count(x) > 0
    //@|     || exists|cs: BTreeSet<DateTimeCondition>| self.condition_groups@.contains_key(cs) && dt_group_true(cs@, *request) && #[trigger] self.condition_groups@[cs].answer(*request).count(x) > 0),
    //@| entry broadcast use vstd::seq_lib::group_to_multiset_ensures; broadcast use vstd::std_specs::btree::group_btree_axioms; broadcast use axiom_dtc_key; broadcast use axiom_dtcset_key;
    //@| loopbefore 0: let ghost any0 = forest_routes(traces@, traces@.len() as int); let ghost gm = self.condition_groups@;
    //@|     proof { assert(any0 == self.any_datetime.answer(*request)); }
    //@| loop 0: invariant 0 <= vf_it0_idx <= vf_it0_rem0.len(), vf_it0.remaining() == vf_it0_rem0.skip(vf_it0_idx), vf_it0_rem0.len() == gm.len(),
    //@|         forall|c: DateTimeCondition| execute_conditions@.contains_key(c) ==> #[trigger] execute_conditions@[c] == dt_cond_true(c, *request),
    //@|         forall|x: RouteRef<T>| #[trigger] forest_routes(traces@, traces@.len() as int).count(x) > 0 <==> (any0.count(x) > 0 || contrib_dt(vf_it0_rem0, vf_it0_idx, *request, x)),
    //@|     decreases gm.len() - vf_it0_idx,
    //@| loophead 0: let ghost traces0 = traces@; proof { assert(conditions == vf_it0_rem0[vf_it0_idx - 1].0 && matcher == vf_it0_rem0[vf_it0_idx - 1].1); }
    //@| loopbefore 1: let ghost cset = conditions@;
    //@| loop 1: invariant 0 <= vf_it1_idx <= vf_it1_rem0.len(), vf_it1.remaining() == vf_it1_rem0.skip(vf_it1_idx), vf_it1_rem0.len() == cset.len(), traces@ == traces0,
    //@|         forall|c: DateTimeCondition| execute_conditions@.contains_key(c) ==> #[trigger] execute_conditions@[c] == dt_cond_true(c, *request),
    //@|         matched == (forall|i: int| 0 <= i < vf_it1_idx ==> dt_cond_true(*#[trigger] vf_it1_rem0[i], *request)), executed == matched,
    //@|     decreases cset.len() - vf_it1_idx,
    //@| loophead 1: let ghost m_prev = matched; proof { assert(condition == vf_it1_rem0[vf_it1_idx - 1]); lemma_cover_sound(vf_it1_rem0, cset); assert(cset.contains(*condition)); }
    //@| looptail 1: proof {
    //@|     assert(matched == (m_prev && dt_cond_true(*condition, *request)));
    //@|     if matched { assert forall|i: int| 0 <= i < vf_it1_idx implies dt_cond_true(*#[trigger] vf_it1_rem0[i], *request) by { if i == vf_it1_idx - 1 {} else {} } }
    //@|     else if m_prev { assert(!dt_cond_true(*vf_it1_rem0[vf_it1_idx - 1], *request)); }
    //@|     else { let i = choose|i: int| 0 <= i < vf_it1_idx - 1 && !dt_cond_true(*#[trigger] vf_it1_rem0[i], *request); assert(!dt_cond_true(*vf_it1_rem0[i], *request)); }
    //@| }
    //@| loopend 1: proof {
    //@|     if matched {
    //@|         assert forall|c: DateTimeCondition| cset.contains(c) implies dt_cond_true(c, *request) by {
    //@|             assert(vf_it1_rem0.contains(&c));
    //@|             let i = choose|i: int| 0 <= i < vf_it1_rem0.len() && vf_it1_rem0[i] == &c;
    //@|             assert(dt_cond_true(*vf_it1_rem0[i], *request));
    //@|         }
    //@|         assert(dt_group_true(cset, *request));
    //@|         lemma_contrib_true_dt(vf_it0_rem0, vf_it0_idx, *request);
    //@|     } else {
    //@|         let i = choose|i: int| 0 <= i < vf_it1_rem0.len() && !dt_cond_true(*#[trigger] vf_it1_rem0[i], *request);
    //@|         lemma_cover_sound(vf_it1_rem0, cset);
    //@|         assert(cset.contains(*vf_it1_rem0[i]));
    //@|         assert(!dt_group_true(cset, *request));
    //@|         lemma_contrib_false_dt(vf_it0_rem0, vf_it0_idx, *request);
    //@|     }
    //@| }
    //@| looptail 0: proof {
    //@|     let t = traces@.last();
    //@|     assert(traces@ =~= traces0.push(t));
    //@|     lemma_forest_push(traces0, t);
    //@|     assert(stored(t) == Multiset::<RouteRef<T>>::empty());
    //@|     lemma_ms_empty::<T>();
    //@|     assert(trace_routes(t) =~= forest_routes(t.children@, t.children@.len() as int));
    //@|     if matched { assert(trace_routes(t) == matcher.answer(*request)); } else { assert(trace_routes(t) =~= Multiset::<RouteRef<T>>::empty()); }
    //@| }
    //@| loopend 0: proof {
    //@|     assert forall|x: RouteRef<T>| contrib_dt(vf_it0_rem0, vf_it0_rem0.len() as int, *request, x) <==> (exists|cs: BTreeSet<DateTimeCondition>| gm.contains_key(cs) && dt_group_true(cs@, *request) && #[trigger] gm[cs].answer(*request).count(x) > 0) by {
    //@|         if contrib_dt(vf_it0_rem0, vf_it0_rem0.len() as int, *request, x) {
    //@|             let i = choose|i: int| 0 <= i < vf_it0_rem0.len() && dt_group_true((*#[trigger] vf_it0_rem0[i].0)@, *request) && (*vf_it0_rem0[i].1).answer(*request).count(x) > 0;
    //@|             let cs = *vf_it0_rem0[i].0;
    //@|             assert(gm.contains_key(cs) && gm[cs] == *vf_it0_rem0[i].1);
    //@|             assert(gm[cs].answer(*request).count(x) > 0);
    //@|         }
    //@|         if exists|cs: BTreeSet<DateTimeCondition>| gm.contains_key(cs) && dt_group_true(cs@, *request) && #[trigger] gm[cs].answer(*request).count(x) > 0 {
    //@|             let cs = choose|cs: BTreeSet<DateTimeCondition>| gm.contains_key(cs) && dt_group_true(cs@, *request) && #[trigger] gm[cs].answer(*request).count(x) > 0;
    //@|             let i = choose|i: int| 0 <= i < vf_it0_rem0.len() && *vf_it0_rem0[i].0 == cs;
    //@|             assert(gm[*vf_it0_rem0[i].0] == *vf_it0_rem0[i].1);
    //@|             assert(dt_group_true((*vf_it0_rem0[i].0)@, *request));
    //@|         }
    //@|     }
    //@| }
}

// ================================================================ traces (C17)
pub type HeaderValueCondition = ValueCondition;
//@@ item src/router/trace.rs :: struct TraceInfoHeaderCondition
//@@ item src/router/trace.rs :: struct TraceInfoDateTimeCondition
//@@ item src/router/trace.rs :: enum TraceInfo
//@@ item src/router/trace.rs :: struct Trace
// all routes stored anywhere in a trace forest (reference: the rules "appearing in the match trace")
pub open spec fn stored<T>(t: Trace<T>) -> Multiset<RouteRef<T>> {
    match t.info { TraceInfo::Storage { routes } => ms_of(routes@), _ => Multiset::empty() }
}
pub open spec fn trace_routes<T>(t: Trace<T>) -> Multiset<RouteRef<T>>
    decreases t
{ stored(t).add(forest_routes(t.children@, t.children@.len() as int)) }
pub open spec fn forest_routes<T>(ts: Seq<Trace<T>>, k: int) -> Multiset<RouteRef<T>>
    decreases ts, k
{ if k <= 0 || k > ts.len() { Multiset::empty() } else { forest_routes(ts, k - 1).add(trace_routes(ts[k - 1])) } }

impl<T> Trace<T> {
    //@@ fn src/router/trace.rs :: impl <T>Trace<T> / fn new -> r
    //@| ensures r.matched == matched, r.executed == executed, r.count == count, r.children == children, r.info == info,

    //@@ fn src/router/trace.rs :: impl <T>Trace<T> / fn get_routes_from_traces -> r
    //@| ensures ms_of(r@) == forest_routes(traces@, traces@.len() as int),
    //@| decreases traces@,
    //@| entry proof { lemma_ms_empty::<T>(); }
    //@| forlabel 0: it
    //@| loop 0: invariant iter_ref_ok(it.history@, it.index@, it.snapshot@.remaining(), traces@),
    //@|         ms_of(routes@) == forest_routes(traces@, it.index@),
    //@| loophead 0: let ghost m0 = ms_of(routes@); proof { assert(*trace == traces@[it.index@ as int]); lemma_ms_empty::<T>(); }
    //@| before `if !trace.children.is_empty() {`: proof { assert(ms_of(routes@) =~= m0.add(stored(*trace))); }
    //@| looptail 0: proof { let f = forest_routes(trace.children@, trace.children@.len() as int); assert(ms_of(routes@) =~= m0.add(stored(*trace)).add(f)); assert(m0.add(stored(*trace)).add(f) =~= m0.add(stored(*trace).add(f))); assert(trace_routes(*trace) == stored(*trace).add(f)); assert(forest_routes(traces@, it.index@ + 1) == forest_routes(traces@, it.index@ as int).add(trace_routes(traces@[it.index@ as int]))); }
    //@| outline `routes.extend(routes_stored.clone());` => `ext_routes(&mut routes, clone_routes(routes_stored));`
    //@| outline `routes.extend(Trace::get_routes_from_traces(&trace.children));` => `ext_routes(&mut routes, Trace::get_routes_from_traces(&trace.children));`
}

// ================================================================ host layer trace (C17)
// the explain trace of the regex tree (unit tree proves: the values listed under MATCHED trace nodes are exactly what find returns)
//@@ rename Trace TreeTrace
//@@ item src/regex_radix_tree/trace.rs :: struct Trace
//@@ unrename Trace
pub open spec fn tt_has<V>(t: TreeTrace<V>, v: V) -> bool
    decreases t
{ (t.matched && exists|i: int| 0 <= i < t.values@.len() && *#[trigger] t.values@[i] == v) || tt_has_children(t.children@, t.children@.len() as int, v) }
pub open spec fn tt_has_children<V>(cs: Seq<TreeTrace<V>>, k: int, v: V) -> bool
    decreases cs, k
{ if k <= 0 || k > cs.len() { false } else { tt_has_children(cs, k - 1, v) || tt_has(cs[k - 1], v) } }
pub proof fn lemma_tt_children<V>(cs: Seq<TreeTrace<V>>, k: int, v: V)
    requires 0 <= k <= cs.len(),
    ensures tt_has_children(cs, k, v) <==> exists|j: int| 0 <= j < k && tt_has(#[trigger] cs[j], v),
    decreases k,
{
    if k > 0 {
        lemma_tt_children(cs, k - 1, v);
        if tt_has_children(cs, k - 1, v) { let j = choose|j: int| 0 <= j < k - 1 && tt_has(#[trigger] cs[j], v); assert(0 <= j < k && tt_has(cs[j], v)); }
        if exists|j: int| 0 <= j < k && tt_has(#[trigger] cs[j], v) { let j = choose|j: int| 0 <= j < k && tt_has(#[trigger] cs[j], v); if j < k - 1 { assert(0 <= j < k - 1 && tt_has(cs[j], v)); } }
    }
}
impl<V> UniqueRegexTreeMap<V> {
    // ASSUMED here, PROVED in unit tree (RegexTreeMap/UniqueRegexTreeMap::trace and ::find both equal the linear scan)
    #[verifier::external_body]
    pub fn trace<'a>(&'a self, haystack: &str) -> (r: TreeTrace<'a, V>) ensures forall|v: V| #[trigger] tt_has(r, v) <==> self.found(haystack@).contains(v) { unimplemented!() }
}
pub proof fn lemma_forest_concat<T>(a: Seq<Trace<T>>, b: Seq<Trace<T>>)
    ensures forest_routes(a + b, (a + b).len() as int) == forest_routes(a, a.len() as int).add(forest_routes(b, b.len() as int)),
    decreases b.len(),
{
    if b.len() == 0 {
        assert(a + b =~= a);
        assert(forest_routes(a, a.len() as int).add(Multiset::empty()) =~= forest_routes(a, a.len() as int));
    } else {
        let b1 = b.drop_last(); let t = b.last();
        lemma_forest_concat(a, b1);
        assert(a + b =~= (a + b1).push(t)); assert(b =~= b1.push(t));
        lemma_forest_push(a + b1, t); lemma_forest_push(b1, t);
        assert(forest_routes(a, a.len() as int).add(forest_routes(b1, b1.len() as int)).add(trace_routes(t)) =~= forest_routes(a, a.len() as int).add(forest_routes(b1, b1.len() as int).add(trace_routes(t))));
    }
}
// `traces.extend(x)` through a VERIFIED wrapper: the routes of the concatenated forest
pub fn ext_traces<T>(traces: &mut Vec<Trace<T>>, other: Vec<Trace<T>>)
    ensures final(traces)@ == old(traces)@ + other@,
        forest_routes(final(traces)@, final(traces)@.len() as int) == forest_routes(old(traces)@, old(traces)@.len() as int).add(forest_routes(other@, other@.len() as int)),
{
    broadcast use axiom_iter_seq_vec;
    let ghost a = traces@; let ghost b = other@;
    /* verbatim: children.extend(matcher.trace(request)); | traces.extend(self.any_host.trace(request)); */
    traces.extend(other);
    proof { lemma_forest_concat(a, b); }
}
//@@ rename IpMatcher SubIp
pub open spec fn tt_yields<T>(t: TreeTrace<SubIp<T>>, request: Request, x: RouteRef<T>) -> bool { exists|v: SubIp<T>| tt_has(t, v) && (#[trigger] v.answer(request)).count(x) > 0 }
pub open spec fn kids_yield<T>(cs: Seq<TreeTrace<SubIp<T>>>, k: int, request: Request, x: RouteRef<T>) -> bool { exists|j: int| 0 <= j < k && tt_yields(#[trigger] cs[j], request, x) }
pub open spec fn vals_yield<T>(vs: Seq<&SubIp<T>>, k: int, request: Request, x: RouteRef<T>) -> bool { exists|i: int| 0 <= i < k && ((*#[trigger] vs[i]).answer(request)).count(x) > 0 }
pub proof fn lemma_tt_yields<T>(t: TreeTrace<SubIp<T>>, request: Request, x: RouteRef<T>)
    ensures tt_yields(t, request, x) <==> ((t.matched && vals_yield(t.values@, t.values@.len() as int, request, x)) || kids_yield(t.children@, t.children@.len() as int, request, x)),
{
    let cs = t.children@; let n = cs.len() as int; let vs = t.values@;
    if tt_yields(t, request, x) {
        let v = choose|v: SubIp<T>| tt_has(t, v) && (#[trigger] v.answer(request)).count(x) > 0;
        if t.matched && exists|i: int| 0 <= i < vs.len() && *#[trigger] vs[i] == v { let i = choose|i: int| 0 <= i < vs.len() && *#[trigger] vs[i] == v; assert((*vs[i]).answer(request).count(x) > 0); }
        else { lemma_tt_children(cs, n, v); let j = choose|j: int| 0 <= j < n && tt_has(#[trigger] cs[j], v); assert(tt_yields(cs[j], request, x)); }
    }
    if t.matched && vals_yield(vs, vs.len() as int, request, x) { let i = choose|i: int| 0 <= i < vs.len() && ((*#[trigger] vs[i]).answer(request)).count(x) > 0; assert(tt_has(t, *vs[i])); }
    if kids_yield(cs, n, request, x) {
        let j = choose|j: int| 0 <= j < n && tt_yields(#[trigger] cs[j], request, x);
        let v = choose|v: SubIp<T>| tt_has(cs[j], v) && (#[trigger] v.answer(request)).count(x) > 0;
        lemma_tt_children(cs, n, v); assert(tt_has(t, v));
    }
}
// conversion of a tree trace: the routes below the result are those the buckets under MATCHED tree nodes answer
//@@ fn src/router/request_matcher/host.rs :: fn tree_trace_to_trace -> r
//@| ensures r.matched == tree_trace.matched, r.count == tree_trace.count,
//@|     forall|x: RouteRef<T>| #[trigger] trace_routes(r).count(x) > 0 <==> tt_yields(tree_trace, *request, x),
//@| decreases tree_trace,
//@| outline `children.extend(matcher.trace(request));` => `ext_traces(&mut children, matcher.trace(request));`
//@| forlabel 0: it
//@| forlabel 1: it
//@| attr #[verifier::loop_isolation(false)]
//@| entry let ghost tt0 = tree_trace; let ghost tc = tree_trace.children@; let ghost tv = tree_trace.values@; proof { lemma_forest_empty::<T>(); }
//@| loop 0: invariant iter_ok(it.history@, it.index@, it.snapshot@.remaining(), tc),
//@|         forall|x: RouteRef<T>| #[trigger] forest_routes(children@, children@.len() as int).count(x) > 0 <==> kids_yield(tc, it.index@ as int, *request, x),
//@| loophead 0: let ghost c0 = children@; let ghost k = it.index@ as int; proof { assert(child == tc[k]); }
//@| looptail 0: proof {
//@|     let t = children@.last(); assert(children@ =~= c0.push(t)); lemma_forest_push(c0, t);
//@|     assert forall|x: RouteRef<T>| #[trigger] forest_routes(children@, children@.len() as int).count(x) > 0 <==> kids_yield(tc, k + 1, *request, x) by {
//@|         if kids_yield(tc, k + 1, *request, x) { let j = choose|j: int| 0 <= j < k + 1 && tt_yields(#[trigger] tc[j], *request, x); if j < k { assert(kids_yield(tc, k, *request, x)); } }
//@|         if kids_yield(tc, k, *request, x) { let j = choose|j: int| 0 <= j < k && tt_yields(#[trigger] tc[j], *request, x); assert(0 <= j < k + 1 && tt_yields(tc[j], *request, x)); }
//@|         if tt_yields(tc[k], *request, x) { assert(0 <= k < k + 1 && tt_yields(tc[k], *request, x)); }
//@|     }
//@| }
//@| loop 1: invariant iter_ok(it.history@, it.index@, it.snapshot@.remaining(), tv),
//@|         forall|x: RouteRef<T>| #[trigger] forest_routes(children@, children@.len() as int).count(x) > 0 <==> (kids_yield(tc, tc.len() as int, *request, x) || (tt0.matched && vals_yield(tv, it.index@ as int, *request, x))),
//@| loophead 1: let ghost c1 = children@; let ghost k = it.index@ as int; proof { assert(matcher == tv[k]); }
//@| looptail 1: proof {
//@|     assert forall|x: RouteRef<T>| #[trigger] forest_routes(children@, children@.len() as int).count(x) > 0 <==> (kids_yield(tc, tc.len() as int, *request, x) || (tt0.matched && vals_yield(tv, k + 1, *request, x))) by {
//@|         if vals_yield(tv, k + 1, *request, x) { let i = choose|i: int| 0 <= i < k + 1 && ((*#[trigger] tv[i]).answer(*request)).count(x) > 0; if i < k { assert(vals_yield(tv, k, *request, x)); } }
//@|         if vals_yield(tv, k, *request, x) { let i = choose|i: int| 0 <= i < k && ((*#[trigger] tv[i]).answer(*request)).count(x) > 0; assert(0 <= i < k + 1 && (*tv[i]).answer(*request).count(x) > 0); }
//@|         if (*tv[k]).answer(*request).count(x) > 0 { assert(0 <= k < k + 1 && (*tv[k]).answer(*request).count(x) > 0); }
//@|     }
//@| }
//@| exit proof { lemma_trace_node(vf_ret); assert forall|x: RouteRef<T>| #[trigger] trace_routes(vf_ret).count(x) > 0 <==> tt_yields(tt0, *request, x) by { lemma_tt_yields(tt0, *request, x); } }

pub type HstItem<'a, T> = (&'a String, &'a SubIp<T>);
pub open spec fn hst_contrib<T>(rem: Seq<HstItem<T>>, n: int, m: Seq<char>, request: Request, x: RouteRef<T>) -> bool {
    exists|i: int| 0 <= i < n && (*#[trigger] rem[i].0)@ == m && (*rem[i].1).answer(request).count(x) > 0
}
pub proof fn lemma_sum_member<T>(fs: Seq<SubIp<T>>, request: Request, k: int, x: RouteRef<T>)
    requires 0 <= k <= fs.len(),
    ensures sum_answers(fs, request, k).count(x) > 0 <==> exists|i: int| 0 <= i < k && (#[trigger] fs[i]).answer(request).count(x) > 0,
    decreases k,
{
    if k > 0 {
        lemma_sum_member(fs, request, k - 1, x);
        if sum_answers(fs, request, k - 1).count(x) > 0 { let i = choose|i: int| 0 <= i < k - 1 && (#[trigger] fs[i]).answer(request).count(x) > 0; assert(0 <= i < k && fs[i].answer(request).count(x) > 0); }
        if exists|i: int| 0 <= i < k && (#[trigger] fs[i]).answer(request).count(x) > 0 { let i = choose|i: int| 0 <= i < k && (#[trigger] fs[i]).answer(request).count(x) > 0; if i < k - 1 { assert(0 <= i < k - 1 && fs[i].answer(request).count(x) > 0); } }
    }
}
pub proof fn lemma_ms_len0<A>(m: Multiset<A>)
    ensures m.len() == 0 <==> (forall|x: A| #[trigger] m.count(x) == 0),
{
    if m.len() > 0 { let x = m.choose(); assert(m.count(x) > 0); }
    if m.len() == 0 { assert forall|x: A| #[trigger] m.count(x) == 0 by { if m.count(x) > 0 { assert(m.contains(x)); assert(m.len() > 0); } } }
}
pub open spec fn host_specific<T>(m: HostMatcher<T>, request: Request) -> Multiset<RouteRef<T>> {
    match req_host(request) {
        Some(h) => sum_answers(m.regex_tree_rule.found(h), request, m.regex_tree_rule.found(h).len() as int).add(static_answer(m.static_hosts@, h, request)),
        None => Multiset::empty(),
    }
}
impl<T> HostMatcher<T> {
    // C17, host layer: static host buckets (the one of the request's host contributes), the regex-host buckets through the tree trace, then the
    // host-less rules under the any-host policy — decided on what has been traced so far, AFTER both kinds of host-specific rules
    //@@ fn src/router/request_matcher/host.rs :: impl <T>HostMatcher<T> / fn trace -> r
    //@| opt r5:0
    //@| opt r6:0
    //@| ensures same_members(forest_routes(r@, r@.len() as int), host_answer(*self, *request)),
    //@| attr #[verifier::loop_isolation(false)]
    //@| entry broadcast use vstd::seq_lib::group_to_multiset_ensures; broadcast use vstd::std_specs::hash::group_hash_axioms; broadcast use axiom_string_key_model; broadcast use axiom_borrow_str_contains; broadcast use axiom_borrow_str_maps;
    //@|     proof { axiom_string_ext(); lit_empty(); lemma_forest_empty::<T>(); }
    //@| after `let request_host = request.host().unwrap_or("");`: let ghost mm = self.static_hosts@; let ghost rm = request_host@; let ghost hsome = req_host(*request) is Some;
    //@|     proof { assert(rm == match req_host(*request) { Some(s) => s, None => Seq::<char>::empty() }); }
    //@| loop 0: invariant 0 <= vf_it0_idx <= vf_it0_rem0.len(), vf_it0.remaining() == vf_it0_rem0.skip(vf_it0_idx), vf_it0_rem0.len() == mm.len(),
    //@|         forall|x: RouteRef<T>| #[trigger] forest_routes(traces@, traces@.len() as int).count(x) > 0 <==> (hsome && hst_contrib(vf_it0_rem0, vf_it0_idx, rm, *request, x)),
    //@|     decreases mm.len() - vf_it0_idx,
    //@| loophead 0: let ghost t0 = traces@; let ghost k = vf_it0_idx - 1; let ghost rem = vf_it0_rem0;
    //@|     proof { assert(host == rem[k].0 && matcher == rem[k].1); }
    //@| looptail 0: proof {
    //@|     let t = traces@.last();
    //@|     assert(traces@ =~= t0.push(t));
    //@|     lemma_forest_push(t0, t); lemma_trace_node(t); lemma_forest_empty::<T>();
    //@|     let cond = host@ == rm && hsome;
    //@|     assert forall|x: RouteRef<T>| #[trigger] forest_routes(traces@, traces@.len() as int).count(x) > 0 <==> (hsome && hst_contrib(rem, k + 1, rm, *request, x)) by {
    //@|         if cond { assert(trace_routes(t) == matcher.answer(*request)); } else { assert(trace_routes(t).count(x) == 0); }
    //@|         if hst_contrib(rem, k + 1, rm, *request, x) { let i = choose|i: int| 0 <= i < k + 1 && (*#[trigger] rem[i].0)@ == rm && (*rem[i].1).answer(*request).count(x) > 0; if i < k { assert(hst_contrib(rem, k, rm, *request, x)); } }
    //@|         if hst_contrib(rem, k, rm, *request, x) { let i = choose|i: int| 0 <= i < k && (*#[trigger] rem[i].0)@ == rm && (*rem[i].1).answer(*request).count(x) > 0; assert((*rem[i].0)@ == rm); }
    //@|         if cond && matcher.answer(*request).count(x) > 0 { assert((*rem[k].0)@ == rm); }
    //@|     }
    //@| }
    //@| loopend 0: proof {
    //@|     let rem = vf_it0_rem0;
    //@|     let sa = match req_host(*request) { Some(h) => static_answer(mm, h, *request), None => Multiset::empty() };
    //@|     assert forall|x: RouteRef<T>| #[trigger] forest_routes(traces@, traces@.len() as int).count(x) > 0 <==> sa.count(x) > 0 by {
    //@|         if hsome && hst_contrib(rem, rem.len() as int, rm, *request, x) {
    //@|             let i = choose|i: int| 0 <= i < rem.len() && (*#[trigger] rem[i].0)@ == rm && (*rem[i].1).answer(*request).count(x) > 0;
    //@|             let key = *rem[i].0;
    //@|             assert(mm.contains_key(key) && mm[key] == *rem[i].1);
    //@|             let key2 = choose|key2: String| key2@ == rm && mm.contains_key(key2);
    //@|             assert(key2 == key);
    //@|         }
    //@|         if sa.count(x) > 0 {
    //@|             let key = choose|key: String| key@ == rm && mm.contains_key(key);
    //@|             let i = choose|i: int| 0 <= i < rem.len() && *rem[i].0 == key;
    //@|             assert(mm[*rem[i].0] == *rem[i].1);
    //@|             assert((*rem[i].0)@ == rm);
    //@|         }
    //@|     }
    //@| }
    //@| before `if let Some(host) = request.host() {`: let ghost t1 = traces@; let ghost mut t2 = traces@; let ghost mut t3 = traces@; let ghost sa = match req_host(*request) { Some(h) => static_answer(mm, h, *request), None => Multiset::<RouteRef<T>>::empty() };
    //@| after `let trace = tree_trace_to_trace(host, tree_trace, request);`: let ghost tr = trace; let ghost fs = self.regex_tree_rule.found(host@);
    //@|     proof { assert forall|x: RouteRef<T>| #[trigger] trace_routes(tr).count(x) > 0 <==> sum_answers(fs, *request, fs.len() as int).count(x) > 0 by {
    //@|         lemma_sum_member(fs, *request, fs.len() as int, x);
    //@|         if tt_yields(tree_trace, *request, x) { let v = choose|v: SubIp<T>| tt_has(tree_trace, v) && (#[trigger] v.answer(*request)).count(x) > 0; assert(fs.contains(v)); let i = choose|i: int| 0 <= i < fs.len() && fs[i] == v; assert(fs[i].answer(*request).count(x) > 0); }
    //@|         if exists|i: int| 0 <= i < fs.len() && (#[trigger] fs[i]).answer(*request).count(x) > 0 { let i = choose|i: int| 0 <= i < fs.len() && (#[trigger] fs[i]).answer(*request).count(x) > 0; assert(fs.contains(fs[i])); assert(tt_has(tree_trace, fs[i])); }
    //@|     } }
    //@| after `traces.push(Trace::new(trace.matched, true, trace.count, vec![trace], TraceInfo::HostRegex));`: proof {
    //@|         t2 = traces@;
    //@|         let t = traces@.last(); assert(traces@ =~= t1.push(t)); lemma_forest_push(t1, t); lemma_trace_node(t);
    //@|         assert(t.children@ =~= seq![tr]); lemma_forest_push(Seq::<Trace<T>>::empty(), tr); assert(Seq::<Trace<T>>::empty().push(tr) =~= seq![tr]);
    //@|         assert(Multiset::<RouteRef<T>>::empty().add(trace_routes(tr)) =~= trace_routes(tr));
    //@|         assert(trace_routes(t) == trace_routes(tr));
    //@|         assert forall|x: RouteRef<T>| #[trigger] forest_routes(t2, t2.len() as int).count(x) > 0 <==> (sa.count(x) > 0 || sum_answers(fs, *request, fs.len() as int).count(x) > 0) by {}
    //@|     }
    //@| before `if self.always_match_any_host || Trace::<T>::get_routes_from_traces(&traces).is_empty() {`: let ghost sp = host_specific(*self, *request);
    //@|     proof {
    //@|         t3 = traces@;
    //@|         if traces@.len() > t2.len() { let t = traces@.last(); assert(traces@ =~= t2.push(t)); lemma_forest_push(t2, t); lemma_trace_node(t); assert(forest_routes(traces@, traces@.len() as int) =~= forest_routes(t2, t2.len() as int)); }
    //@|         assert(same_members(forest_routes(traces@, traces@.len() as int), sp));
    //@|     }
    //@| exit proof {
    //@|     let sp = host_specific(*self, *request);
    //@|     let f3 = forest_routes(t3, t3.len() as int);
    //@|     let any = self.any_host.answer(*request);
    //@|     lemma_ms_len0(sp); lemma_ms_len0(f3);
    //@|     assert(f3.len() == 0 <==> sp.len() == 0) by { if f3.len() == 0 { assert forall|x: RouteRef<T>| #[trigger] sp.count(x) == 0 by { assert(f3.count(x) == 0); } } if sp.len() == 0 { assert forall|x: RouteRef<T>| #[trigger] f3.count(x) == 0 by { assert(sp.count(x) == 0); } } }
    //@|     let fr = forest_routes(traces@, traces@.len() as int);
    //@|     if self.always_match_any_host || sp.len() == 0 {
    //@|         assert(fr == f3.add(any));
    //@|         assert(host_answer(*self, *request) == sp.add(any));
    //@|         assert forall|x: RouteRef<T>| #[trigger] fr.count(x) > 0 <==> #[trigger] host_answer(*self, *request).count(x) > 0 by { assert(f3.count(x) > 0 <==> sp.count(x) > 0); }
    //@|     } else {
    //@|         assert(traces@ == t3);
    //@|         assert(host_answer(*self, *request) == sp);
    //@|     }
    //@| }
    //@| outline `traces.extend(self.any_host.trace(request));` => `ext_traces(&mut traces, self.any_host.trace(request));`
    //@| replace `host == request_host` => `*host == *request_host` :: `&String == &str` is defined by std as the comparison of the referents; Verus has no spec for the reference impl
}
//@@ unrename IpMatcher

// ================================================================ path-and-query layer trace (C17)
pub open spec fn derefs_ms<T>(vs: Seq<&RouteRef<T>>) -> Multiset<RouteRef<T>> { vs.map_values(|r: &RouteRef<T>| *r).to_multiset() }
pub open spec fn ttr_ms<T>(t: TreeTrace<RouteRef<T>>) -> Multiset<RouteRef<T>>
    decreases t
{ (if t.matched { derefs_ms(t.values@) } else { Multiset::<RouteRef<T>>::empty() }).add(ttr_children(t.children@, t.children@.len() as int)) }
pub open spec fn ttr_children<T>(cs: Seq<TreeTrace<RouteRef<T>>>, k: int) -> Multiset<RouteRef<T>>
    decreases cs, k
{ if k <= 0 || k > cs.len() { Multiset::empty() } else { ttr_children(cs, k - 1).add(ttr_ms(cs[k - 1])) } }
impl<T> RegexTreeMap<RouteRef<T>> {
    // ASSUMED here, PROVED in unit tree (RegexTreeMap::trace: the values under matched trace nodes are the linear scan, as is find)
    #[verifier::external_body]
    pub fn trace<'a>(&'a self, haystack: &str) -> (r: TreeTrace<'a, RouteRef<T>>) ensures ttr_ms(r) == self.matching(haystack@) { unimplemented!() }
}
// R8 outlined expression (iterator adapter chain): assumed std behaviour — clones of the listed routes
#[verifier::external_body]
pub fn outl_refs_cloned<T>(vs: &Vec<&RouteRef<T>>) -> (r: Vec<RouteRef<T>>) ensures ms_of(r@) == derefs_ms(vs@)
{ /* verbatim: tree_trace.values.iter().map(|r| (*r).clone()).collect::<Vec<Arc<Route<T>>>>() */ unimplemented!() }
//@@ rename tree_trace_to_trace pq_tree_trace_to_trace
// conversion of the path tree's trace: the routes below the result are the values listed under MATCHED tree nodes
//@@ fn src/router/request_matcher/path_and_query.rs :: fn tree_trace_to_trace -> r
//@| ensures r.matched == tree_trace.matched, r.count == tree_trace.count, trace_routes(r) == ttr_ms(tree_trace),
//@| decreases tree_trace,
//@| outline `tree_trace.values.iter().map(|r| (*r).clone()).collect::<Vec<Arc<Route<T>>>>()` => `outl_refs_cloned(&tree_trace.values)`
//@| forlabel 0: it
//@| attr #[verifier::loop_isolation(false)]
//@| entry let ghost tt0 = tree_trace; let ghost tc = tree_trace.children@; proof { lemma_forest_empty::<T>(); lemma_ms_empty::<T>(); }
//@| loop 0: invariant iter_ok(it.history@, it.index@, it.snapshot@.remaining(), tc), forest_routes(children@, children@.len() as int) == ttr_children(tc, it.index@ as int),
//@| loophead 0: let ghost c0 = children@; let ghost k = it.index@ as int; proof { assert(child == tc[k]); }
//@| looptail 0: proof { let t = children@.last(); assert(children@ =~= c0.push(t)); lemma_forest_push(c0, t); }
//@| before `if !tree_trace.values.is_empty() {`: let ghost c1 = children@;
//@| exit proof {
//@|     lemma_trace_node(vf_ret);
//@|     let vals = if tt0.matched { derefs_ms(tt0.values@) } else { Multiset::<RouteRef<T>>::empty() };
//@|     if vf_ret.children@.len() > c1.len() {
//@|         let t = vf_ret.children@.last(); assert(vf_ret.children@ =~= c1.push(t)); lemma_forest_push(c1, t);
//@|         assert(trace_routes(t) =~= vals) by { assert(forest_routes(t.children@, 0) =~= Multiset::<RouteRef<T>>::empty()); assert(stored(t).add(Multiset::empty()) =~= stored(t)); }
//@|     } else {
//@|         assert(tt0.values@.len() == 0);
//@|         assert(derefs_ms(tt0.values@) =~= Multiset::<RouteRef<T>>::empty()) by { broadcast use vstd::seq_lib::group_to_multiset_ensures; assert(tt0.values@.map_values(|r: &RouteRef<T>| *r) =~= Seq::<RouteRef<T>>::empty()); lemma_ms_empty::<T>(); }
//@|         assert(forest_routes(c1, c1.len() as int).add(Multiset::empty()) =~= forest_routes(c1, c1.len() as int));
//@|     }
//@|     assert(ttr_ms(tt0) =~= vals.add(ttr_children(tc, tc.len() as int)));
//@|     assert(vals.add(ttr_children(tc, tc.len() as int)) =~= ttr_children(tc, tc.len() as int).add(vals));
//@| }

impl<T> PathAndQueryMatcher<T> {
    // C17, path layer: the pattern rules through the tree trace, the literal rules of the request's path as one storage node
    //@@ fn src/router/request_matcher/path_and_query.rs :: impl <T>PathAndQueryMatcher<T> / fn trace -> r
    //@| ensures forest_routes(r@, r@.len() as int) == self.regex_tree_rule.matching(req_path(*request)).add(static_bucket(self.static_rules@, req_path(*request))),
    //@| outline `routes.values().cloned().collect::<Vec<Arc<Route<T>>>>()` => `outl_values_cloned(routes)`
    //@| entry broadcast use vstd::std_specs::hash::group_hash_axioms; broadcast use axiom_string_key_model; broadcast use axiom_borrow_str_contains; broadcast use axiom_borrow_str_maps;
    //@|     proof { axiom_string_ext(); lemma_forest_empty::<T>(); lemma_ms_empty::<T>(); }
    //@| after `let trace = tree_trace_to_trace(path.as_str(), self.regex_tree_rule.trace(path.as_str()));`: let ghost tr = trace;
    //@|     proof { assert(trace_routes(tr) == self.regex_tree_rule.matching(req_path(*request))); }
    //@| before `let static_traces = match self.static_rules.get(path.as_str()) {`: let ghost ta = traces@;
    //@|     proof { let t = ta[0]; assert(ta.len() == 1); lemma_trace_node(t); assert(t.children@ =~= seq![tr]); lemma_forest_push(Seq::<Trace<T>>::empty(), tr); assert(Seq::<Trace<T>>::empty().push(tr) =~= seq![tr]);
    //@|         assert(Multiset::<RouteRef<T>>::empty().add(trace_routes(tr)) =~= trace_routes(tr)); assert(trace_routes(t) == trace_routes(tr)); }
    //@| before `traces.push(Trace::new(`: proof {
    //@|     let b = static_bucket(self.static_rules@, req_path(*request));
    //@|     if static_traces@.len() == 0 { assert(forest_routes(static_traces@, 0) =~= Multiset::<RouteRef<T>>::empty()); }
    //@|     else { let st = static_traces@[0]; assert(static_traces@.len() == 1); assert(forest_routes(st.children@, 0) =~= Multiset::<RouteRef<T>>::empty());
    //@|         assert(trace_routes(st) =~= stored(st)) by { assert(stored(st).add(Multiset::empty()) =~= stored(st)); }
    //@|         assert(forest_routes(static_traces@, 1) == forest_routes(static_traces@, 0).add(trace_routes(st)));
    //@|         assert(Multiset::<RouteRef<T>>::empty().add(trace_routes(st)) =~= trace_routes(st)); }
    //@|     assert(forest_routes(static_traces@, static_traces@.len() as int) == b);
    //@| }
    //@| exit proof {
    //@|     let a = self.regex_tree_rule.matching(req_path(*request)); let b = static_bucket(self.static_rules@, req_path(*request));
    //@|     assert(traces@ =~= ta.push(traces@.last())); assert(traces@[0] == ta[0]);
    //@|     let t0 = traces@[0]; let t1 = traces@[1];
    //@|     assert(traces@.len() == 2);
    //@|     lemma_trace_node(t0); lemma_trace_node(t1);
    //@|     assert(forest_routes(traces@, 2) == forest_routes(traces@, 1).add(trace_routes(t1)));
    //@|     assert(forest_routes(traces@, 1) == forest_routes(traces@, 0).add(trace_routes(t0)));
    //@|     assert(Multiset::<RouteRef<T>>::empty().add(trace_routes(t0)) =~= trace_routes(t0));
    //@| }
}
//@@ unrename tree_trace_to_trace

// ================================================================ Router entry points (C01 / C17 at the top level)
// `Router::match_request` hands the request to the scheme layer as it is; `trace_request` first re-normalises it (statement C17: the trace
// is compared with matching the NORMALISED request). Request::rebuild_with_config is under contract in unit req; here it is a named function.
pub assume_specification<T: ?Sized, A: std::alloc::Allocator> [<Arc<T, A> as std::convert::AsRef<T>>::as_ref] (a: &Arc<T, A>) -> (r: &T) ensures r == &**a;
pub uninterp spec fn rebuilt(cfg: RouterConfig, r: Request) -> Request;
pub uninterp spec fn rprio<T>(r: Route<T>) -> i64;
impl Request {
    #[verifier::external_body] pub fn rebuild_with_config(config: &RouterConfig, request: &Request) -> (r: Request) ensures r == rebuilt(*config, *request) { unimplemented!() }
}
impl<T> Route<T> {
    #[verifier::external_body] pub fn priority(&self) -> (r: i64) ensures r == rprio(*self) { unimplemented!() }
}
//@@ item src/router/mod.rs :: struct Router
//@@ item src/router/trace.rs :: struct RouteTrace
// R8 outlines (ASSUMED contracts): a stable sort by descending priority is a permutation sorted by descending priority; first().cloned()
#[verifier::external_body]
pub fn outl_sort_prio_desc<T>(v: &mut Vec<RouteRef<T>>)
    ensures ms_of(final(v)@) == ms_of(old(v)@), final(v)@.len() == old(v)@.len(),
        forall|i: int, j: int| 0 <= i <= j < final(v)@.len() ==> rprio(*#[trigger] final(v)@[i]) >= rprio(*#[trigger] final(v)@[j]),
{ /* verbatim: routes.sort_by_key(|b| Reverse(b.priority())); | routes_traces.sort_by_key(|b| Reverse(b.priority())); */ unimplemented!() }
#[verifier::external_body]
pub fn outl_first_cloned<T>(v: &Vec<RouteRef<T>>) -> (r: Option<RouteRef<T>>)
    ensures r == (if v@.len() > 0 { Some(v@[0]) } else { None::<RouteRef<T>> }),
{ /* verbatim: routes.first().cloned() | routes_traces.first().cloned() */ unimplemented!() }
// x is a member of the answer with maximal priority
pub open spec fn max_prio_of<T>(x: RouteRef<T>, a: Multiset<RouteRef<T>>) -> bool {
    a.count(x) > 0 && forall|y: RouteRef<T>| #[trigger] a.count(y) > 0 ==> rprio(*y) <= rprio(*x)
}
pub open spec fn same_members<T>(a: Multiset<RouteRef<T>>, b: Multiset<RouteRef<T>>) -> bool { forall|x: RouteRef<T>| #[trigger] a.count(x) > 0 <==> #[trigger] b.count(x) > 0 }
pub open spec fn picked<T>(r: Option<RouteRef<T>>, a: Multiset<RouteRef<T>>) -> bool {
    match r { None => forall|x: RouteRef<T>| #[trigger] a.count(x) == 0, Some(x) => max_prio_of(x, a) }
}
pub proof fn lemma_pick_sorted<T>(v: Seq<RouteRef<T>>, a: Multiset<RouteRef<T>>)
    requires same_members(ms_of(v), a), forall|i: int, j: int| 0 <= i <= j < v.len() ==> rprio(*#[trigger] v[i]) >= rprio(*#[trigger] v[j]),
    ensures picked(if v.len() > 0 { Some(v[0]) } else { None::<RouteRef<T>> }, a),
{
    broadcast use vstd::seq_lib::group_to_multiset_ensures;
    if v.len() > 0 {
        assert(v.contains(v[0])); assert(ms_of(v).count(v[0]) > 0); assert(a.count(v[0]) > 0);
        assert forall|y: RouteRef<T>| #[trigger] a.count(y) > 0 implies rprio(*y) <= rprio(*v[0]) by {
            assert(ms_of(v).count(y) > 0); assert(v.contains(y)); let j = choose|j: int| 0 <= j < v.len() && v[j] == y; assert(rprio(*v[0]) >= rprio(*v[j]));
        }
    } else {
        assert forall|x: RouteRef<T>| #[trigger] a.count(x) == 0 by { if a.count(x) > 0 { assert(ms_of(v).count(x) > 0); assert(v.contains(x)); } }
    }
}
impl<T> RouteTrace<T> {
    //@@ fn src/router/trace.rs :: impl <T>RouteTrace<T> / fn new -> r
    //@| ensures r.traces == traces, r.routes == routes, r.final_route == final_route,
}
impl<T> Router<T> {
    //@@ fn src/router/mod.rs :: impl <T>Router<T> / fn rebuild_request -> r
    //@| ensures r == rebuilt(*self.config, *request),

    // C01 at the top: the router's answer IS the scheme layer's answer for the request as given
    //@@ fn src/router/mod.rs :: impl <T>Router<T> / fn match_request -> r
    //@| ensures ms_of(r@) == scheme_answer(self.matcher, *request),

    // C17 at the top: the trace is the scheme layer's trace of the NORMALISED request
    //@@ fn src/router/mod.rs :: impl <T>Router<T> / fn trace_request -> r
    //@| requires forall|k: String| self.matcher.schemes@.contains_key(k) ==> k@.len() > 0,
    //@| ensures same_members(forest_routes(r@, r@.len() as int), scheme_answer(self.matcher, rebuilt(*self.config, *request))),

    // direct lookup: a matching rule of maximal priority, None exactly when nothing matches
    //@@ fn src/router/mod.rs :: impl <T>Router<T> / fn get_route -> r
    //@| ensures picked(r, scheme_answer(self.matcher, *request)),
    //@| outline `routes.sort_by_key(|b| Reverse(b.priority()));` => `outl_sort_prio_desc(&mut routes);`
    //@| outline `routes.first().cloned()` => `outl_first_cloned(&routes)`
    //@| entry broadcast use vstd::seq_lib::group_to_multiset_ensures;
    //@| before `return None;`: proof { let a = scheme_answer(self.matcher, *request); assert forall|x: RouteRef<T>| #[trigger] a.count(x) == 0 by { if a.count(x) > 0 { assert(routes@.contains(x)); } } }
    //@| exit proof { lemma_pick_sorted(routes@, scheme_answer(self.matcher, *request)); }

    // explain: the routes listed are those of the trace, the final route is one of them with maximal priority
    //@@ fn src/router/mod.rs :: impl <T>Router<T> / fn get_trace -> r
    //@| requires forall|k: String| self.matcher.schemes@.contains_key(k) ==> k@.len() > 0,
    //@| ensures same_members(forest_routes(r.traces@, r.traces@.len() as int), scheme_answer(self.matcher, rebuilt(*self.config, *request))),
    //@|     ms_of(r.routes@) == forest_routes(r.traces@, r.traces@.len() as int),
    //@|     picked(r.final_route, forest_routes(r.traces@, r.traces@.len() as int)),
    //@| outline `routes_traces.sort_by_key(|b| Reverse(b.priority()));` => `outl_sort_prio_desc(&mut routes_traces);`
    //@| outline `routes_traces.first().cloned()` => `outl_first_cloned(&routes_traces)`
    //@| entry broadcast use vstd::seq_lib::group_to_multiset_ensures; broadcast use axiom_arc_cloned;
    //@| forlabel 0: it
    //@| loopbefore 0: let ghost rt0 = routes_traces@;
    //@| loop 0: invariant iter_ref_ok(it.history@, it.index@, it.snapshot@.remaining(), rt0), routes_traces@ == rt0, routes@ == rt0.take(it.index@ as int),
    //@| loophead 0: let ghost k = it.index@ as int; proof { assert(*route == rt0[k]); }
    //@| looptail 0: proof { assert(routes@ =~= rt0.take(k + 1)); }
    //@| loopend 0: proof { assert(rt0.take(rt0.len() as int) =~= rt0); }
    //@| exit proof { lemma_pick_sorted(routes_traces@, forest_routes(traces@, traces@.len() as int)); }
}
// C17, second clause: the traced final rule has the same (maximal) priority as the rule selected by direct lookup on the normalised request
pub proof fn c17_final_priority<T>(a: Multiset<RouteRef<T>>, b: Multiset<RouteRef<T>>, traced: Option<RouteRef<T>>, direct: Option<RouteRef<T>>)
    requires same_members(a, b), picked(traced, a), picked(direct, b),
    ensures (traced is None) == (direct is None), traced matches Some(x) ==> (direct matches Some(y) && rprio(*x) == rprio(*y)),
{
    match (traced, direct) {
        (Some(x), Some(y)) => { assert(b.count(x) > 0); assert(a.count(y) > 0); }
        (Some(x), None) => { assert(b.count(x) > 0); }
        (None, Some(y)) => { assert(a.count(y) > 0); }
        (None, None) => {}
    }
}

// ---- PINS: functions of /repo this unit (or the property it serves) only ASSUMES something about — a hand-written shim stands for them, or nothing at
// all does. The assumption was made for one text of each; the token hash ties it to that text: a change makes the unit UNDECIDED (exit 2), never OK.
//@@ pin src/api/rule.rs :: impl Rule / fn host = c926279d19dc
//@@ pin src/api/rule.rs :: impl Rule / fn headers = 1bd7b00498d7
//@@ pin src/api/rule.rs :: impl Rule / fn route_ips = 44605eb0387f
//@@ pin src/api/rule.rs :: impl Rule / fn route_datetimes = 8f74f6a0ed1e
//@@ pin src/api/rule.rs :: impl Rule / fn route_times = 9deef8295659
//@@ pin src/api/rule.rs :: impl Rule / fn route_weekdays = 192d9911f67c
//@@ pin src/api/rule.rs :: impl IntoRoute<Rule> for Rule / fn into_route = e1ce132a1d40
//@@ pin src/api/rule.rs :: impl Rule / fn markers = 687147d914f8
//@@ pin src/router/route_weekday.rs :: impl RouteWeekday / fn from_weekdays = 5d14dab539ab
//@@ pin src/router/route_time.rs :: impl RouteTime / fn from_range = a7be826974ad
//@@ pin src/router/route_datetime.rs :: impl RouteDateTime / fn from_range = cdfe11394e52
//@@ pin src/router/route.rs :: impl <T>Route<T> / fn new = 38b84d5467d9
//@@ pin src/router/route.rs :: impl <T>Route<T> / fn id = 66496e056742
//@@ pin src/router/route.rs :: impl <T>Route<T> / fn scheme = 200b96462952
//@@ pin src/router/route.rs :: impl <T>Route<T> / fn methods = 9f63390359e4
//@@ pin src/router/route.rs :: impl <T>Route<T> / fn exclude_methods = 671e7a21be92
//@@ pin src/router/route.rs :: impl <T>Route<T> / fn ips = abc3aacd1e3a
//@@ pin src/router/route.rs :: impl <T>Route<T> / fn datetime = 6c9e63a5a92d
//@@ pin src/router/route.rs :: impl <T>Route<T> / fn time = 94efb2e045be
//@@ pin src/router/route.rs :: impl <T>Route<T> / fn weekdays = a5c8434edcfd
//@@ pin src/router/route.rs :: impl <T>Route<T> / fn priority = 6f5c73bccdea
//@@ pin src/router/route.rs :: impl <T>Route<T> / fn handler = 695ffb496be5
//@@ pin src/router/route.rs :: impl <T>Route<T> / fn compile = 3c319b749f2d
//@@ strlits
} // verus!
fn main() {}

//@@ include ../common/prelude.rs
// Unit `ana` — property C19, clause "the response an analysis reports for an example (status, headers, body, log decision) is the one the live
// pipeline produces for that request": ExplainRequestOutput::create_result. The pipeline's parts (matching, action, filters) are under contract
// in their own units and are NAMED FUNCTIONS here; what is decided is HOW the analysis combines them — which status each question is asked with:
// header and body filters see the status the BACKEND answered, the logging decision sees the status SENT TO THE CLIENT, both coming from the
// live two-phase status decision.
verus! {
//@@ include ../common/vec_specs.rs
use std::sync::Arc;
pub assume_specification<T: ?Sized, A: std::alloc::Allocator> [<Arc<T, A> as std::convert::AsRef<T>>::as_ref] (a: &Arc<T, A>) -> (r: &T) ensures r == &**a;
#[verifier::external_body] pub struct RouterConfig { x: u8 }
#[verifier::external_body] pub struct Request { x: u8 }
#[verifier::external_body] pub struct HttpError { x: u8 }
// api::Rule: only its id and its examples are read here
#[verifier::external_body] pub struct RuleRest { x: u8 }
pub struct Rule { pub id: String, pub examples: Option<Vec<Example>>, pub rest: RuleRest }
#[verifier::external_body] pub struct UnitTrace { x: u8 }
#[verifier::external_body] pub struct RedirectionLoop { x: u8 }
#[verifier::external_body] pub struct Action { x: u8 }
#[verifier::external_body] pub struct FilterBodyAction { x: u8 }
#[verifier::external_body] #[verifier::accept_recursive_types(T)] pub struct Trace<T> { h: std::marker::PhantomData<T> }
#[verifier::external_body] #[verifier::accept_recursive_types(T)] pub struct Route<T> { h: std::marker::PhantomData<T> }
// router::Router: its configuration is read as a field; everything else (matchers, routes) is an opaque component, so that two routers with
// the same configuration are NOT the same value
#[verifier::external_body] #[verifier::accept_recursive_types(T)] pub struct RouterState<T> { h: std::marker::PhantomData<T> }
#[verifier::accept_recursive_types(T)] pub struct Router<T> { pub config: Arc<RouterConfig>, pub st: RouterState<T> }
//@@ item src/http/header.rs :: struct Header
//@@ item src/api/examples.rs :: struct ExampleHeader
//@@ item src/api/examples.rs :: struct Example
impl Clone for Example { #[verifier::external_body] fn clone(&self) -> (r: Self) ensures r == *self { unimplemented!() } }
//@@ item src/api/explain_request.rs :: struct Response
//@@ item src/api/explain_request.rs :: struct ExplainRequestOutput
//@@ item src/api/explain_request.rs :: struct ExplainRequestOutputError
// ---- the parts of the live pipeline, as named functions of their inputs
pub uninterp spec fn req_of(cfg: RouterConfig, e: Example) -> Option<Request>;
pub uninterp spec fn matched(r: Router<Rule>, q: Request) -> Seq<Arc<Route<Rule>>>;
pub uninterp spec fn action_of(routes: Seq<Arc<Route<Rule>>>, q: Request) -> int;        // the merged action (its immutable core), unit act
pub uninterp spec fn status_at(a: int, code: u16) -> u16;                                   // the action's status answer at a response status (0 = request time), unit act
// (status sent to the client, status the backend answered): the live two-phase decision — the DEFINITION unit act verifies
// Action::get_final_status_code_with_fallback against (a status decided at request time answers before any backend is called; an example status
// of 0 means "not given" and falls back)
pub open spec fn live_status(a: int, example_status: u16, fallback: u16) -> (u16, u16) {
    let s0 = status_at(a, 0);
    if s0 != 0 { (s0, s0) } else { let b = if example_status == 0 { fallback } else { example_status }; (status_at(a, b), b) }
}
// ---- the unit trace (which units / rules were applied): an abstract value; every pipeline question leaves its mark as a named function of
// (trace so far, action, status asked with)
pub uninterp spec fn ut0() -> int;
pub uninterp spec fn ut_action(t: int, routes: Seq<Arc<Route<Rule>>>, q: Request) -> int;
pub uninterp spec fn ut_status(t: int, a: int, code: u16) -> int;
pub uninterp spec fn ut_headers(t: int, a: int, code: u16) -> int;
pub uninterp spec fn ut_body_filter(t: int, stage: int, fed: Seq<u8>, data: Seq<u8>) -> int;
pub uninterp spec fn ut_body_end(t: int, stage: int, fed: Seq<u8>) -> int;
pub uninterp spec fn ut_log(t: int, a: int, code: u16) -> int;
pub uninterp spec fn ut_squash(t: int) -> int;
pub open spec fn ut_status2(t: int, a: int, example_status: u16, fallback: u16) -> int {
    let t1 = ut_status(t, a, 0);
    if status_at(a, 0) != 0 { t1 } else { ut_status(t1, a, if example_status == 0 { fallback } else { example_status }) }
}
pub uninterp spec fn hdrs_at(a: int, code: u16) -> Seq<Header>;                            // header filters applied to an empty list at a status
pub uninterp spec fn body_stage_at(a: int, code: u16) -> Option<int>;                      // the body filter chain built at a status
pub uninterp spec fn body_out(stage: int, input: Seq<u8>) -> Seq<u8>;                      // filter(input) ++ end()
pub uninterp spec fn log_at(a: int, code: u16) -> bool;                                    // logging decision at a status (logging allowed by configuration)
pub uninterp spec fn valid_utf8(b: Seq<u8>) -> bool;
impl Request {
    #[verifier::external_body] pub fn from_example(router_config: &RouterConfig, example: &Example) -> (r: std::result::Result<Request, HttpError>)
        ensures match r { Ok(q) => req_of(*router_config, *example) == Some(q), Err(_) => req_of(*router_config, *example) is None } { unimplemented!() }
}
impl Router<Rule> {
    #[verifier::external_body] pub fn match_request(&self, request: &Request) -> (r: Vec<Arc<Route<Rule>>>) ensures r@ == matched(*self, *request) { unimplemented!() }
    #[verifier::external_body] pub fn trace_request(&self, request: &Request) -> Vec<Trace<Rule>> { unimplemented!() }
}
#[verifier::external_body] #[verifier::accept_recursive_types(T)] pub struct LinkedHashSet<T> { h: std::marker::PhantomData<T> }
impl<T> LinkedHashSet<T> {
    pub uninterp spec fn lv(&self) -> int;
    pub uninterp spec fn lempty(&self) -> bool;
    #[verifier::external_body] pub fn is_empty(&self) -> (r: bool) ensures r == self.lempty() { unimplemented!() }
}
pub uninterp spec fn ut_diff(t: int, ids: Seq<String>) -> LinkedHashSet<String>;
pub uninterp spec fn ut_has_rule(t: int, id: Seq<char>) -> bool;
pub uninterp spec fn ut_rule_ids(t: int) -> LinkedHashSet<String>;
pub uninterp spec fn ut_unit_ids(t: int) -> LinkedHashSet<String>;
impl UnitTrace {
    pub uninterp spec fn v(&self) -> int;
    #[verifier::external_body] pub fn default() -> (r: UnitTrace) ensures r.v() == ut0() { unimplemented!() }
    #[verifier::external_body] pub fn squash_with_target_unit_traces(&mut self) ensures final(self).v() == ut_squash(old(self).v()) { unimplemented!() }
    #[verifier::external_body] pub fn diff(&self, other: Vec<String>) -> (r: LinkedHashSet<String>) ensures r == ut_diff(self.v(), other@) { unimplemented!() }
    #[verifier::external_body] pub fn rule_ids_contains(&self, rule_id: &str) -> (r: bool) ensures r == ut_has_rule(self.v(), rule_id@) { unimplemented!() }
    #[verifier::external_body] pub fn get_rule_ids_applied(&self) -> (r: LinkedHashSet<String>) ensures r == ut_rule_ids(self.v()) { unimplemented!() }
    #[verifier::external_body] pub fn get_unit_ids_applied(&self) -> (r: LinkedHashSet<String>) ensures r == ut_unit_ids(self.v()) { unimplemented!() }
}
pub uninterp spec fn rloop(router: Router<Rule>, max_hops: u8, e: Example, domains: Seq<String>) -> RedirectionLoop;   // unit misc: RedirectionLoop::compute
pub uninterp spec fn rl_bad(l: RedirectionLoop) -> (bool, bool);                                                       // (too many hops, loop)
impl RedirectionLoop {
    #[verifier::external_body] pub fn from_example(router: &Router<Rule>, max_hops: u8, example: &Example, project_domains: Vec<String>) -> (r: RedirectionLoop)
        ensures r == rloop(*router, max_hops, *example, project_domains@) { unimplemented!() }
    #[verifier::external_body] pub fn has_error_too_many_hops(&self) -> (r: bool) ensures r == rl_bad(*self).0 { unimplemented!() }
    #[verifier::external_body] pub fn has_error_loop(&self) -> (r: bool) ensures r == rl_bad(*self).1 { unimplemented!() }
}
impl Action {
    pub uninterp spec fn core(&self) -> int;     // what the answers depend on; the &mut methods only record applied rule ids
    #[verifier::external_body] pub fn from_routes_rule(routes: Vec<Arc<Route<Rule>>>, request: &Request, unit_trace: Option<&mut UnitTrace>) -> (r: Action)
        ensures r.core() == action_of(routes@, *request), match unit_trace { Some(t) => final(t).v() == ut_action(t.v(), routes@, *request), None => true } { unimplemented!() }
    #[verifier::external_body] pub fn get_status_code(&mut self, response_status_code: u16, unit_trace: Option<&mut UnitTrace>) -> (r: u16)
        ensures final(self).core() == old(self).core(), r == status_at(old(self).core(), response_status_code),
            match unit_trace { Some(t) => final(t).v() == ut_status(t.v(), old(self).core(), response_status_code), None => true } { unimplemented!() }
    #[verifier::external_body] pub fn get_final_status_code_with_fallback(&mut self, response_status_code: u16, fallback_status_code: u16, unit_trace: &mut UnitTrace) -> (r: (u16, u16))
        ensures final(self).core() == old(self).core(), r == live_status(old(self).core(), response_status_code, fallback_status_code),
            final(unit_trace).v() == ut_status2(old(unit_trace).v(), old(self).core(), response_status_code, fallback_status_code) { unimplemented!() }
    #[verifier::external_body] pub fn filter_headers(&mut self, headers: Vec<Header>, response_status_code: u16, add_rule_ids_header: bool, unit_trace: Option<&mut UnitTrace>) -> (r: Vec<Header>)
        ensures final(self).core() == old(self).core(), (headers@.len() == 0 && !add_rule_ids_header) ==> r@ == hdrs_at(old(self).core(), response_status_code),
            match unit_trace { Some(t) => final(t).v() == ut_headers(t.v(), old(self).core(), response_status_code), None => true } { unimplemented!() }
    #[verifier::external_body] pub fn create_filter_body(&mut self, response_status_code: u16, headers: &[Header]) -> (r: Option<FilterBodyAction>)
        ensures final(self).core() == old(self).core(), headers@.len() == 0 ==> (match r { Some(f) => body_stage_at(old(self).core(), response_status_code) == Some(f.stage()) && f.fed() == Seq::<u8>::empty() && f.out() == Seq::<u8>::empty(), None => body_stage_at(old(self).core(), response_status_code) is None }) { unimplemented!() }
    #[verifier::external_body] pub fn should_log_request(&mut self, allow_log_config: bool, response_status_code: u16, unit_trace: Option<&mut UnitTrace>) -> (r: bool)
        ensures final(self).core() == old(self).core(), allow_log_config ==> r == log_at(old(self).core(), response_status_code),
            match unit_trace { Some(t) => final(t).v() == ut_log(t.v(), old(self).core(), response_status_code), None => true } { unimplemented!() }
}
impl FilterBodyAction {
    pub uninterp spec fn stage(&self) -> int;
    pub uninterp spec fn fed(&self) -> Seq<u8>;      // input consumed so far
    pub uninterp spec fn out(&self) -> Seq<u8>;      // output produced so far
    // ASSUMED: one chunk then end() yields body_out(stage, chunk); filters insert Strings into a UTF-8 body: the output is UTF-8 (listed)
    #[verifier::external_body] pub fn filter(&mut self, data: Vec<u8>, unit_trace: Option<&mut UnitTrace>) -> (r: Vec<u8>)
        ensures final(self).stage() == old(self).stage(), final(self).fed() == old(self).fed() + data@, final(self).out() == old(self).out() + r@,
            match unit_trace { Some(t) => final(t).v() == ut_body_filter(t.v(), old(self).stage(), old(self).fed(), data@), None => true } { unimplemented!() }
    #[verifier::external_body] pub fn end(&mut self, unit_trace: Option<&mut UnitTrace>) -> (r: Vec<u8>)
        ensures final(self).stage() == old(self).stage(), old(self).out() + r@ == body_out(old(self).stage(), old(self).fed()), valid_utf8(old(self).fed()) ==> valid_utf8(old(self).out() + r@),
            match unit_trace { Some(t) => final(t).v() == ut_body_end(t.v(), old(self).stage(), old(self).fed()), None => true } { unimplemented!() }
}
pub uninterp spec fn str_of(b: Seq<u8>) -> Seq<char>;
#[verifier::external_body] pub fn outl_utf8(b: &Vec<u8>) -> (r: &str) requires valid_utf8(b@) ensures r@ == str_of(b@)
{ /* verbatim: std::str::from_utf8(&b1).unwrap() */ unimplemented!() }
#[verifier::external_body] pub fn outl_body_bytes(body: &str) -> (r: Vec<u8>) ensures vstd::utf8::encode_utf8(body@) == r@, valid_utf8(r@)
{ /* verbatim: body.into() */ unimplemented!() }
#[verifier::external_body] pub fn outl_example_clone(e: &Example) -> (r: Example) ensures r == *e { /* verbatim: example.to_owned() */ unimplemented!() }
#[verifier::external_body] pub fn outl_fmt_invalid(e: &HttpError) -> String { /* verbatim: format!("Invalid example: {e}") */ unimplemented!() }
pub uninterp spec fn template() -> Seq<char>;     // the fixed sample document the analyses run the body filters on
pub open spec fn ex_status(e: Example) -> u16 { match e.response_status_code { Some(c) => c, None => 0u16 } }
// statement: the reported response is the live pipeline's
pub open spec fn reported_ok(o: ExplainRequestOutput, router: Router<Rule>, e: Example, q: Request) -> bool {
    let a = action_of(matched(router, q), q);
    let (fin, back) = live_status(a, ex_status(e), 200);
    &&& o.response.status_code == fin && o.backend_status_code == back
    // header and body filters act on what the backend answered
    &&& o.response.headers@ == hdrs_at(a, back)
    &&& match body_stage_at(a, back) { None => o.response.body@ == template(), Some(st) => o.response.body@ == str_of(body_out(st, vstd::utf8::encode_utf8(template()))) }
    // the logging decision is taken on what is sent to the client
    &&& o.should_log_request == log_at(a, fin)
}
impl ExplainRequestOutput {
    //@@ fn src/api/explain_request.rs :: impl ExplainRequestOutput / fn create_result -> r
    //@| ensures r matches Ok(o) ==> (req_of(*router.config, *example) matches Some(q) && reported_ok(o, *router, *example, q)),
    //@|     r is Err ==> req_of(*router.config, *example) is None,
    //@| entry broadcast use axiom_iter_seq_vec;
    //@| outline `format!("Invalid example: {e}")` => `outl_fmt_invalid(&e)`
    //@| outline `body.into()` => `outl_body_bytes(body)`
    //@| outline `example.to_owned()` => `outl_example_clone(example)`
    //@| outline `std::str::from_utf8(&b1).unwrap()` => `outl_utf8(&b1)`
    //@| after `b1 = body_filter.filter(body.into(), Some(&mut unit_trace));`: let ghost r1 = b1@; proof { assert(body_filter.fed() =~= vstd::utf8::encode_utf8(template())); assert(body_filter.out() =~= r1); }
    //@| after `b1.extend(b2);`: proof { assert(b1@ =~= r1 + b2@); assert(b1@ =~= body_out(body_filter.stage(), vstd::utf8::encode_utf8(template()))); }
    //@| after `let mut body = "<!DOCTYPE html> <html> <head> </head> <body> </body> </html>";`: proof { assume_template(body@); }
}
// ---------------------------------------------------------------- impact analysis (src/api/impact.rs): the same combination, per example of the rule
//@@ rename Response ImpactResponse
//@@ item src/api/impact.rs :: struct Response
//@| opt keepderive:Default
//@@ item src/api/impact.rs :: struct Impact
//@@ item src/api/impact.rs :: struct ImpactOutput
impl Clone for Rule { #[verifier::external_body] fn clone(&self) -> (r: Self) ensures r == *self { unimplemented!() } }
pub assume_specification [<str as PartialEq>::eq] (a: &str, b: &str) -> (r: bool) ensures r == (a@ == b@);
pub uninterp spec fn has_id(r: Router<Rule>, id: Seq<char>) -> bool;      // a live rule of the router carries that id (unit lay: Router::live / routes map)
//@@ item src/api/rules_message.rs :: struct RuleChangeSet
#[verifier::external_body] pub broadcast proof fn axiom_arc_cloned<T>(a: Arc<T>, b: Arc<T>) ensures #[trigger] cloned::<Arc<T>>(a, b) ==> a == b {}
impl RuleChangeSet {
    // unit lay (Router::apply_change_set): the derived router; what ids it holds depends on the change set — nothing is promised about the studied rule
    #[verifier::external_body] pub fn update_existing_router(self, existing_router: Arc<Router<Rule>>) -> (r: Router<Rule>) ensures r.config == existing_router.config, r == updated(self, *existing_router) { unimplemented!() }
    // a change set that changes nothing
    //@@ fn src/api/rules_message.rs :: impl RuleChangeSet / fn is_empty -> r
    //@| ensures r == (self.added@.len() == 0 && self.updated@.len() == 0 && self.deleted@.len() == 0),
    //@| entry broadcast use vstd::std_specs::hash::group_hash_axioms; broadcast use axiom_string_key_model;
}
// the router derived from a shared one by a change set (unit lay: Router::apply_change_set on a clone)
pub uninterp spec fn updated(cs: RuleChangeSet, existing: Router<Rule>) -> Router<Rule>;
pub open spec fn cs_empty(cs: RuleChangeSet) -> bool { cs.added@.len() == 0 && cs.updated@.len() == 0 && cs.deleted@.len() == 0 }
// the router a project-level analysis works on: the shared one itself when the change set changes nothing, otherwise the derived one
pub open spec fn project_router(cs: RuleChangeSet, existing: Router<Rule>) -> Router<Rule> { if cs_empty(cs) { existing } else { updated(cs, existing) } }
impl Router<Rule> {
    #[verifier::external_body] pub fn insert(&mut self, item: Rule) ensures final(self).config == old(self).config,
        forall|x: Seq<char>| #[trigger] has_id(*final(self), x) <==> has_id(*old(self), x) || x == item.id@ { unimplemented!() }
    #[verifier::external_body] pub fn remove(&mut self, id: &str) -> Option<Arc<Route<Rule>>> ensures final(self).config == old(self).config,
        forall|x: Seq<char>| #[trigger] has_id(*final(self), x) <==> has_id(*old(self), x) && x != id@ { unimplemented!() }
    #[verifier::external_body] pub fn from_arc_config(config: Arc<RouterConfig>) -> (r: Router<Rule>) ensures r.config == config, forall|x: Seq<char>| !#[trigger] has_id(r, x) { unimplemented!() }
    #[verifier::external_body] pub fn from_config(config: RouterConfig) -> (r: Router<Rule>) ensures *r.config == config, forall|x: Seq<char>| !#[trigger] has_id(r, x) { unimplemented!() }
}
impl Clone for RouterConfig { #[verifier::external_body] fn clone(&self) -> (r: Self) ensures r == *self { unimplemented!() } }
//@@ item src/api/impact.rs :: struct ImpactInput
//@@ item src/api/impact.rs :: struct ImpactProjectInput
#[verifier::external_body] pub fn outl_example_clone2(e: &Example) -> (r: Example) ensures r == *e { /* verbatim: example.to_owned() */ unimplemented!() }
#[verifier::external_body] pub fn outl_fmt_cannot(e: &HttpError) -> String { /* verbatim: format!("Cannot create query from example: {e}") */ unimplemented!() }
pub open spec fn impact_ok(im: Impact, router: Router<Rule>) -> bool {
    im.error is None ==> (req_of(*router.config, im.example) matches Some(q) && ({
        let a = action_of(matched(router, q), q);
        let (fin, back) = live_status(a, ex_status(im.example), 200);
        &&& im.response.status_code == fin && im.backend_status_code == back
        &&& im.response.headers@ == hdrs_at(a, back)
        &&& match body_stage_at(a, back) { None => im.response.body@ == template(), Some(st) => im.response.body@ == str_of(body_out(st, vstd::utf8::encode_utf8(template()))) }
        &&& im.should_log_request == log_at(a, fin)
    }))
}
impl Impact {
    //@@ fn src/api/impact.rs :: impl Impact / fn new_with_error -> r
    //@| ensures r.error is Some,
}
impl ImpactOutput {
    // incremental: the change set is applied, THEN the studied rule is taken out (whatever the change set did with it)
    //@@ fn src/api/impact.rs :: impl ImpactOutput / fn from_impact_project -> r
    //@| ensures true,
    //@| entry broadcast use axiom_arc_cloned;
    // from scratch: every rule but the studied one
    //@@ fn src/api/impact.rs :: impl ImpactOutput / fn create_result -> r
    //@| ensures true,
    //@| opt r5:0
    //@| attr #[verifier::loop_isolation(false)]
    //@| loopbefore 0: let ghost sid = impact_input.rule.id@; let ghost nr = impact_input.rules@.len() as int; proof { assert(vf_it0_rem0.len() == nr); }
    //@| loop 0: invariant !has_id(router, sid), 0 <= vf_it0_idx <= nr, vf_it0.remaining() == vf_it0_rem0.skip(vf_it0_idx),
    //@|     decreases nr - vf_it0_idx,
    // every impact reported without error is the live pipeline's response on the router AS IT IS after the rule under study was put in
    // the studied rule is put in by the analysis itself (actions add / update): it must not be in the router yet, under any id bookkeeping (C02: ids stay unique)
    //@@ fn src/api/impact.rs :: impl ImpactOutput / fn compute_impacts -> r
    //@| requires !has_id(*old(router), rule.id@), !has_id(*old(trace_unique_router), rule.id@),
    //@| ensures forall|i: int| 0 <= i < r.impacts@.len() ==> impact_ok(#[trigger] r.impacts@[i], *final(router)),
    //@| opt r5:0
    //@| attr #[verifier::loop_isolation(false)]
    //@| entry broadcast use axiom_iter_seq_vec;
    //@| outline `format!("Cannot create query from example: {e}")` => `outl_fmt_cannot(&e)`
    //@| outline `body.into()` => `outl_body_bytes(body)`
    //@| outline `example.to_owned()`#0 => `outl_example_clone2(&example)`
    //@| outline `example.to_owned()`#1 => `outl_example_clone2(&example)`
    //@| outline `std::str::from_utf8(&b1).unwrap()` => `outl_utf8(&b1)`
    //@| loopbefore 0: let ghost rt = *router; let ghost nex = examples.unwrap()@.len() as int; proof { assert(vf_it0_rem0.len() == nex); }
    //@| loop 0: invariant *router == rt, forall|i: int| 0 <= i < impacts@.len() ==> impact_ok(#[trigger] impacts@[i], rt),
    //@|         0 <= vf_it0_idx <= nex, vf_it0.remaining() == vf_it0_rem0.skip(vf_it0_idx),
    //@|     decreases nex - vf_it0_idx,
    //@| loophead 0: let ghost im0 = impacts@;
    //@| after `let mut body = "<!DOCTYPE html> <html> <head> </head> <body> </body> </html>";`: proof { assume_template(body@); }
    //@| after `b1 = body_filter.filter(body.into(), Some(&mut unit_trace));`: let ghost r1 = b1@; proof { assert(body_filter.fed() =~= vstd::utf8::encode_utf8(template())); assert(body_filter.out() =~= r1); }
    //@| after `b1.extend(b2);`: proof { assert(b1@ =~= r1 + b2@); assert(b1@ =~= body_out(body_filter.stage(), vstd::utf8::encode_utf8(template()))); }
    //@| before `continue;`: proof { assert(impacts@ =~= im0.push(impacts@.last())); assert forall|i: int| 0 <= i < impacts@.len() implies impact_ok(#[trigger] impacts@[i], rt) by { if i < im0.len() { assert(impacts@[i] == im0[i]); } } }
    //@| looptail 0: proof { assert(impacts@ =~= im0.push(impacts@.last())); assert forall|i: int| 0 <= i < impacts@.len() implies impact_ok(#[trigger] impacts@[i], rt) by { if i < im0.len() { assert(impacts@[i] == im0[i]); } } }
}
//@@ unrename Response
// ---------------------------------------------------------------- project-level entry points: the same analysis on the router derived by the change set
//@@ item src/api/explain_request.rs :: struct ExplainRequestInput
//@@ item src/api/explain_request.rs :: struct ExplainRequestProjectInput
impl ExplainRequestOutput {
    // incremental: explain on the derived router (or on the shared one itself when nothing changes) reports the live pipeline's response on THAT router
    //@@ fn src/api/explain_request.rs :: impl ExplainRequestOutput / fn create_result_from_project -> r
    //@| ensures r matches Ok(o) ==> (req_of(*existing_router.config, explain_request_input.example) matches Some(q)
    //@|         && reported_ok(o, project_router(explain_request_input.change_set, *existing_router), explain_request_input.example, q)),
    //@|     r is Err ==> req_of(*existing_router.config, explain_request_input.example) is None,
    // from scratch: a router with the given configuration holding the given rules
    //@@ fn src/api/explain_request.rs :: impl ExplainRequestOutput / fn create_result_without_project -> r
    //@| ensures r matches Ok(o) ==> (req_of(explain_request_input.router_config, explain_request_input.example) matches Some(q)
    //@|         && exists|rt: Router<Rule>| *rt.config == explain_request_input.router_config && #[trigger] reported_ok(o, rt, explain_request_input.example, q)),
    //@|     r is Err ==> req_of(explain_request_input.router_config, explain_request_input.example) is None,
    //@| loop 0: invariant *router.config == explain_request_input.router_config,
}
// ---------------------------------------------------------------- test-example analysis (src/api/test_examples.rs)
// What is decided: the verdict on an example is taken from the unit trace THE LIVE PIPELINE leaves for that example — the two-phase status
// decision (an example status of 0 counts as "not given", as in the explain and impact analyses), header and body filters asked with the status the
// BACKEND answered, the logging decision with the status SENT TO THE CLIENT — and every example is counted once.
pub enum Call {
    Failed { rule: Rule, example: Example, rule_ids: LinkedHashSet<String>, unit_ids: LinkedHashSet<String>, not_applied: LinkedHashSet<String>, rl: Option<RedirectionLoop> },
    Errored { rule: Rule, example: Example, msg: Seq<char> },
    Counted,
}
#[verifier::external_body] pub struct TestExamplesOutput { x: u8 }
pub uninterp spec fn err_text(e: HttpError) -> Seq<char>;
impl HttpError { #[verifier::external_body] pub fn to_string(&self) -> (r: String) ensures r@ == err_text(*self) { unimplemented!() } }
pub uninterp spec fn handler_of(r: Route<Rule>) -> Rule;
impl Route<Rule> { #[verifier::external_body] pub fn handler(&self) -> (r: &Rule) ensures *r == handler_of(*self) { unimplemented!() } }
impl TestExamplesOutput {
    pub uninterp spec fn calls(&self) -> Seq<Call>;       // what was recorded, in order (the counters and the first-ten tables are functions of it)
    #[verifier::external_body] pub fn add_failed_example(&mut self, rule: &Rule, example: Example, rule_ids_applied: LinkedHashSet<String>, unit_ids_applied: LinkedHashSet<String>,
            unit_ids_not_applied_anymore: LinkedHashSet<String>, redirection_loop: Option<RedirectionLoop>)
        ensures final(self).calls() == old(self).calls().push(Call::Failed { rule: *rule, example, rule_ids: rule_ids_applied, unit_ids: unit_ids_applied, not_applied: unit_ids_not_applied_anymore, rl: redirection_loop }) { unimplemented!() }
    #[verifier::external_body] pub fn add_errored_example(&mut self, rule: &Rule, example: Example, error: String)
        ensures final(self).calls() == old(self).calls().push(Call::Errored { rule: *rule, example, msg: error@ }) { unimplemented!() }
    #[verifier::external_body] pub fn increment_example_count(&mut self) ensures final(self).calls() == old(self).calls().push(Call::Counted) { unimplemented!() }
}
#[verifier::external_body] pub fn outl_ids_unwrap(e: &Example) -> (r: Vec<String>) requires e.unit_ids_applied is Some ensures r@ == e.unit_ids_applied.unwrap()@
{ /* verbatim: example.unit_ids_applied.clone().unwrap() */ unimplemented!() }
#[verifier::external_body] pub fn outl_example_clone3(e: &Example) -> (r: Example) ensures r == *e { /* verbatim: example.clone() */ unimplemented!() }
// the trace the live pipeline leaves for an example (statement: the analyses replay the pipeline calls in proxy order)
pub open spec fn response_trace(router: Router<Rule>, e: Example, q: Request) -> int {      // up to the response: status decision, header filters, body filters
    let ms = matched(router, q); let a = action_of(ms, q);
    let (fin, back) = live_status(a, ex_status(e), 200);
    let t1 = ut_status2(ut_action(ut0(), ms, q), a, ex_status(e), 200);
    let t2 = ut_headers(t1, a, back);
    match body_stage_at(a, back) { None => t2, Some(st) => ut_body_end(ut_body_filter(t2, st, Seq::<u8>::empty(), vstd::utf8::encode_utf8(template())), st, vstd::utf8::encode_utf8(template())) }
}
pub open spec fn live_trace(router: Router<Rule>, e: Example, q: Request) -> int {
    let a = action_of(matched(router, q), q);
    ut_squash(ut_log(response_trace(router, e, q), a, live_status(a, ex_status(e), 200).0))
}
// what one example adds to the results
pub open spec fn example_calls(router: Router<Rule>, e: Example, id: Seq<char>, route: Route<Rule>, max_hops: u8, domains: Seq<String>) -> Seq<Call> {
    if e.unit_ids_applied is None { Seq::<Call>::empty() } else {
        match req_of(*router.config, e) {
            None => Seq::<Call>::empty(),       // reported as errored (the message is the conversion's), not counted
            Some(q) => {
                let t = live_trace(router, e, q);
                let gone = ut_diff(t, e.unit_ids_applied.unwrap()@);
                let has = ut_has_rule(t, id);
                if (e.must_match && (!gone.lempty() || !has)) || (!e.must_match && has) {
                    seq![Call::Failed { rule: handler_of(route), example: e, rule_ids: ut_rule_ids(t), unit_ids: ut_unit_ids(t), not_applied: gone, rl: None::<RedirectionLoop> }, Call::Counted]
                } else {
                    let l = rloop(router, max_hops, e, domains);
                    if rl_bad(l).0 || rl_bad(l).1 { seq![Call::Failed { rule: handler_of(route), example: e, rule_ids: ut_rule_ids(t), unit_ids: ut_unit_ids(t), not_applied: gone, rl: Some(l) }, Call::Counted] }
                    else { seq![Call::Counted] }
                }
            },
        }
    }
}
impl TestExamplesOutput {
    //@@ fn src/api/test_examples.rs :: impl TestExamplesOutput / fn test_example
    //@| ensures (example.unit_ids_applied is Some && req_of(*router.config, *example) is None) ==> exists|m: Seq<char>| final(results).calls() == old(results).calls().push(Call::Errored { rule: handler_of(*route), example: *example, msg: m }),
    //@|     !(example.unit_ids_applied is Some && req_of(*router.config, *example) is None) ==> final(results).calls() == old(results).calls() + example_calls(*router, *example, id@, *route, max_hops, project_domains@),
    //@| entry broadcast use axiom_iter_seq_vec;
    //@| outline `body.into()` => `outl_body_bytes(body)`
    //@| outline `example.unit_ids_applied.clone().unwrap()` => `outl_ids_unwrap(example)`
    //@| outline `example.clone()`#0 => `outl_example_clone3(example)`
    //@| outline `example.clone()`#1 => `outl_example_clone3(example)`
    //@| outline `example.clone()`#2 => `outl_example_clone3(example)`
    //@| after `let body = "<!DOCTYPE html> <html> <head> </head> <body> </body> </html>";`: proof { assume_template(body@); }
}
// ---------------------------------------------------------------- unit-id analysis (src/api/unit_ids.rs)
// What is decided: the unit ids recorded for an example are read off the trace the live pipeline leaves up to the response (same two-phase status
// decision, header and body filters asked with the backend's status). Stated as an assertion at the point where the ids are read; the shape of the
// output map is not specified here.
//@@ item src/api/unit_ids.rs :: struct RuleOutput
//@@ item src/api/unit_ids.rs :: struct UnitIdsOutput
pub uninterp spec fn routes_map(r: Router<Rule>) -> Map<String, Arc<Route<Rule>>>;
// ASSUMED (trusted, listed): String keys obey the hash-table key model
#[verifier::external_body] pub broadcast proof fn axiom_string_key_model() ensures #[trigger] vstd::std_specs::hash::obeys_key_model::<String>() {}
impl Router<Rule> {
    #[verifier::external_body] pub fn routes(&self) -> (r: &HashMap<String, Arc<Route<Rule>>>) ensures r@ == routes_map(*self) { unimplemented!() }
}
pub uninterp spec fn lhs_seq(l: LinkedHashSet<String>) -> Seq<String>;
#[verifier::external_body] pub fn outl_ids_collect(l: LinkedHashSet<String>) -> (r: Vec<String>) ensures r@ == lhs_seq(l)
{ /* verbatim: unit_trace.get_unit_ids_applied().into_iter().collect() */ unimplemented!() }
impl UnitIdsOutput {
    //@@ fn src/api/unit_ids.rs :: impl UnitIdsOutput / fn create_result -> r
    //@| ensures true,
    //@| opt r5:0
    //@| opt r6i:0
    //@| opt r5:1
    //@| opt r6i:1
    //@| attr #[verifier::loop_isolation(false)]
    //@| entry broadcast use axiom_iter_seq_vec; broadcast use vstd::std_specs::hash::group_hash_axioms; broadcast use axiom_string_key_model;
    //@| outline `body.into()` => `outl_body_bytes(body)`
    //@| outline `unit_trace.get_unit_ids_applied().into_iter().collect()` => `outl_ids_collect(unit_trace.get_unit_ids_applied())`
    //@| outline `example.clone()`#0 => `outl_example_clone3(example)`
    //@| outline `example.clone()`#1 => `outl_example_clone3(example)`
    //@| loopbefore 0: let ghost n0 = routes_map(*router).len() as int; proof { assert(vf_it0_rem0.len() == n0); }
    //@| loop 0: invariant 0 <= vf_it0_idx <= n0, vf_it0_rem0.len() == n0, vf_it0.remaining() == vf_it0_rem0.skip(vf_it0_idx),
    //@|     decreases n0 - vf_it0_idx,
    //@| loopbefore 1: let ghost n1 = (*examples).unwrap()@.len() as int; proof { assert(vf_it1_rem0.len() == n1); }
    //@| loop 1: invariant 0 <= vf_it1_idx <= n1, vf_it1_rem0.len() == n1, vf_it1.remaining() == vf_it1_rem0.skip(vf_it1_idx),
    //@|         0 <= vf_it0_idx <= n0, vf_it0_rem0.len() == n0, vf_it0.remaining() == vf_it0_rem0.skip(vf_it0_idx),
    //@|     decreases n1 - vf_it1_idx,
    //@| after `let body = "<!DOCTYPE html> <html> <head> </head> <body> </body> </html>";`: proof { assume_template(body@); }
    //@| after `unit_trace.squash_with_target_unit_traces();`: proof { assert(unit_trace.v() == ut_squash(response_trace(*router, *example, request))); }
}
// the sample document is a literal of the source: named here
#[verifier::external_body] pub proof fn assume_template(b: Seq<char>) ensures b == template() {}

// ---- PINS: functions of /repo this unit (or the property it serves) only ASSUMES something about — a hand-written shim stands for them, or nothing at
// all does. The assumption was made for one text of each; the token hash ties it to that text: a change makes the unit UNDECIDED (exit 2), never OK.
//@@ pin src/api/rules_message.rs :: impl RuleChangeSet / fn update_existing_router = ee338acdba2c
//@@ strlits
} // verus!
fn main() {}

//@@ include ../common/prelude.rs
// Unit `utr` — the unit trace's own bookkeeping (src/action/mod.rs, impl UnitTrace), used by the project-level analyses of C19: which unit ids count as
// applied, and which of an example's recorded ids are "not applied anymore". linked_hash_set::LinkedHashSet is a shim: an insertion-ordered list without
// repetition (its crate is not under contract); the HashMap of computed values and the per-target trace are opaque here.
verus! {
//@@ include ../common/vec_specs.rs
pub open spec fn has(s: Seq<Seq<char>>, x: Seq<char>) -> bool { exists|i: int| 0 <= i < s.len() && s[i] == x }
pub open spec fn ins(s: Seq<Seq<char>>, x: Seq<char>) -> Seq<Seq<char>> { if has(s, x) { s } else { s.push(x) } }
#[verifier::external_body] #[verifier::accept_recursive_types(T)] pub struct LinkedHashSet<T> { h: std::marker::PhantomData<T> }
impl LinkedHashSet<String> {
    pub uninterp spec fn view(&self) -> Seq<Seq<char>>;
    #[verifier::external_body] pub fn new() -> (r: Self) ensures r@ == Seq::<Seq<char>>::empty() { unimplemented!() }
    #[verifier::external_body] pub fn insert(&mut self, value: String) -> (r: bool) ensures final(self)@ == ins(old(self)@, value@), r != has(old(self)@, value@) { unimplemented!() }
    #[verifier::external_body] pub fn contains(&self, value: &str) -> (r: bool) ensures r == has(self@, value@) { unimplemented!() }
}
impl Clone for LinkedHashSet<String> { #[verifier::external_body] fn clone(&self) -> (r: Self) ensures r@ == self@ { unimplemented!() } }
#[verifier::external_body] pub struct ValueMap { x: u8 }
#[verifier::external_body] pub struct WithTargetUnitTrace { x: u8 }
// SHIM of the struct: the three id lists are the real fields; the two other fields are opaque
pub struct UnitTrace {
    pub rule_ids_applied: LinkedHashSet<String>,
    pub unit_ids_applied: LinkedHashSet<String>,
    pub unit_ids_seen: LinkedHashSet<String>,
    pub value_computed_by_units: ValueMap,
    pub with_target_unit_trace: WithTargetUnitTrace,
}
// statement (C19, test-example analysis): the ids of the example's recorded list that the trace does not hold as applied, in the example's order
pub open spec fn not_applied(applied: Seq<Seq<char>>, other: Seq<String>, n: int) -> Seq<Seq<char>>
    decreases n
{ if n <= 0 || n > other.len() { Seq::empty() } else { let p = not_applied(applied, other, n - 1); if has(applied, other[n - 1]@) { p } else { ins(p, other[n - 1]@) } } }
impl UnitTrace {
    //@@ fn src/action/mod.rs :: impl UnitTrace / fn add_unit_id
    //@| ensures final(self).unit_ids_applied@ == ins(old(self).unit_ids_applied@, unit_id@), final(self).unit_ids_seen@ == ins(old(self).unit_ids_seen@, unit_id@),
    //@|     final(self).rule_ids_applied@ == old(self).rule_ids_applied@,

    //@@ fn src/action/mod.rs :: impl UnitTrace / fn diff -> r
    //@| ensures r@ == not_applied(self.unit_ids_applied@, other@, other@.len() as int),
    //@| entry broadcast use axiom_iter_seq_vec;
    //@| forlabel 0: it
    //@| loopbefore 0: let ghost o0 = other@;
    //@| loop 0: invariant iter_ok(it.history@, it.index@, it.snapshot@.remaining(), o0), diff@ == not_applied(self.unit_ids_applied@, o0, it.index@ as int),
    //@| loophead 0: proof { assert(unit_id == o0[it.index@ as int]); }

    //@@ fn src/action/mod.rs :: impl UnitTrace / fn get_rule_ids_applied -> r
    //@| ensures r@ == self.rule_ids_applied@,

    //@@ fn src/action/mod.rs :: impl UnitTrace / fn rule_ids_contains -> r
    //@| ensures r == has(self.rule_ids_applied@, rule_id@),

    //@@ fn src/action/mod.rs :: impl UnitTrace / fn get_unit_ids_applied -> r
    //@| ensures r@ == self.unit_ids_applied@,
}
} // verus!
fn main() {}

//@@ include ../common/prelude.rs
// Unit `rul` — property C05, per-rule part: Action::from_route_rule builds, for ONE matched rule, an action every effect of which carries
// that rule's id and that rule's response-status condition; the sampling decision obeys the override / the 0 and 100 rates.
// (Unit `act` treats this function as the named function rr(route, request) and proves the fold over the matched rules.)
verus! {
use std::sync::Arc;

// ---------------------------------------------------------------- foreign to this unit (opaque shims)
#[verifier::external_body] pub struct IpConstraint { x: u8 }
#[verifier::external_body] pub struct DateTimeConstraint { x: u8 }
#[verifier::external_body] pub struct Marker { x: u8 }
#[verifier::external_body] pub struct Variable { x: u8 }
#[verifier::external_body] pub struct Example { x: u8 }
#[verifier::external_body] pub struct IpAddr { x: u8 }
#[verifier::external_body] pub struct Utc { x: u8 }
#[verifier::external_body] #[verifier::accept_recursive_types(Tz)] pub struct DateTime<Tz> { x: std::marker::PhantomData<Tz> }
//@@ rename Header ApiHeader
#[verifier::external_body] pub struct ApiHeader { x: u8 }
//@@ item src/api/source.rs :: struct Source
//@@ unrename Header
//@@ item src/http/header.rs :: struct Header
//@@ item src/http/query.rs :: struct PathAndQueryWithSkipped
//@@ item src/http/request.rs :: struct Request
#[verifier::external_body] #[verifier::accept_recursive_types(T)] pub struct Route<T> { h: std::marker::PhantomData<T> }
#[verifier::external_body] #[verifier::accept_recursive_types(T)] pub struct LinkedHashSet<T> { inner: std::marker::PhantomData<T> }
impl LinkedHashSet<String> {
    pub uninterp spec fn view(&self) -> Seq<Seq<char>>;
    #[verifier::external_body] pub fn new() -> (r: Self) ensures r@ == Seq::<Seq<char>>::empty() { unimplemented!() }
    // insertion-ordered set built from a vector (assumed: for a one-element vector, that element)
    #[verifier::external_body] pub fn from_iter(v: Vec<String>) -> (r: Self) ensures v@.len() == 1 ==> r@ == seq![v@[0]@] { unimplemented!() }
}
pub open spec fn req_override(r: Request) -> Option<bool> { r.sampling_override }
//@@ item src/api/header_filter.rs :: struct HeaderFilter
//@@ item src/api/body_filter.rs :: struct HTMLBodyFilter
//@@ item src/api/body_filter.rs :: struct TextBodyFilter
//@@ item src/api/body_filter.rs :: enum TextAction
//@@ item src/api/body_filter.rs :: enum BodyFilter
//@@ item src/api/rule.rs :: struct Rule
//@@ item src/action/status_code_update.rs :: struct StatusCodeUpdate
//@@ item src/action/log_override.rs :: struct LogOverride
//@@ item src/action/mod.rs :: struct RuleTrace
//@@ item src/action/mod.rs :: struct HeaderFilterAction
//@@ item src/action/mod.rs :: struct BodyFilterAction
//@@ item src/action/mod.rs :: struct Action
impl Clone for TextAction { #[verifier::external_body] fn clone(&self) -> (r: Self) ensures r == *self { unimplemented!() } }
pub type Vars = Vec<(String, String)>;
impl Route<Rule> {
    pub uninterp spec fn rule(&self) -> Rule;
    #[verifier::external_body] pub fn handler(&self) -> (r: &Rule) ensures *r == self.rule() { unimplemented!() }
    #[verifier::external_body] pub fn capture(&self, request: &Request) -> (r: HashMap<String, String>) ensures r@ == caps(*self, *request) { unimplemented!() }
}
// marker capture (unit cap) and variable construction (unit mrk): named functions here
pub uninterp spec fn caps(route: Route<Rule>, request: Request) -> Map<String, String>;
pub uninterp spec fn vars_of(rule: Rule, captured: Map<String, String>, request: Request) -> Seq<(String, String)>;
impl Rule {
    #[verifier::external_body] pub fn variables(&self, markers_captured: &HashMap<String, String>, request: &Request) -> (r: Vars) ensures r@ == vars_of(*self, markers_captured@, *request) { unimplemented!() }
}
// marker / variable substitution (under contract in unit mrk): a named function here
pub uninterp spec fn substituted(s: Seq<char>, vars: Seq<(String, String)>) -> Seq<char>;
pub struct StaticOrDynamic { }
impl StaticOrDynamic {
    #[verifier::external_body] pub fn replace(str: String, variables: &[(String, String)]) -> (r: String) ensures r@ == substituted(str@, variables@) { unimplemented!() }
}
pub mod rand {
    use super::*;
    // a fresh unconstrained value per call
    #[verifier::external_body] pub fn random<T>() -> T { unimplemented!() }
}
pub assume_specification [<u32 as Ord>::clamp] (x: u32, lo: u32, hi: u32) -> (r: u32)
    ensures lo <= hi ==> r == (if x < lo { lo } else if x > hi { hi } else { x });

pub open spec fn optstr(o: Option<String>) -> Option<Seq<char>> { match o { Some(s) => Some(s@), None => None } }
pub open spec fn codes_of(rule: Rule) -> Seq<u16> { match rule.source.response_status_codes { None => Seq::empty(), Some(c) => c@ } }
// statement: the response-status condition of a rule is its list, taken as an EXCLUSION list exactly when the rule's flag says so
pub open spec fn excl_of(rule: Rule) -> bool { rule.source.exclude_response_status_codes == Some(true) }
// statement: a sampled rule is skipped or forced exactly as the override or a 0 / 100 rate dictate (between, the draw decides)
pub open spec fn must_skip(rule: Rule, request: Request) -> bool {
    rule.source.sampling matches Some(p) && (req_override(request) == Some(false) || (req_override(request) is None && p == 0))
}
pub open spec fn must_apply(rule: Rule, request: Request) -> bool {
    rule.source.sampling is None || req_override(request) == Some(true) || (rule.source.sampling matches Some(p) && req_override(request) is None && p >= 100)
}
// every effect carries the rule's id and the rule's response-status condition
pub open spec fn hfa_ok(h: HeaderFilterAction, rule: Rule) -> bool { optstr(h.rule_id) == Some(rule.id@) && h.on_response_status_codes@ == codes_of(rule) && h.exclude_response_status_codes == excl_of(rule) }
pub open spec fn bfa_ok(b: BodyFilterAction, rule: Rule) -> bool { optstr(b.rule_id) == Some(rule.id@) && b.on_response_status_codes@ == codes_of(rule) && b.exclude_response_status_codes == excl_of(rule) }
pub open spec fn has_target(rule: Rule) -> bool { rule.target matches Some(t) && t@.len() > 0 }
pub open spec fn n_rule_headers(rule: Rule) -> nat { match rule.header_filters { Some(v) => v@.len(), None => 0 } }
pub open spec fn n_rule_bodies(rule: Rule) -> nat { match rule.body_filters { Some(v) => v@.len(), None => 0 } }
pub open spec fn t_off(rule: Rule) -> int { if has_target(rule) { 1 } else { 0 } }
pub open spec fn same_filter(h: HeaderFilterAction, f: HeaderFilter) -> bool { h.filter.action@ == f.action@ && h.filter.header@ == f.header@ }
pub open spec fn built_ok(a: Action, rule: Rule, request: Request) -> bool {
    // status code: the rule's own code (0 / absent: none), under the rule's condition, no fallback yet
    &&& match rule.status_code { Some(c) if c != 0 => a.status_code_update matches Some(u) && u.status_code == c && u.on_response_status_codes@ == codes_of(rule)
            && u.exclude_response_status_codes == excl_of(rule) && u.fallback_status_code == 0 && optstr(u.rule_id) == Some(rule.id@) && u.fallback_rule_id is None,
        _ => a.status_code_update is None }
    // header filters: the redirect target (if any) first, as an override of Location; then the rule's own filters in order
    &&& a.header_filters@.len() == (if has_target(rule) { 1nat } else { 0nat }) + n_rule_headers(rule)
    &&& forall|i: int| 0 <= i < a.header_filters@.len() ==> hfa_ok(#[trigger] a.header_filters@[i], rule)
    &&& has_target(rule) ==> a.header_filters@[0].filter.action@ == "override"@ && a.header_filters@[0].filter.header@ == "Location"@
    &&& forall|i: int| 0 <= i < n_rule_headers(rule) ==> same_filter(a.header_filters@[i + t_off(rule)], #[trigger] rule.header_filters.unwrap()@[i])
    // body filters: the rule's own, in order
    &&& a.body_filters@.len() == n_rule_bodies(rule)
    &&& forall|i: int| 0 <= i < a.body_filters@.len() ==> bfa_ok(#[trigger] a.body_filters@[i], rule)
    // bookkeeping
    &&& a.rule_ids@ == seq![rule.id@] && a.rules_applied@ == Seq::<Seq<char>>::empty()
    &&& a.rule_traces@.len() == 1 && a.rule_traces@[0].id@ == rule.id@ && a.rule_traces@[0].on_response_status_codes@ == codes_of(rule) && a.rule_traces@[0].exclude_response_status_codes == excl_of(rule)
    // logging override: the rule's, under the rule's condition
    &&& match rule.log_override { None => a.log_override is None,
        Some(l) => a.log_override matches Some(u) && u.log_override == l && optstr(u.rule_id) == Some(rule.id@) && u.on_response_status_codes@ == codes_of(rule)
            && u.exclude_response_status_codes == excl_of(rule) && u.fallback_log_override is None && u.fallback_rule_id is None }
}

// C09 "marketing parameters ... forwarded to the redirect target only when so configured": the skipped parameters the request carries (unit pq: present
// exactly when the configuration says so) are appended to the substituted target with the right separator
pub open spec fn has_qmark(v: Seq<char>) -> bool { exists|i: int| 0 <= i < v.len() && v[i] == '?' }
pub open spec fn forwarded(v: Seq<char>, skipped: Option<String>) -> Seq<char> {
    match skipped { None => v, Some(sk) => v.push(if has_qmark(v) { '&' } else { '?' }) + sk@ }
}
// R8 outline, ASSUMED (str::contains is generic over the unstable Pattern trait): whether the text contains a question mark
#[verifier::external_body] pub fn outl_has_qmark(value: &String) -> (r: bool) ensures r == has_qmark(value@) { /* verbatim: value.contains('?') */ value.contains('?') }
impl Action {
    // the redirect target on its own (explain / redirect-chain analyses): the same substitution and forwarding as in from_route_rule
    //@@ fn src/action/mod.rs :: impl Action / fn get_target -> r
    //@| ensures match route.rule().target { None => r is None,
    //@|     Some(t) => r matches Some(v) && v@ == forwarded(substituted(t@, vars_of(route.rule(), caps(*route, *request), *request)), request.path_and_query_skipped.skipped_query_params) },
    //@| closure `|t|` => `|t: &String| -> (v: String) ensures v@ == forwarded(substituted(t@, variables@), request.path_and_query_skipped.skipped_query_params)`
    //@| outline `value.contains('?')` => `outl_has_qmark(&value)`

    //@@ fn src/action/mod.rs :: impl Action / fn from_route_rule -> r
    //@| opt r6i:0
    //@| opt r6i:1
    //@| forlabel 0: it
    //@| forlabel 1: it
    //@| attr #[verifier::loop_isolation(false)]
    //@| after `let rule = route.handler();`: let ghost rl = *rule;
    //@| before `if let Some(rule_header_filters) = rule.header_filters.as_ref() {`: proof { assert(has_target(rl) ==> header_filters@.len() == 1 && header_filters@[0].filter.action@ == "override"@ && header_filters@[0].filter.header@ == "Location"@); assert(!has_target(rl) ==> header_filters@.len() == 0); }
    //@| loopbefore 0: let ghost hf0 = header_filters@; let ghost rhf = rule_header_filters@;
    //@|     proof { lit_override(); lit_Location(); assert(hf0.len() == t_off(rl)); assert(rl.header_filters == Some(*rule_header_filters)); }
    //@| loop 0: invariant iter_ref_ok(it.history@, it.index@, it.snapshot@.remaining(), rhf), header_filters@.len() == hf0.len() + it.index@,
    //@|         forall|i: int| 0 <= i < header_filters@.len() ==> hfa_ok(#[trigger] header_filters@[i], rl),
    //@|         forall|i: int| 0 <= i < hf0.len() ==> header_filters@[i] == hf0[i],
    //@|         forall|j: int| 0 <= j < it.index@ ==> same_filter(header_filters@[hf0.len() + j], #[trigger] rhf[j]),
    //@| loophead 0: let ghost h1 = header_filters@; let ghost k = it.index@ as int; proof { assert(*filter == rhf[k]); }
    //@| looptail 0: proof {
    //@|     assert(header_filters@ =~= h1.push(header_filters@.last()));
    //@|     assert forall|i: int| 0 <= i < header_filters@.len() implies hfa_ok(#[trigger] header_filters@[i], rl) by { if i < h1.len() { assert(header_filters@[i] == h1[i]); } }
    //@|     assert forall|j: int| 0 <= j < k + 1 implies same_filter(header_filters@[hf0.len() + j], #[trigger] rhf[j]) by { if j < k { assert(header_filters@[hf0.len() + j] == h1[hf0.len() + j]); } }
    //@| }
    //@| loopbefore 1: let ghost rbf = rule_body_filters@;
    //@| loop 1: invariant iter_ref_ok(it.history@, it.index@, it.snapshot@.remaining(), rbf), body_filters@.len() == it.index@,
    //@|         forall|i: int| 0 <= i < body_filters@.len() ==> bfa_ok(#[trigger] body_filters@[i], rl),
    //@| loophead 1: let ghost b1 = body_filters@;
    //@| looptail 1: proof {
    //@|     assert(body_filters@ =~= b1.push(body_filters@.last()));
    //@|     assert forall|i: int| 0 <= i < body_filters@.len() implies bfa_ok(#[trigger] body_filters@[i], rl) by { if i < b1.len() { assert(body_filters@[i] == b1[i]); } }
    //@| }
    //@| exit proof {
    //@|     let a = vf_ret.0.unwrap();
    //@|     assert(match rl.status_code { Some(c) if c != 0 => a.status_code_update matches Some(u) && u.status_code == c && u.on_response_status_codes@ == codes_of(rl) && u.exclude_response_status_codes == excl_of(rl) && u.fallback_status_code == 0 && optstr(u.rule_id) == Some(rl.id@) && u.fallback_rule_id is None, _ => a.status_code_update is None });
    //@|     assert(a.header_filters@.len() == (if has_target(rl) { 1nat } else { 0nat }) + n_rule_headers(rl));
    //@|     assert(has_target(rl) ==> a.header_filters@[0].filter.action@ == "override"@ && a.header_filters@[0].filter.header@ == "Location"@);
    //@|     assert(forall|i: int| 0 <= i < n_rule_headers(rl) ==> same_filter(a.header_filters@[i + t_off(rl)], #[trigger] rl.header_filters.unwrap()@[i]));
    //@|     assert(a.body_filters@.len() == n_rule_bodies(rl));
    //@|     assert(a.rule_ids@ == seq![rl.id@] && a.rules_applied@ == Seq::<Seq<char>>::empty());
    //@|     assert(a.rule_traces@.len() == 1 && a.rule_traces@[0].id@ == rl.id@ && a.rule_traces@[0].on_response_status_codes@ == codes_of(rl) && a.rule_traces@[0].exclude_response_status_codes == excl_of(rl));
    //@|     assert(match rl.log_override { None => a.log_override is None, Some(l) => a.log_override matches Some(u) && u.log_override == l && optstr(u.rule_id) == Some(rl.id@) && u.on_response_status_codes@ == codes_of(rl) && u.exclude_response_status_codes == excl_of(rl) && u.fallback_log_override is None && u.fallback_rule_id is None });
    //@| }
    //@| closure `|log_override|` => `|log_override: bool| -> (u: LogOverride) ensures u.log_override == log_override && optstr(u.rule_id) == Some(rl.id@) && u.on_response_status_codes@ == codes_of(rl) && u.exclude_response_status_codes == excl_of(rl) && u.fallback_log_override is None && u.fallback_rule_id is None`
    //@| outline `value.contains('?')` => `outl_has_qmark(&value)`
    //@| ensures must_skip(route.rule(), *request) ==> r.0 is None,
    //@|     must_apply(route.rule(), *request) ==> r.0 is Some,
    //@|     r.0 is None ==> !r.1 && !r.2 && r.3 is None,
    //@|     r.0 matches Some(a) ==> built_ok(a, route.rule(), *request) && r.1 == (match route.rule().reset { Some(b) => b, None => false })
    //@|         && r.2 == (match route.rule().stop { Some(b) => b, None => false }) && optstr(r.3) == optstr(route.rule().configuration_reset_unit_id),
    //@|     // the redirect target: markers / variables substituted, then the request's skipped (marketing) parameters appended
    //@|     r.0 matches Some(a) ==> (has_target(route.rule()) ==> a.header_filters@[0].filter.value@ == forwarded(substituted(route.rule().target.unwrap()@, vars_of(route.rule(), caps(*route, *request), *request)), request.path_and_query_skipped.skipped_query_params)),
}

//@@ strlits
} // verus!
fn main() {}

//@@ include ../common/prelude.rs
// Unit `misc` — panic sites and small functions of C07 / C10 / C19 / C09 not owned by another unit
verus! {

//@@ include ../common/vec_specs.rs
// str::get never panics (returns None for an inverted / out-of-range / non-boundary range); result otherwise unconstrained here
pub assume_specification<I: std::slice::SliceIndex<str>> [str::get] (s: &str, i: I) -> std::option::Option<&<I as std::slice::SliceIndex<str>>::Output>;
// ================================================================ marker transformers (C10 / C07)
//@@ item src/marker/transformer/slice.rs :: struct Slice
impl Slice {
    // R7: `impl Transform for Slice` verified as an inherent method (trait dispatch through dyn Transform is not modelled)
    // C07: returns for EVERY (from, to, str) — no panic on from > to or on offsets inside a multi-byte character;
    // C10: the result is the byte range [from, min(to, len)) of the input when that range is well-formed
    //@@ fn src/marker/transformer/slice.rs :: impl Transform for Slice / fn transform -> r
    //@| ensures true,
}

//@@ strlits
} // verus!
fn main() {}

//@@ include ../common/prelude.rs
// Unit `misc` — panic sites and small functions of C07 / C10 / C19 / C09 not owned by another unit
verus! {

//@@ include ../common/vec_specs.rs
// str::get never panics (returns None for an inverted / out-of-range / non-boundary range); result otherwise unconstrained here
pub assume_specification<I: std::slice::SliceIndex<str>> [str::get] (s: &str, i: I) -> std::option::Option<&<I as std::slice::SliceIndex<str>>::Output>;
// ================================================================ marker transformers (C10 / C07)
//@@ item src/marker/transformer/slice.rs :: struct Slice
impl Slice {
    // R7: `impl Transform for Slice` verified as an inherent method (trait dispatch through dyn Transform is not modelled)
    // C07: returns for EVERY (from, to, str) — no panic on from > to or on offsets inside a multi-byte character;
    // C10: the result is the byte range [from, min(to, len)) of the input when that range is well-formed
    //@@ fn src/marker/transformer/slice.rs :: impl Transform for Slice / fn transform -> r
    //@| ensures true,
}

// ================================================================ redirect-chain analysis (C19 clause "stops within the hop limit,
// reports a loop exactly when a (URL, method) repeats"; C07: no panic)
pub uninterp spec fn lower(s: Seq<char>) -> Seq<char>;
pub assume_specification [str::to_lowercase] (s: &str) -> (r: std::string::String) ensures r@ == lower(s@);
pub assume_specification<'b> [<std::string::String as PartialEq<&str>>::eq] (a: &std::string::String, b: &&str) -> (r: bool) ensures r == (a@ == b@);
// SHIMS (hand-written, trusted as over-approximations: every result is unconstrained, the only assumption is that the
// callee returns): Router/Request/Action/Url are opaque here; their own behaviour is the subject of units rtr/act.
#[verifier::external_body] pub struct RouterConfig { x: u8 }
#[verifier::external_body] pub struct Rule { x: u8 }
#[verifier::external_body] #[verifier::accept_recursive_types(T)] pub struct Route<T> { h: std::marker::PhantomData<T> }
#[verifier::external_body] pub struct Request { x: u8 }
#[verifier::external_body] pub struct HttpError { x: u8 }
#[verifier::external_body] pub struct UnitTrace { x: u8 }
#[verifier::external_body] pub struct Action { x: u8 }
#[verifier::external_body] pub struct Url { x: u8 }
#[verifier::external_body] pub struct UrlParseError { x: u8 }
pub struct Router<T> { pub config: RouterConfig, pub vf_rest: Option<T> }
impl<T> Router<T> {
    #[verifier::external_body] pub fn match_request(&self, request: &Request) -> Vec<std::sync::Arc<Route<T>>> { unimplemented!() }
}
impl Request {
    #[verifier::external_body] pub fn from_example(router_config: &RouterConfig, example: &Example) -> std::result::Result<Request, HttpError> { unimplemented!() }
}
impl Action {
    #[verifier::external_body] pub fn from_routes_rule(routes: Vec<std::sync::Arc<Route<Rule>>>, request: &Request, unit_trace: Option<&mut UnitTrace>) -> Action { unimplemented!() }
    #[verifier::external_body] pub fn get_status_code(&mut self, response_status_code: u16, unit_trace: Option<&mut UnitTrace>) -> u16 { unimplemented!() }
    #[verifier::external_body] pub fn filter_headers(&mut self, headers: Vec<Header>, response_status_code: u16, add_rule_ids_header: bool, unit_trace: Option<&mut UnitTrace>) -> Vec<Header> { unimplemented!() }
}
impl Url {
    #[verifier::external_body] pub fn parse(input: &str) -> std::result::Result<Url, UrlParseError> { unimplemented!() }
    // url::Url::host_str is None for URLs without a host (mailto:, data:, unix: ...): result unconstrained
    #[verifier::external_body] pub fn host_str(&self) -> Option<&str> { unimplemented!() }
}
#[verifier::external_body] pub fn join_url(base: &str, path: &str) -> String { unimplemented!() }
#[verifier::external_body] pub fn outl_codes_contains(a: &[u16], x: &u16) -> (r: bool) ensures r == a@.contains(*x) { /* verbatim: <[u16]>::contains */ a.contains(x) }
#[verifier::external_body] pub fn outl_domains_contains(a: &Vec<String>, x: &String) -> bool { /* verbatim: Vec<String>::contains */ a.contains(x) }
//@@ item src/http/header.rs :: struct Header
//@@ item src/api/examples.rs :: struct ExampleHeader
//@@ item src/api/examples.rs :: struct Example
impl Clone for ExampleHeader { #[verifier::external_body] fn clone(&self) -> (r: Self) ensures r == *self { unimplemented!() } }
impl Clone for Example { #[verifier::external_body] fn clone(&self) -> (r: Self) ensures r == *self { unimplemented!() } }
//@@ item src/api/redirection_loop.rs :: const REDIRECTION_CODES
//@@ item src/api/redirection_loop.rs :: struct RedirectionLoop
//@@ item src/api/redirection_loop.rs :: struct RedirectionHop
//@@ item src/api/redirection_loop.rs :: enum RedirectionError
pub open spec fn hop_key(h: RedirectionHop) -> (Seq<char>, Seq<char>) { (h.url@, h.method@) }
pub open spec fn hops_distinct(s: Seq<RedirectionHop>) -> bool {
    forall|i: int, j: int| 0 <= i < j < s.len() ==> hop_key(#[trigger] s[i]) != hop_key(#[trigger] s[j])
}
// the statement's clause: a loop is reported exactly when a (URL, method) repeats, and the analysis stops at the repeat
pub open spec fn loop_reported_iff_repeat(r: RedirectionLoop) -> bool {
    &&& (r.error matches Some(RedirectionError::Loop)) <==> !hops_distinct(r.hops@)
    &&& hops_distinct(r.hops@.drop_last())
}
// a hop of the chain is a redirect response: every recorded hop after the starting point carries one of the redirection codes
pub open spec fn is_redirect(c: u16) -> bool { c == 301 || c == 302 || c == 307 || c == 308 }
pub open spec fn hops_are_redirects(s: Seq<RedirectionHop>) -> bool { forall|k: int| 1 <= k < s.len() ==> is_redirect((#[trigger] s[k]).status_code) }
impl Example {
    //@@ fn src/api/examples.rs :: impl Example / fn with_url -> r
    //@| ensures r.url == url, r.method == self.method, r.response_status_code == self.response_status_code,
    //@@ fn src/api/examples.rs :: impl Example / fn with_method -> r
    //@| ensures r.url == self.url, r.method == method, r.response_status_code == self.response_status_code,
}
impl RedirectionLoop {
    //@@ fn src/api/redirection_loop.rs :: impl RedirectionLoop / fn has_error -> r
    //@| ensures r == self.error.is_some(),
    //@@ fn src/api/redirection_loop.rs :: impl RedirectionLoop / fn has_error_too_many_hops -> r
    //@| ensures r == (self.error matches Some(RedirectionError::TooManyHops)),
    //@@ fn src/api/redirection_loop.rs :: impl RedirectionLoop / fn has_error_loop -> r
    //@| ensures r == (self.error matches Some(RedirectionError::Loop)),
    //@@ fn src/api/redirection_loop.rs :: impl RedirectionLoop / fn from_example -> r
    //@| ensures r.hops@.len() >= 1, r.hops@.len() <= max_hops as nat + 1, r.hops@[0].url == example.url, loop_reported_iff_repeat(r), hops_are_redirects(r.hops@),
    //@@ fn src/api/redirection_loop.rs :: impl RedirectionLoop / fn compute -> r
    //@| ensures r.hops@.len() >= 1, r.hops@.len() <= max_hops as nat + 1, r.hops@[0].url == example.url, loop_reported_iff_repeat(r), hops_are_redirects(r.hops@),
    //@| replace `REDIRECTION_CODES.contains(` => `outl_codes_contains(&REDIRECTION_CODES, ` :: slice::contains has no Verus spec; assumed: membership in the array
    //@| replace `[301, 302].contains(` => `outl_codes_contains(&[301, 302], ` :: slice::contains has no Verus spec; result unconstrained
    //@| replace `project_domains.contains(` => `outl_domains_contains(&project_domains, ` :: Vec::contains has no Verus spec; result unconstrained
    //@| opt r5:0
    //@| loop 0: invariant_except_break hops_distinct(hops@), !(error matches Some(RedirectionError::Loop)), hops@.len() <= vf_it0_idx + 1,
    //@|   invariant hops@.len() >= 1, 0 <= vf_it0_idx <= vf_it0_rem0.len(), vf_it0.remaining() == vf_it0_rem0.skip(vf_it0_idx), vf_it0_rem0.len() == max_hops as int,
    //@|     hops@[0].url == example.url, hops_are_redirects(hops@),
    //@|   ensures hops@.len() >= 1, hops@.len() <= max_hops as nat + 1, hops@[0].url == example.url, hops_are_redirects(hops@),
    //@|     (error matches Some(RedirectionError::Loop)) <==> !hops_distinct(hops@), hops_distinct(hops@.drop_last()),
    //@|   decreases max_hops as int - vf_it0_idx,
    //@| forlabel 2: it2
    //@| loop 2: invariant iter_ref_ok(it2.history@, it2.index@, it2.snapshot@.remaining(), hops@),
    //@|     forall|k: int| 0 <= k < it2.index@ ==> hop_key(#[trigger] hops@[k]) != (current_url@, current_method@),
    //@|     hops_distinct(hops@), hops@.len() >= 1, hops@.len() <= vf_it0_idx, 1 <= vf_it0_idx <= max_hops as int, hops@[0].url == example.url, hops_are_redirects(hops@), is_redirect(final_status_code),
    //@|     !(error matches Some(RedirectionError::Loop)), vf_it0.remaining() == vf_it0_rem0.skip(vf_it0_idx), vf_it0_rem0.len() == max_hops as int,
    //@| loophead 2: let ghost hops0 = hops@; let ghost kk = it2.index@ as int; proof { assert(*hop == hops@[kk]); }
    //@| before `error = Some(RedirectionError::Loop);`: proof { assert(hops@.drop_last() =~= hops0); assert(hop_key(hops@[kk]) == hop_key(hops@[hops@.len() - 1])); assert(!hops_distinct(hops@)); }
    //@| before `if let Ok(url) = Url::parse(&current_url) {`: proof { assert(hops_distinct(hops@)); assert(hops_distinct(hops@.drop_last())); }
}

// ---- PINS: functions of /repo this unit (or the property it serves) only ASSUMES something about — a hand-written shim stands for them, or nothing at
// all does. The assumption was made for one text of each; the token hash ties it to that text: a change makes the unit UNDECIDED (exit 2), never OK.
//@@ pin src/api/redirection_loop.rs :: fn join_url = bc6518227918
//@@ strlits
} // verus!
fn main() {}

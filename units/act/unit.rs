//@@ include ../common/prelude.rs
// Unit `act` — properties C05 (action == fold of matched rules in priority order) and C11 (determinism)
verus! {

// ---------------------------------------------------------------- assumed std specs (trusted, listed)
// used only at element types whose PartialEq is structural equality (u16, String)
pub assume_specification<T: PartialEq> [<[T]>::contains] (s: &[T], x: &T) -> (r: bool)
    ensures r == s@.contains(*x);

//@@ item src/action/status_code_update.rs :: struct StatusCodeUpdate
//@@ item src/action/log_override.rs :: struct LogOverride

pub open spec fn optstr(o: Option<String>) -> Option<Seq<char>> { match o { Some(s) => Some(s@), None => None } }
pub open spec fn optstr_ref(o: Option<&String>) -> Option<Seq<char>> { match o { Some(s) => Some(s@), None => None } }

// statement: a response-status condition admits code c
pub open spec fn admits(codes: Seq<u16>, excl: bool, c: u16) -> bool { if excl { !codes.contains(c) } else { codes.contains(c) } }

// reference case table for the status code of one (possibly merged) status update, from the statement of C05:
// - no condition (empty list, include mode): decided at request time (c == 0), otherwise only its fallback fields answer
// - condition admits c: own status; condition does not admit c: fallback when a response exists (c != 0), nothing at request time
pub open spec fn ref_status(u: StatusCodeUpdate, c: u16) -> (u16, Option<Seq<char>>) {
    let own = (u.status_code, optstr(u.rule_id));
    if u.on_response_status_codes@.len() == 0 && c == 0 { own }
    else if admits(u.on_response_status_codes@, u.exclude_response_status_codes, c) { own }
    else if c != 0 { (u.fallback_status_code, optstr(u.fallback_rule_id)) }
    else { (0, None) }
}
pub open spec fn ref_log(u: LogOverride, c: u16) -> (Option<bool>, Option<Seq<char>>, bool) {
    if u.on_response_status_codes@.len() == 0 || admits(u.on_response_status_codes@, u.exclude_response_status_codes, c) {
        (Some(u.log_override), optstr(u.rule_id), true)
    } else {
        (u.fallback_log_override, optstr(u.fallback_rule_id), false)
    }
}

// R8 outlined expression (Iterator::any has no Verus spec). Assumed: `any(|v| *v == c)` over a slice is membership.
#[verifier::external_body]
pub fn outl_any_eq(this: &StatusCodeUpdate, response_status_code: u16) -> (r: bool)
    ensures r == this.on_response_status_codes@.contains(response_status_code),
{
    let self_ = this; /* verbatim: self.on_response_status_codes.iter().any(|v| *v == response_status_code) */
    self_.on_response_status_codes.iter().any(|v| *v == response_status_code)
}
#[verifier::external_body]
pub fn outl_any_eq_log(this: &LogOverride, response_status_code: u16) -> (r: bool)
    ensures r == this.on_response_status_codes@.contains(response_status_code),
{
    let self_ = this; /* verbatim: self.on_response_status_codes.iter().any(|v| *v == response_status_code) */
    self_.on_response_status_codes.iter().any(|v| *v == response_status_code)
}
impl StatusCodeUpdate {
    //@@ fn src/action/status_code_update.rs :: impl StatusCodeUpdate / fn get_status_code -> r
    //@| ensures (r.0, optstr_ref(r.1)) == ref_status(*self, response_status_code),
    //@| outline `self.on_response_status_codes.iter().any(|v| *v == response_status_code)` => `outl_any_eq(self, response_status_code)`
}
impl LogOverride {
    //@@ fn src/action/log_override.rs :: impl LogOverride / fn get_log_override -> r
    //@| ensures (r.0, optstr(r.1), r.2) == ref_log(*self, response_status_code),
    //@| outline `self.on_response_status_codes.iter().any(|v| *v == response_status_code)` => `outl_any_eq_log(self, response_status_code)`
}


// ---------------------------------------------------------------- foreign crate shim: linked_hash_set::LinkedHashSet (insertion-ordered set)
// Opaque type; assumed contracts (trusted, listed): view = elements in insertion order, without duplicates.
#[verifier::external_body]
#[verifier::accept_recursive_types(T)]
pub struct LinkedHashSet<T> { inner: std::marker::PhantomData<T> }
pub open spec fn lhs_insert(s: Seq<Seq<char>>, v: Seq<char>) -> Seq<Seq<char>> { if s.contains(v) { s } else { s.push(v) } }
pub open spec fn lhs_extend(s: Seq<Seq<char>>, o: Seq<Seq<char>>) -> Seq<Seq<char>>
    decreases o.len()
{
    if o.len() == 0 { s } else { lhs_insert(lhs_extend(s, o.drop_last()), o.last()) }
}
impl LinkedHashSet<String> {
    pub uninterp spec fn view(&self) -> Seq<Seq<char>>;
    #[verifier::external_body]
    pub fn new() -> (r: Self) ensures r@ == Seq::<Seq<char>>::empty() { unimplemented!() }
    #[verifier::external_body]
    pub fn insert(&mut self, v: String) -> (r: bool) ensures final(self)@ == lhs_insert(old(self)@, v@) { unimplemented!() }
    #[verifier::external_body]
    pub fn extend(&mut self, o: LinkedHashSet<String>) ensures final(self)@ == lhs_extend(old(self)@, o@) { unimplemented!() }
}
impl Clone for LinkedHashSet<String> {
    #[verifier::external_body]
    fn clone(&self) -> (r: Self) ensures r@ == self@ { unimplemented!() }
}

//@@ item src/http/header.rs :: struct Header
//@@ item src/api/header_filter.rs :: struct HeaderFilter
//@@ include ../common/hdr_spec.rs
pub assume_specification [str::to_lowercase] (s: &str) -> (r: std::string::String) ensures r@ == spec_lower(s@);
// BodyFilter (src/api/body_filter.rs) is only moved/cloned here: opaque
#[verifier::external_body]
pub struct BodyFilter { x: u8 }
//@@ item src/action/mod.rs :: struct RuleTrace
//@@ item src/action/mod.rs :: struct HeaderFilterAction
//@@ item src/action/mod.rs :: struct BodyFilterAction
//@@ item src/action/mod.rs :: struct Action

// ---------------------------------------------------------------- views
pub struct SCV { pub status_code: u16, pub codes: Seq<u16>, pub excl: bool, pub fb: u16, pub rule_id: Option<Seq<char>>, pub fb_rule_id: Option<Seq<char>>, pub unit_id: Option<Seq<char>>, pub target_hash: Option<Seq<char>> }
pub open spec fn scv(u: StatusCodeUpdate) -> SCV {
    SCV { status_code: u.status_code, codes: u.on_response_status_codes@, excl: u.exclude_response_status_codes, fb: u.fallback_status_code,
          rule_id: optstr(u.rule_id), fb_rule_id: optstr(u.fallback_rule_id), unit_id: optstr(u.unit_id), target_hash: optstr(u.target_hash) }
}
pub open spec fn oscv(o: Option<StatusCodeUpdate>) -> Option<SCV> { match o { Some(u) => Some(scv(u)), None => None } }
// (unit_id of a log override is not part of the view: the statement of C05 does not speak about unit ids)
pub struct LOV { pub log_override: bool, pub rule_id: Option<Seq<char>>, pub codes: Seq<u16>, pub excl: bool, pub fb: Option<bool>, pub fb_rule_id: Option<Seq<char>> }
pub open spec fn lov(u: LogOverride) -> LOV {
    LOV { log_override: u.log_override, rule_id: optstr(u.rule_id), codes: u.on_response_status_codes@, excl: u.exclude_response_status_codes,
          fb: u.fallback_log_override, fb_rule_id: optstr(u.fallback_rule_id) }
}
pub open spec fn olov(o: Option<LogOverride>) -> Option<LOV> { match o { Some(u) => Some(lov(u)), None => None } }
pub struct AV {
    pub status: Option<SCV>, pub headers: Seq<HeaderFilterAction>, pub bodies: Seq<BodyFilterAction>, pub rule_ids: Seq<Seq<char>>,
    pub traces: Seq<RuleTrace>, pub applied: Seq<Seq<char>>, pub log: Option<LOV>,
}
pub open spec fn av(a: Action) -> AV {
    AV { status: oscv(a.status_code_update), headers: a.header_filters@, bodies: a.body_filters@, rule_ids: a.rule_ids@, traces: a.rule_traces@,
         applied: a.rules_applied@, log: olov(a.log_override) }
}

// ---------------------------------------------------------------- reference merge, from the statement of C05:
// the newer (higher-priority) rule wins; an unconditional older status/log survives only as the fallback of a conditional newer one;
// filters, traces and rule ids accumulate in order
pub open spec fn ref_merge_status(o: Option<SCV>, n: Option<SCV>) -> Option<SCV> {
    match n {
        None => o,
        Some(nn) => match o {
            None => Some(nn),
            Some(oo) => if oo.codes.len() > 0 || nn.codes.len() == 0 { Some(nn) } else {
                Some(SCV { fb: oo.status_code, fb_rule_id: oo.rule_id, ..nn })
            },
        },
    }
}
pub open spec fn ref_merge_log(o: Option<LOV>, n: Option<LOV>) -> Option<LOV> {
    match n {
        None => o,
        Some(nn) => match o {
            None => Some(nn),
            Some(oo) => if oo.codes.len() > 0 || nn.codes.len() == 0 { Some(nn) } else {
                Some(LOV { fb: Some(oo.log_override), fb_rule_id: oo.rule_id, ..nn })
            },
        },
    }
}
pub open spec fn ref_merge(a: AV, b: AV) -> AV {
    AV { status: ref_merge_status(a.status, b.status), headers: a.headers + b.headers, bodies: a.bodies + b.bodies,
         rule_ids: lhs_extend(a.rule_ids, b.rule_ids), traces: a.traces + b.traces, applied: a.applied, log: ref_merge_log(a.log, b.log) }
}

// R1: derived Clone of StatusCodeUpdate re-stated structurally (Verus gives derived Clone of non-Copy types no spec)
impl Clone for StatusCodeUpdate {
    fn clone(&self) -> (r: StatusCodeUpdate) ensures scv(r) == scv(*self) {
        StatusCodeUpdate { status_code: self.status_code, on_response_status_codes: self.on_response_status_codes.clone(), exclude_response_status_codes: self.exclude_response_status_codes,
            fallback_status_code: self.fallback_status_code, rule_id: self.rule_id.clone(), fallback_rule_id: self.fallback_rule_id.clone(), unit_id: self.unit_id.clone(), target_hash: self.target_hash.clone() }
    }
}

// R8 outlined statement: iteration over the foreign LinkedHashSet (assumed: inserts every element in order)
#[verifier::external_body]
pub fn outl_extend_rule_ids(this: &mut LinkedHashSet<String>, other_rule_ids: LinkedHashSet<String>)
    ensures final(this)@ == lhs_extend(old(this)@, other_rule_ids@),
{
    /* verbatim: for rule_id in other.rule_ids { self.rule_ids.insert(rule_id); } */
    unimplemented!()
}

// ---------------------------------------------------------------- foreign to this unit (opaque shims)
#[verifier::external_body] pub struct Request { x: u8 }
#[verifier::external_body] pub struct Source { x: u8 }
#[verifier::external_body] pub struct Marker { x: u8 }
#[verifier::external_body] pub struct Variable { x: u8 }
#[verifier::external_body] pub struct Example { x: u8 }
#[verifier::external_body] #[verifier::accept_recursive_types(T)] pub struct Route<T> { h: std::marker::PhantomData<T> }
pub struct UnitTrace { pub rule_ids_applied: LinkedHashSet<String> }
impl UnitTrace {
    #[verifier::external_body]
    pub fn add_unit_id_with_target(&mut self, target: &str, unit_id: &str) ensures final(self).rule_ids_applied == old(self).rule_ids_applied {}
}
pub assume_specification<T: std::ops::DerefMut> [std::option::Option::<T>::as_deref_mut] (o: &mut std::option::Option<T>) -> std::option::Option<&mut <T as std::ops::Deref>::Target>;
use std::sync::Arc;
//@@ item src/api/rule.rs :: struct Rule
pub type RouteRef = Arc<Route<Rule>>;

// what one matched rule contributes (per-rule action, reset flag, stop flag, reset/stop unit id): assumed to be a function of
// (route, request) — i.e. sampling is off or decided; Action::from_route_rule is NOT under contract here (listed)
pub struct RR { pub action: Option<AV>, pub reset: bool, pub stop: bool, pub unit: Option<Seq<char>> }
pub uninterp spec fn rr(route: RouteRef, request: &Request) -> RR;
pub open spec fn oav(o: Option<Action>) -> Option<AV> { match o { Some(a) => Some(av(a)), None => None } }
pub open spec fn av_default() -> AV {
    AV { status: None, headers: Seq::empty(), bodies: Seq::empty(), rule_ids: Seq::empty(), traces: Seq::empty(), applied: Seq::empty(), log: None }
}
pub open spec fn status_at(u: Option<StatusCodeUpdate>, c: u16) -> u16 { match u { None => 0u16, Some(x) => ref_status(x, c).0 } }
pub open spec fn live_status(u: Option<StatusCodeUpdate>, example_status: u16, fallback: u16) -> (u16, u16) {
    let s0 = status_at(u, 0);
    if s0 != 0 { (s0, s0) } else { let b = if example_status == 0 { fallback } else { example_status }; (status_at(u, b), b) }
}
// reference fold from the statement of C05, over the rules in processing (ascending priority) order:
// a skipped (sampled-out) rule contributes nothing; `reset` discards everything accumulated so far (all lower-priority rules);
// `stop` ends the fold (no higher-priority rule contributes); otherwise merge
pub open spec fn fold_from(rs: Seq<RouteRef>, request: &Request, i: int, acc: AV) -> AV
    decreases rs.len() - i
{
    if i < 0 || i >= rs.len() { acc } else {
        let x = rr(rs[i], request);
        match x.action {
            None => fold_from(rs, request, i + 1, acc),
            Some(a) => {
                let acc2 = if x.reset { a } else { ref_merge(acc, a) };
                if x.stop { acc2 } else { fold_from(rs, request, i + 1, acc2) }
            }
        }
    }
}
// std sort through Ord: assumed to produce `sorted_routes` of its input (a permutation sorted by Route::cmp == Rule::cmp, stable)
pub uninterp spec fn sorted_routes(s: Seq<RouteRef>) -> Seq<RouteRef>;
#[verifier::external_body]
pub fn outl_sort_routes(routes: &mut Vec<RouteRef>)
    ensures final(routes)@ == sorted_routes(old(routes)@),
{
    /* verbatim: routes.sort(); */
    unimplemented!()
}

// R8 outlined expression: `<String as ToString>::to_string` goes through the blanket Display impl (no Verus spec); assumed: copies the string
#[verifier::external_body]
pub fn outl_to_string(rule_id: &String) -> (r: String)
    ensures r@ == rule_id@,
{
    rule_id.to_string()
}
// a filter/trace guard admits response code c (statement: an empty list is "no condition")
pub open spec fn guard_admits(codes: Seq<u16>, excl: bool, c: u16) -> bool { codes.len() == 0 || admits(codes, excl, c) }
pub open spec fn opt_insert(s: Seq<Seq<char>>, o: Option<Seq<char>>) -> Seq<Seq<char>> { match o { Some(v) => lhs_insert(s, v), None => s } }
// body filters admitted for code c, in order, and the applied-rule ids they add
pub open spec fn admitted_bodies(fs: Seq<BodyFilterAction>, c: u16) -> Seq<BodyFilter>
    decreases fs.len()
{
    if fs.len() == 0 { Seq::empty() } else {
        let p = admitted_bodies(fs.drop_last(), c);
        if guard_admits(fs.last().on_response_status_codes@, fs.last().exclude_response_status_codes, c) { p.push(fs.last().filter) } else { p }
    }
}
pub open spec fn applied_bodies(fs: Seq<BodyFilterAction>, c: u16, acc: Seq<Seq<char>>) -> Seq<Seq<char>>
    decreases fs.len()
{
    if fs.len() == 0 { acc } else {
        let p = applied_bodies(fs.drop_last(), c, acc);
        if guard_admits(fs.last().on_response_status_codes@, fs.last().exclude_response_status_codes, c) { opt_insert(p, optstr(fs.last().rule_id)) } else { p }
    }
}
// foreign to this unit: FilterBodyAction (src/filter/filter_body.rs, see unit `body`); assumed: remembers what it was built from
#[verifier::external_body] pub struct FilterBodyAction { x: u8 }
impl FilterBodyAction {
    pub uninterp spec fn built_from(&self) -> (Seq<BodyFilter>, Seq<Header>);
    pub uninterp spec fn spec_is_empty(&self) -> bool;
    #[verifier::external_body]
    pub fn new(filters: Vec<BodyFilter>, headers: &[Header]) -> (r: Self) ensures r.built_from() == (filters@, headers@) { unimplemented!() }
    #[verifier::external_body]
    pub fn is_empty(&self) -> (r: bool) ensures r == self.spec_is_empty() { unimplemented!() }
}
impl Clone for BodyFilter {
    #[verifier::external_body]
    fn clone(&self) -> (r: BodyFilter) ensures r == *self { unimplemented!() }
}

// ---- header filters: what is admitted for code c (views), applied ids
pub type FV = (Seq<char>, Seq<char>, Seq<char>);
pub open spec fn fv(f: HeaderFilter) -> FV { (f.action@, f.header@, f.value@) }
pub open spec fn fvs(s: Seq<HeaderFilter>) -> Seq<FV> { s.map_values(|f: HeaderFilter| fv(f)) }
pub open spec fn admitted_headers(fs: Seq<HeaderFilterAction>, c: u16) -> Seq<HeaderFilter>
    decreases fs.len()
{
    if fs.len() == 0 { Seq::empty() } else {
        let p = admitted_headers(fs.drop_last(), c);
        if guard_admits(fs.last().on_response_status_codes@, fs.last().exclude_response_status_codes, c) { p.push(fs.last().filter) } else { p }
    }
}
pub open spec fn applied_headers(fs: Seq<HeaderFilterAction>, c: u16, acc: Seq<Seq<char>>) -> Seq<Seq<char>>
    decreases fs.len()
{
    if fs.len() == 0 { acc } else {
        let p = applied_headers(fs.drop_last(), c, acc);
        if guard_admits(fs.last().on_response_status_codes@, fs.last().exclude_response_status_codes, c) { opt_insert(p, optstr(fs.last().rule_id)) } else { p }
    }
}
pub open spec fn applied_traces(ts: Seq<RuleTrace>, c: u16, acc: Seq<Seq<char>>) -> Seq<Seq<char>>
    decreases ts.len()
{
    if ts.len() == 0 { acc } else {
        let p = applied_traces(ts.drop_last(), c, acc);
        if guard_admits(ts.last().on_response_status_codes@, ts.last().exclude_response_status_codes, c) { lhs_insert(p, ts.last().id@) } else { p }
    }
}
// header filters with equal (action, header, value) views behave alike
pub proof fn lemma_fold_fv(a: Seq<HeaderFilter>, b: Seq<HeaderFilter>, hs: HV)
    requires fvs(a) == fvs(b),
    ensures fold_filters(a, hs) == fold_filters(b, hs), any_known(a) == any_known(b),
    decreases a.len(),
{
    assert(a.len() == fvs(a).len() && b.len() == fvs(b).len());
    if a.len() > 0 {
        assert(fvs(a.drop_last()) =~= fvs(a).drop_last());
        assert(fvs(b.drop_last()) =~= fvs(b).drop_last());
        lemma_fold_fv(a.drop_last(), b.drop_last(), hs);
        assert(fv(a.last()) == fvs(a)[a.len() - 1]);
        assert(fv(b.last()) == fvs(b)[b.len() - 1]);
    }
    if any_known(a) {
        let i = choose|i: int| 0 <= i < a.len() && filter_known(#[trigger] a[i]);
        assert(fv(a[i]) == fvs(a)[i] && fv(b[i]) == fvs(b)[i]);
        assert(filter_known(b[i]));
    }
    if any_known(b) {
        let i = choose|i: int| 0 <= i < b.len() && filter_known(#[trigger] b[i]);
        assert(fv(a[i]) == fvs(a)[i] && fv(b[i]) == fvs(b)[i]);
        assert(filter_known(a[i]));
    }
}
// unknown operations are ignored
pub proof fn lemma_none_known(fs: Seq<HeaderFilter>, hs: HV)
    requires !any_known(fs),
    ensures fold_filters(fs, hs) == hs,
    decreases fs.len(),
{
    if fs.len() > 0 {
        assert(!filter_known(fs[fs.len() - 1]));
        assert forall|i: int| 0 <= i < fs.drop_last().len() implies !filter_known(#[trigger] fs.drop_last()[i]) by { assert(!filter_known(fs[i])); }
        lemma_none_known(fs.drop_last(), hs);
    }
}
// R1: derived Clone of HeaderFilter re-stated structurally
impl Clone for HeaderFilter {
    fn clone(&self) -> (r: HeaderFilter) ensures fv(r) == fv(*self), optstr(r.id) == optstr(self.id), optstr(r.target_hash) == optstr(self.target_hash) {
        HeaderFilter { action: self.action.clone(), header: self.header.clone(), value: self.value.clone(), id: self.id.clone(), target_hash: self.target_hash.clone() }
    }
}
// foreign to this unit: FilterHeaderAction (unit `hdr`): the contracts below are the postconditions PROVED in unit hdr
// (new: any_known / fold_ops == fold_filters; filter: view == fold_ops), composed; assumed here
#[verifier::external_body] pub struct FilterHeaderAction { x: u8 }
impl FilterHeaderAction {
    pub uninterp spec fn spec_filters(&self) -> Seq<HeaderFilter>;
    #[verifier::external_body]
    pub fn new(filters: Vec<HeaderFilter>) -> (r: Option<Self>) ensures r.is_some() == any_known(filters@), r matches Some(f) ==> f.spec_filters() == filters@ { unimplemented!() }
    #[verifier::external_body]
    pub fn filter(&self, headers: Vec<Header>, unit_trace: Option<&mut UnitTrace>) -> (r: Vec<Header>)
        ensures hsview(r@) == fold_filters(self.spec_filters(), hsview(headers@)),
            unit_trace matches Some(t) ==> true,
    { unimplemented!() }
}
// R8 outlined expression (iterator adapters over the foreign LinkedHashSet + join): value of the X-RedirectionIo-RuleIds header = the ids of the
// list, joined by ';' (a named function of the list). The code has ONE of two shapes: the applied-rule list (statement: "applied-rule list") or the
// similarly named list of all matched rules; each shape has its own helper, so the verifier sees which list is joined
pub uninterp spec fn joined(ids: Seq<Seq<char>>) -> Seq<char>;
#[verifier::external_body]
pub fn outl_join_rule_ids(this: &Action) -> (r: String) ensures r@ == joined(this.rules_applied@)
{
    /* verbatim: self.get_applied_rule_ids().iter().cloned().collect::<Vec<String>>().join(";") */
    unimplemented!()
}
#[verifier::external_body]
pub fn outl_join_all_rule_ids(this: &Action) -> (r: String) ensures r@ == joined(this.rule_ids@)
{
    /* verbatim: self.rule_ids.iter().cloned().collect::<Vec<String>>().join(";") */
    unimplemented!()
}

impl Action {
    //@@ fn src/action/mod.rs :: impl Action / fn get_applied_rule_ids -> r
    //@| ensures r == &self.rules_applied,

    //@@ fn src/action/mod.rs :: impl Action / fn filter_headers -> r
    //@| opt r5:0
    //@| opt r5:1
    //@| ensures final(self).rules_applied@ == applied_headers(old(self).header_filters@, response_status_code, applied_traces(old(self).rule_traces@, response_status_code, old(self).rules_applied@)),
    //@|     av(*final(self)) == (AV { applied: final(self).rules_applied@, ..av(*old(self)) }),
    //@|     !add_rule_ids_header ==> hsview(r@) == fold_filters(admitted_headers(old(self).header_filters@, response_status_code), hsview(headers@)),
    //@|     add_rule_ids_header ==> r@.len() > 0 && hsview(r@.drop_last()) == fold_filters(admitted_headers(old(self).header_filters@, response_status_code), hsview(headers@)) && r@.last().name@ == "X-RedirectionIo-RuleIds"@ && r@.last().value@ == joined(final(self).rules_applied@),
    //@| outline `self.get_applied_rule_ids().iter().cloned().collect::<Vec<String>>().join(";")` => `outl_join_rule_ids(self)` || `self.rule_ids.iter().cloned().collect::<Vec<String>>().join(";")` => `outl_join_all_rule_ids(self)`
    //@| entry let ghost ts = self.rule_traces@; let ghost hf = self.header_filters@; let ghost ap0 = self.rules_applied@; let ghost a0 = av(*self); let ghost h0 = hsview(headers@);
    //@| loop 0: invariant 0 <= vf_it0_idx <= vf_it0_rem0.len(), vf_it0.remaining() == vf_it0_rem0.skip(vf_it0_idx), vf_it0_rem0.len() == ts.len(),
    //@|         forall|i: int| 0 <= i < ts.len() ==> *#[trigger] vf_it0_rem0[i] == ts[i],
    //@|         av(*self) == (AV { applied: self.rules_applied@, ..a0 }), filters@.len() == 0, ts == self.rule_traces@, hf == self.header_filters@, a0 == av(*old(self)), ap0 == old(self).rules_applied@, h0 == hsview(headers@),
    //@|         self.rules_applied@ == applied_traces(ts.take(vf_it0_idx), response_status_code, ap0),
    //@|     ensures vf_it0_idx == ts.len(),
    //@|     decreases ts.len() - vf_it0_idx,
    //@| loophead 0: proof { assert(ts.take(vf_it0_idx) =~= ts.take(vf_it0_idx - 1).push(ts[vf_it0_idx - 1])); assert(*trace == ts[vf_it0_idx - 1]); assert(ts.take(vf_it0_idx).drop_last() =~= ts.take(vf_it0_idx - 1)); }
    //@| loopend 0: proof { assert(ts.take(ts.len() as int) =~= ts); }
    //@| loopbefore 1: let ghost ap1 = self.rules_applied@;
    //@| loop 1: invariant 0 <= vf_it1_idx <= vf_it1_rem0.len(), vf_it1.remaining() == vf_it1_rem0.skip(vf_it1_idx), vf_it1_rem0.len() == hf.len(),
    //@|         forall|i: int| 0 <= i < hf.len() ==> *#[trigger] vf_it1_rem0[i] == hf[i],
    //@|         av(*self) == (AV { applied: self.rules_applied@, ..a0 }), ts == self.rule_traces@, hf == self.header_filters@, a0 == av(*old(self)), ap0 == old(self).rules_applied@, h0 == hsview(headers@),
    //@|         ap1 == applied_traces(ts, response_status_code, ap0),
    //@|         fvs(filters@) == fvs(admitted_headers(hf.take(vf_it1_idx), response_status_code)),
    //@|         self.rules_applied@ == applied_headers(hf.take(vf_it1_idx), response_status_code, ap1),
    //@|     ensures vf_it1_idx == hf.len(),
    //@|     decreases hf.len() - vf_it1_idx,
    //@| loophead 1: let ghost f0 = filters@; proof { assert(hf.take(vf_it1_idx) =~= hf.take(vf_it1_idx - 1).push(hf[vf_it1_idx - 1])); assert(*filter == hf[vf_it1_idx - 1]); assert(hf.take(vf_it1_idx).drop_last() =~= hf.take(vf_it1_idx - 1)); }
    //@| after `filters.push(filter.filter.clone());`: proof { let adm = admitted_headers(hf.take(vf_it1_idx - 1), response_status_code); assert(fvs(f0.push(filters@.last())) =~= fvs(f0).push(fv(filters@.last()))); assert(fvs(adm.push(filter.filter)) =~= fvs(adm).push(fv(filter.filter))); assert(filters@ =~= f0.push(filters@.last())); }
    //@| loopend 1: proof { assert(hf.take(hf.len() as int) =~= hf); lemma_fold_fv(filters@, admitted_headers(hf, response_status_code), h0); if !any_known(filters@) { lemma_none_known(filters@, h0); } }

    //@@ fn src/action/mod.rs :: impl Action / fn get_status_code -> r
    //@| ensures r == (match old(self).status_code_update { None => 0u16, Some(u) => ref_status(u, response_status_code).0 }),
    //@|     final(self).rules_applied@ == (match old(self).status_code_update { None => old(self).rules_applied@, Some(u) => opt_insert(old(self).rules_applied@, ref_status(u, response_status_code).1) }),
    //@|     av(*final(self)) == (AV { applied: final(self).rules_applied@, ..av(*old(self)) }),
    //@| outline `rule_id.to_string()`#0 => `outl_to_string(rule_id)`
    //@| outline `rule_id.to_string()`#1 => `outl_to_string(rule_id)`

    // the analyses (explain, impact) ask for "the status the live pipeline answers with, and the status its backend saw": the live pipeline decides
    // at request time first (code 0: no backend response yet); only when nothing is decided there is the backend called — with the status the
    // example says it answers, or the fallback when the example says nothing — and the action consulted again with that status
    //@@ fn src/action/mod.rs :: impl Action / fn get_final_status_code_with_fallback -> r
    //@| ensures r == live_status(old(self).status_code_update, response_status_code, fallback_status_code),

    //@@ fn src/action/mod.rs :: impl Action / fn should_log_request -> r
    //@| ensures r == (match old(self).log_override { None => allow_log_config, Some(u) => match ref_log(u, response_status_code).0 { Some(b) => b, None => allow_log_config } }),
    //@|     final(self).rules_applied@ == (match old(self).log_override { None => old(self).rules_applied@, Some(u) => opt_insert(old(self).rules_applied@, ref_log(u, response_status_code).1) }),
    //@|     av(*final(self)) == (AV { applied: final(self).rules_applied@, ..av(*old(self)) }),

    //@@ fn src/action/mod.rs :: impl Action / fn create_filter_body -> r
    //@| opt r5:0
    //@| ensures final(self).rules_applied@ == applied_bodies(old(self).body_filters@, response_status_code, old(self).rules_applied@),
    //@|     av(*final(self)) == (AV { applied: final(self).rules_applied@, ..av(*old(self)) }),
    //@|     r matches Some(b) ==> b.built_from() == (admitted_bodies(old(self).body_filters@, response_status_code), headers@),
    //@| loopbefore 0: let ghost bf = self.body_filters@;
    //@| loop 0: invariant 0 <= vf_it0_idx <= vf_it0_rem0.len(), vf_it0.remaining() == vf_it0_rem0.skip(vf_it0_idx), vf_it0_rem0.len() == bf.len(),
    //@|         forall|i: int| 0 <= i < bf.len() ==> *#[trigger] vf_it0_rem0[i] == bf[i],
    //@|         self.body_filters@ == bf, av(*self) == (AV { applied: self.rules_applied@, ..av(*old(self)) }), bf == old(self).body_filters@,
    //@|         filters@ == admitted_bodies(bf.take(vf_it0_idx), response_status_code),
    //@|         self.rules_applied@ == applied_bodies(bf.take(vf_it0_idx), response_status_code, old(self).rules_applied@),
    //@|     ensures vf_it0_idx == bf.len(),
    //@|     decreases bf.len() - vf_it0_idx,
    //@| loophead 0: proof { assert(bf.take(vf_it0_idx) =~= bf.take(vf_it0_idx - 1).push(bf[vf_it0_idx - 1])); assert(*filter == bf[vf_it0_idx - 1]); assert(bf.take(vf_it0_idx).drop_last() =~= bf.take(vf_it0_idx - 1)); }
    //@| loopend 0: proof { assert(bf.take(bf.len() as int) =~= bf); }

    //@@ fn src/action/mod.rs :: impl Default for Action / fn default -> r
    //@| ensures av(r) == av_default(),

    // NOT under contract (assumed, listed): markers/variables substitution, rand, closures over foreign types
    //@@ fn src/action/mod.rs :: impl Action / fn from_route_rule -> r
    //@| opt external_body
    //@| opt stub
    //@| ensures oav(r.0) == rr(route, request).action, r.1 == rr(route, request).reset, r.2 == rr(route, request).stop, optstr(r.3) == rr(route, request).unit,

    //@@ fn src/action/mod.rs :: impl Action / fn from_routes_rule -> r
    //@| ensures av(r) == fold_from(sorted_routes(routes@), request, 0, av_default()),
    //@| outline `routes.sort();` => `outl_sort_routes(&mut routes);`
    //@| forlabel 0: it
    //@| attr #[verifier::loop_isolation(false)]
    //@| entry let ghost r0 = routes@;
    //@| loopbefore 0: let ghost rs = routes@;
    //@| loop 0: invariant iter_ok(it.history@, it.index@, it.snapshot@.remaining(), rs), rs == sorted_routes(r0),
    //@|         fold_from(rs, request, it.index@, av(action)) == fold_from(rs, request, 0, av_default()),
    //@| loophead 0: let ghost a0 = av(action); proof { assert(rs[it.index@ as int] == route); }
    //@| before `return action;`: proof { assert(fold_from(rs, request, it.index@ as int, a0) == av(action)); }

    //@@ fn src/action/mod.rs :: impl Action / fn merge
    //@| ensures av(*final(self)) == ref_merge(av(*old(self)), av(other)),
    //@| forlabel 0: it
    //@| loopbefore 0: let ghost s1 = *self; let ghost oh = other.header_filters@;
    //@| loop 0: invariant iter_ok(it.history@, it.index@, it.snapshot@.remaining(), oh), self.header_filters@ == s1.header_filters@ + it.history@,
    //@|         self.status_code_update == s1.status_code_update, self.body_filters == s1.body_filters, self.rule_ids == s1.rule_ids,
    //@|         self.rule_traces == s1.rule_traces, self.rules_applied == s1.rules_applied, self.log_override == s1.log_override,
    //@| loophead 0: proof { assert((s1.header_filters@ + it.history@).push(filter) =~= s1.header_filters@ + it.history@.push(filter)); }
    //@| loopend 0: proof { assert(oh.take(oh.len() as int) =~= oh); }
    //@| forlabel 1: it
    //@| loopbefore 1: let ghost s2 = *self; let ghost ob = other.body_filters@;
    //@| loop 1: invariant iter_ok(it.history@, it.index@, it.snapshot@.remaining(), ob), self.body_filters@ == s2.body_filters@ + it.history@,
    //@|         self.status_code_update == s2.status_code_update, self.header_filters == s2.header_filters, self.rule_ids == s2.rule_ids,
    //@|         self.rule_traces == s2.rule_traces, self.rules_applied == s2.rules_applied, self.log_override == s2.log_override,
    //@| loophead 1: proof { assert((s2.body_filters@ + it.history@).push(filter) =~= s2.body_filters@ + it.history@.push(filter)); }
    //@| loopend 1: proof { assert(ob.take(ob.len() as int) =~= ob); }
    //@| forlabel 3: it
    //@| loopbefore 3: let ghost s3 = *self; let ghost ot = other.rule_traces@;
    //@| loop 3: invariant iter_ok(it.history@, it.index@, it.snapshot@.remaining(), ot), self.rule_traces@ == s3.rule_traces@ + it.history@,
    //@|         self.status_code_update == s3.status_code_update, self.header_filters == s3.header_filters, self.rule_ids == s3.rule_ids,
    //@|         self.body_filters == s3.body_filters, self.rules_applied == s3.rules_applied, self.log_override == s3.log_override,
    //@| loophead 3: proof { assert((s3.rule_traces@ + it.history@).push(rule_trace) =~= s3.rule_traces@ + it.history@.push(rule_trace)); }
    //@| loopend 3: proof { assert(ot.take(ot.len() as int) =~= ot); }
    //@| outline `for rule_id in other.rule_ids { self.rule_ids.insert(rule_id); }` => `outl_extend_rule_ids(&mut self.rule_ids, other.rule_ids);`
}


// ================================================================ C17 (third clause): the action trace ends in the action of the live pipeline
// shims: the explain trace (unit rtr) and the accessors of a route used here
#[verifier::external_body] #[verifier::accept_recursive_types(T)] pub struct Trace<T> { h: std::marker::PhantomData<T> }
pub uninterp spec fn tr_routes(traces: Seq<Trace<Rule>>) -> Seq<RouteRef>;
impl<T> Trace<T> {
    // under contract in unit rtr (C17): the routes stored in the trace forest
    #[verifier::external_body] pub fn get_routes_from_traces(traces: &[Trace<Rule>]) -> (r: Vec<RouteRef>) ensures r@ == tr_routes(traces@) { unimplemented!() }
}
impl Route<Rule> {
    #[verifier::external_body] pub fn handler(&self) -> (r: &Rule) ensures *r == route_rule(*self) { unimplemented!() }
}
pub uninterp spec fn route_rule(r: Route<Rule>) -> Rule;
impl Clone for Rule { #[verifier::external_body] fn clone(&self) -> (r: Self) ensures r == *self { unimplemented!() } }
impl Clone for Action { #[verifier::external_body] fn clone(&self) -> (r: Self) ensures r == *self { unimplemented!() } }
#[verifier::external_body] pub broadcast proof fn axiom_arc_cloned_rt(a: RouteRef, b: RouteRef) ensures #[trigger] cloned::<RouteRef>(a, b) ==> a == b {}
// std sort_by_key on the priority: assumed to produce `prio_sorted` of its input (see c11::axiom_sort_prio for what is assumed about it)
pub uninterp spec fn prio_sorted(s: Seq<RouteRef>) -> Seq<RouteRef>;
#[verifier::external_body]
pub fn outl_sort_by_priority(routes: &mut Vec<RouteRef>)
    ensures final(routes)@ == prio_sorted(old(routes)@),
{ /* verbatim: routes.sort_by_key(|a| a.priority()); */ unimplemented!() }
//@@ item src/action/trace.rs :: struct TraceAction
impl TraceAction {
    // one entry per processed rule; the action of the LAST entry is the reference fold over the traced rules in priority order
    //@@ fn src/action/trace.rs :: impl TraceAction / fn from_trace_rules -> r
    //@| requires forall|x: RouteRef| rr(x, request).action is None ==> !rr(x, request).stop,
    //@| ensures r@.len() <= prio_sorted(tr_routes(traces@)).len(),
    //@|     r@.len() > 0 ==> av(r@.last().action) == fold_from(prio_sorted(tr_routes(traces@)), request, 0, av_default()),
    //@|     r@.len() == 0 ==> prio_sorted(tr_routes(traces@)).len() == 0,
    //@|     forall|i: int| 0 <= i < r@.len() ==> (#[trigger] r@[i]).rule == route_rule(*prio_sorted(tr_routes(traces@))[i]),
    //@| outline `routes.sort_by_key(|a| a.priority());` => `outl_sort_by_priority(&mut routes);`
    //@| replace `let mut traces_action = Vec::new();` => `let mut traces_action: Vec<TraceAction> = Vec::new();` :: type ascription only (Verus needs the element type before the first ghost use)
    //@| forlabel 0: it
    //@| attr #[verifier::loop_isolation(false)]
    //@| entry broadcast use axiom_arc_cloned_rt;
    //@| loopbefore 0: let ghost rs = routes@;
    //@| loop 0: invariant iter_ok(it.history@, it.index@, it.snapshot@.remaining(), rs), rs == prio_sorted(tr_routes(traces@)),
    //@|         traces_action@.len() == it.index@,
    //@|         fold_from(rs, request, it.index@, av(current_action)) == fold_from(rs, request, 0, av_default()),
    //@|         it.index@ > 0 ==> traces_action@.last().action == current_action,
    //@|         it.index@ == 0 ==> av(current_action) == av_default(),
    //@|         forall|i: int| 0 <= i < traces_action@.len() ==> (#[trigger] traces_action@[i]).rule == route_rule(*rs[i]),
    //@| loophead 0: let ghost a0 = av(current_action); let ghost ta0 = traces_action@; proof { assert(rs[it.index@ as int] == route); }
    //@| before `if stop {`: proof { assert(traces_action@ =~= ta0.push(traces_action@.last())); assert forall|i: int| 0 <= i < traces_action@.len() implies (#[trigger] traces_action@[i]).rule == route_rule(*rs[i]) by { if i < ta0.len() { assert(traces_action@[i] == ta0[i]); } } }
    //@| before `return traces_action;`: proof { assert(fold_from(rs, request, it.index@ as int, a0) == av(current_action)); }
}

// ================================================================ C11: determinism
use std::cmp::Ordering;
pub assume_specification [<Ordering as PartialEq>::eq] (a: &Ordering, b: &Ordering) -> (r: bool) ensures r == (*a == *b);
// String::cmp: an assumed total order on character sequences, consistent with equality (trusted, listed)
pub uninterp spec fn str_cmp(a: Seq<char>, b: Seq<char>) -> Ordering;
pub assume_specification [<std::string::String as Ord>::cmp] (a: &std::string::String, b: &std::string::String) -> (r: Ordering)
    ensures r == str_cmp(a@, b@);
#[verifier::external_body]
pub proof fn axiom_str_cmp_total_order()
    ensures
        forall|a: Seq<char>, b: Seq<char>| (#[trigger] str_cmp(a, b) == Ordering::Equal) <==> a == b,
        forall|a: Seq<char>, b: Seq<char>| (#[trigger] str_cmp(a, b) == Ordering::Less) <==> str_cmp(b, a) == Ordering::Greater,
        forall|a: Seq<char>, b: Seq<char>, c: Seq<char>| #[trigger] str_cmp(a, b) == Ordering::Less && #[trigger] str_cmp(b, c) == Ordering::Less ==> str_cmp(a, c) == Ordering::Less,
{}

// reference order from the statement: descending rank, ties broken by (descending) id
pub open spec fn rule_cmp(a: Rule, b: Rule) -> Ordering {
    if b.rank < a.rank { Ordering::Less } else if b.rank > a.rank { Ordering::Greater } else { str_cmp(b.id@, a.id@) }
}
pub open spec fn rule_lt(a: Rule, b: Rule) -> bool { rule_cmp(a, b) == Ordering::Less }
pub open spec fn same_key(a: Rule, b: Rule) -> bool { a.rank == b.rank && a.id@ == b.id@ }

impl Rule {
    // R7: `impl Ord for Rule` is verified as an inherent method (std's sort reaches it through the trait: listed assumption)
    //@@ fn src/api/rule.rs :: impl Ord for Rule / fn cmp -> r
    //@| ensures r == rule_cmp(*self, *other),
    //@| entry broadcast use vstd::laws_cmp::group_laws_cmp;

    //@@ fn src/api/rule.rs :: impl PartialEq for Rule / fn eq -> r
    //@| ensures r == same_key(*self, *other),

    // slice::sort compares with `lt`, i.e. through PartialOrd: the partial order must be the total one
    //@@ fn src/api/rule.rs :: impl PartialOrd for Rule / fn partial_cmp -> r
    //@| ensures r == Some(rule_cmp(*self, *other)),
}

// The lemma library of C11 lives in its own module: Verus gives every module its own solver instance, so these
// quantifier-heavy proofs are not disturbed by (changes to) the exec functions of the root module.
pub mod c11 {
use super::*;
// rule_cmp is a strict total order on (rank, id) keys, and Equal exactly on equal keys (consistent with Rule::eq)
pub proof fn lemma_rule_order(a: Rule, b: Rule, c: Rule)
    ensures
        (rule_cmp(a, b) == Ordering::Equal) <==> same_key(a, b),
        rule_lt(a, b) <==> rule_cmp(b, a) == Ordering::Greater,
        !(rule_lt(a, b) && rule_lt(b, a)),
        rule_lt(a, b) && rule_lt(b, c) ==> rule_lt(a, c),
        rule_lt(a, b) || rule_lt(b, a) || same_key(a, b),
{
    axiom_str_cmp_total_order();
    assert(str_cmp(b.id@, a.id@) == Ordering::Less || str_cmp(b.id@, a.id@) == Ordering::Equal || str_cmp(b.id@, a.id@) == Ordering::Greater);
    assert(str_cmp(a.id@, b.id@) == Ordering::Less || str_cmp(a.id@, b.id@) == Ordering::Equal || str_cmp(a.id@, b.id@) == Ordering::Greater);
}

// sequences of rules: strictly sorted, and uniqueness of the sorted arrangement of a set of distinct keys
pub open spec fn strictly_sorted(s: Seq<Rule>) -> bool { forall|i: int, j: int| 0 <= i < j < s.len() ==> rule_lt(#[trigger] s[i], #[trigger] s[j]) }
pub open spec fn has_key(t: Seq<Rule>, r: Rule) -> bool { exists|j: int| 0 <= j < t.len() && same_key(r, #[trigger] t[j]) }
pub open spec fn keys_in(s: Seq<Rule>, t: Seq<Rule>) -> bool { forall|i: int| 0 <= i < s.len() ==> has_key(t, #[trigger] s[i]) }
pub open spec fn same_keys(s: Seq<Rule>, t: Seq<Rule>) -> bool { keys_in(s, t) && keys_in(t, s) }

pub proof fn lemma_heads_same(s: Seq<Rule>, t: Seq<Rule>)
    requires strictly_sorted(s), strictly_sorted(t), same_keys(s, t), s.len() > 0, t.len() > 0,
    ensures same_key(s[0], t[0]),
{
    assert(has_key(t, s[0]));
    assert(has_key(s, t[0]));
    let j = choose|j: int| 0 <= j < t.len() && same_key(s[0], #[trigger] t[j]);
    let i = choose|i: int| 0 <= i < s.len() && same_key(t[0], #[trigger] s[i]);
    if j > 0 {
        assert(rule_lt(t[0], t[j]));
        lemma_key_subst(t[0], t[j], s[0]);      // t[0] < s[0]
        if i > 0 {
            assert(rule_lt(s[0], s[i]));
            lemma_key_subst(s[0], s[i], t[0]);  // s[0] < t[0]
        }
        lemma_rule_order(s[0], t[0], s[0]);
        assert(false);
    }
}
pub proof fn lemma_tail_keys_in(s: Seq<Rule>, t: Seq<Rule>)
    requires strictly_sorted(s), keys_in(s, t), s.len() > 0, t.len() > 0, same_key(s[0], t[0]),
    ensures keys_in(s.subrange(1, s.len() as int), t.subrange(1, t.len() as int)),
{
    let s1 = s.subrange(1, s.len() as int);
    let t1 = t.subrange(1, t.len() as int);
    assert forall|a: int| 0 <= a < s1.len() implies has_key(t1, #[trigger] s1[a]) by {
        assert(has_key(t, s[a + 1]));
        let b0 = choose|b0: int| 0 <= b0 < t.len() && same_key(s[a + 1], #[trigger] t[b0]);
        if b0 == 0 {
            assert(rule_lt(s[0], s[a + 1]));
            lemma_key_subst(s[0], s[a + 1], t[0]);
            assert(false);
        }
        assert(same_key(s1[a], t1[b0 - 1]));
    }
}
pub proof fn lemma_tail_sorted(s: Seq<Rule>)
    requires strictly_sorted(s), s.len() > 0,
    ensures strictly_sorted(s.subrange(1, s.len() as int)),
{
    let s1 = s.subrange(1, s.len() as int);
    assert forall|a: int, b: int| 0 <= a < b < s1.len() implies rule_lt(#[trigger] s1[a], #[trigger] s1[b]) by { assert(rule_lt(s[a + 1], s[b + 1])); }
}
// Two strictly sorted sequences over the same key set are key-wise identical: the order in which matched rules are
// presented (or were inserted) cannot influence the order in which they are applied.
pub proof fn lemma_sorted_unique(s: Seq<Rule>, t: Seq<Rule>)
    requires strictly_sorted(s), strictly_sorted(t), same_keys(s, t),
    ensures s.len() == t.len(), forall|i: int| 0 <= i < s.len() ==> same_key(#[trigger] s[i], t[i]),
    decreases s.len(),
{
    if s.len() == 0 {
        if t.len() > 0 { assert(has_key(s, t[0])); }
    } else if t.len() == 0 {
        assert(has_key(t, s[0]));
    } else {
        lemma_heads_same(s, t);
        let s1 = s.subrange(1, s.len() as int);
        let t1 = t.subrange(1, t.len() as int);
        lemma_tail_keys_in(s, t);
        lemma_tail_keys_in(t, s);
        lemma_tail_sorted(s);
        lemma_tail_sorted(t);
        lemma_sorted_unique(s1, t1);
        assert forall|k: int| 0 <= k < s.len() implies same_key(#[trigger] s[k], t[k]) by {
            if k > 0 { assert(same_key(s1[k - 1], t1[k - 1])); }
        }
    }
}
// a < b and b has the key of c  =>  a < c, and c is not < a (rule_cmp only looks at keys)
pub proof fn lemma_key_subst(a: Rule, b: Rule, c: Rule)
    requires rule_lt(a, b), same_key(b, c),
    ensures rule_lt(a, c), !same_key(a, c), !rule_lt(c, a),
{
    lemma_rule_order(a, c, a);
    lemma_rule_order(a, b, c);
}


// ---- from rule order to determinism of the computed action
pub uninterp spec fn handler(r: RouteRef) -> Rule;     // Route::handler (Route::cmp delegates to Rule::cmp: src/router/route.rs, not under contract, listed)
pub open spec fn hs(s: Seq<RouteRef>) -> Seq<Rule> { s.map_values(|r: RouteRef| handler(r)) }
pub open spec fn distinct_keys(s: Seq<RouteRef>) -> bool { forall|i: int, j: int| 0 <= i < s.len() && 0 <= j < s.len() && same_key(handler(#[trigger] s[i]), handler(#[trigger] s[j])) ==> i == j }
pub open spec fn routes_in(a: Seq<RouteRef>, b: Seq<RouteRef>) -> bool { forall|i: int| 0 <= i < a.len() ==> b.contains(#[trigger] a[i]) }
pub open spec fn same_routes(a: Seq<RouteRef>, b: Seq<RouteRef>) -> bool { routes_in(a, b) && routes_in(b, a) }
// ASSUMED specification of Vec::sort through Ord (trusted, listed): for rule sets with unique (rank, id) keys the result
// holds the same routes, arranged strictly increasing w.r.t. Rule::cmp
#[verifier::external_body]
pub proof fn axiom_sort(s: Seq<RouteRef>)
    requires distinct_keys(s),
    ensures strictly_sorted(hs(sorted_routes(s))), same_routes(sorted_routes(s), s),
{}
pub proof fn lemma_keys_of_routes(a: Seq<RouteRef>, b: Seq<RouteRef>)
    requires routes_in(a, b),
    ensures keys_in(hs(a), hs(b)),
{
    assert forall|i: int| 0 <= i < hs(a).len() implies has_key(hs(b), #[trigger] hs(a)[i]) by {
        assert(b.contains(a[i]));
        let j = choose|j: int| 0 <= j < b.len() && b[j] == a[i];
        assert(same_key(hs(a)[i], hs(b)[j]));
    }
}
pub proof fn lemma_routes_in_trans(a: Seq<RouteRef>, b: Seq<RouteRef>, c: Seq<RouteRef>)
    requires routes_in(a, b), routes_in(b, c),
    ensures routes_in(a, c),
{
    assert forall|i: int| 0 <= i < a.len() implies c.contains(#[trigger] a[i]) by {
        assert(b.contains(a[i]));
        let k = choose|k: int| 0 <= k < b.len() && b[k] == a[i];
        assert(c.contains(b[k]));
    }
}
// two routes of a key-distinct sequence with the same key are the same route
pub proof fn lemma_same_key_same_route(s: Seq<RouteRef>, x: RouteRef, y: RouteRef)
    requires distinct_keys(s), s.contains(x), s.contains(y), same_key(handler(x), handler(y)),
    ensures x == y,
{
    let i = choose|i: int| 0 <= i < s.len() && s[i] == x;
    let j = choose|j: int| 0 <= j < s.len() && s[j] == y;
    assert(same_key(handler(s[i]), handler(s[j])));
}
// C11: the sorted order — hence, by the contract of from_routes_rule, the computed action — depends only on the SET of matched
// rules: any two presentations p, s of the same rule set (unique keys) are applied in the same order.
pub proof fn c11_order_independent(p: Seq<RouteRef>, s: Seq<RouteRef>, request: &Request)
    requires distinct_keys(s), distinct_keys(p), same_routes(p, s),
    ensures sorted_routes(p) == sorted_routes(s),
        fold_from(sorted_routes(p), request, 0, av_default()) == fold_from(sorted_routes(s), request, 0, av_default()),
{
    let a = sorted_routes(p);
    let b = sorted_routes(s);
    axiom_sort(p);
    axiom_sort(s);
    lemma_routes_in_trans(a, p, s);
    lemma_routes_in_trans(a, s, b);
    lemma_routes_in_trans(b, s, p);
    lemma_routes_in_trans(b, p, a);
    lemma_keys_of_routes(a, b);
    lemma_keys_of_routes(b, a);
    lemma_sorted_unique(hs(a), hs(b));
    assert(a.len() == hs(a).len() && b.len() == hs(b).len());
    assert forall|i: int| 0 <= i < a.len() implies #[trigger] a[i] == b[i] by {
        assert(same_key(hs(a)[i], hs(b)[i]));
        assert(s.contains(a[i]));
        assert(s.contains(b[i]));
        lemma_same_key_same_route(s, a[i], b[i]);
    }
    assert(a =~= b);
}
// ---- C17: the action trace processes the traced rules in the order of the live pipeline when ranks are distinct
pub open spec fn distinct_ranks(s: Seq<RouteRef>) -> bool { forall|i: int, j: int| 0 <= i < s.len() && 0 <= j < s.len() && handler(#[trigger] s[i]).rank == handler(#[trigger] s[j]).rank ==> i == j }
// ASSUMED (trusted, listed): Route::priority is `0 - rank` (IntoRoute for Rule, src/api/rule.rs, not under contract) and sort_by_key is a
// sort: for distinct ranks the result holds the same routes in strictly descending rank order
#[verifier::external_body]
pub proof fn axiom_sort_prio(s: Seq<RouteRef>)
    requires distinct_ranks(s),
    ensures same_routes(prio_sorted(s), s), forall|i: int, j: int| 0 <= i < j < prio_sorted(s).len() ==> handler(#[trigger] prio_sorted(s)[i]).rank > handler(#[trigger] prio_sorted(s)[j]).rank,
{}
pub proof fn c17_action_trace_order(traced: Seq<RouteRef>, matched: Seq<RouteRef>, request: &Request)
    requires distinct_ranks(traced), distinct_ranks(matched), same_routes(traced, matched),
    ensures prio_sorted(traced) == sorted_routes(matched),
        fold_from(prio_sorted(traced), request, 0, av_default()) == fold_from(sorted_routes(matched), request, 0, av_default()),
{
    let a = prio_sorted(traced);
    let b = sorted_routes(matched);
    assert(distinct_keys(matched)) by { assert forall|i: int, j: int| 0 <= i < matched.len() && 0 <= j < matched.len() && same_key(handler(#[trigger] matched[i]), handler(#[trigger] matched[j])) implies i == j by {} }
    axiom_sort_prio(traced);
    axiom_sort(matched);
    assert(strictly_sorted(hs(a))) by { assert forall|i: int, j: int| 0 <= i < j < hs(a).len() implies rule_lt(#[trigger] hs(a)[i], #[trigger] hs(a)[j]) by { assert(handler(a[i]).rank > handler(a[j]).rank); } }
    lemma_routes_in_trans(a, traced, matched);
    lemma_routes_in_trans(a, matched, b);
    lemma_routes_in_trans(b, matched, traced);
    lemma_routes_in_trans(b, traced, a);
    lemma_keys_of_routes(a, b);
    lemma_keys_of_routes(b, a);
    lemma_sorted_unique(hs(a), hs(b));
    assert(a.len() == hs(a).len() && b.len() == hs(b).len());
    assert forall|i: int| 0 <= i < a.len() implies #[trigger] a[i] == b[i] by {
        assert(same_key(hs(a)[i], hs(b)[i]));
        assert(matched.contains(a[i]));
        assert(matched.contains(b[i]));
        lemma_same_key_same_route(matched, a[i], b[i]);
    }
    assert(a =~= b);
}
} // mod c11

} // verus!
fn main() {}

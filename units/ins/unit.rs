//@@ include ../common/prelude.rs
// Unit `ins` — property C15 (and the insert-only clause of C04) for the two tokenizer-based insertion helpers that edit a BUFFERED element:
// append_child (value immediately before the element's end tag) and prepend_child (value immediately after its start tag).
// Unit `body` uses them as the named functions spec_append_child / spec_prepend_child; here they are verified against a defined reference.
verus! {
//@@ include ../common/vec_specs.rs
use std::result;
#[verifier::external_type_specification] #[verifier::external_body] pub struct ExIoError(std::io::Error);
#[verifier::external_body] pub struct HtmlParseError { x: u8 }
//@@ item src/filter/error.rs :: enum FilterBodyError
//@@ item src/filter/error.rs :: type Result
impl vstd::std_specs::convert::FromSpecImpl<HtmlParseError> for FilterBodyError {
    open spec fn obeys_from_spec() -> bool { false }
    open spec fn from_spec(v: HtmlParseError) -> Self { FilterBodyError::HtmlParseError(v) }
}
impl From<HtmlParseError> for FilterBodyError {
    //@@ fn src/filter/error.rs :: impl From<crate::html::HtmlParseError> for FilterBodyError / fn from
}
//@@ item src/html/mod.rs :: enum TokenType
//@| opt keepattrs
//@| attr #[derive(Structural)]
// ---- the tokenizer (unit tok: lossless, total). Abstract here. Beyond unit body's shim, its determinism is used: the run over an input is
// unique, so the token that starts at offset p of the run has a type, an end and (for tags) a name that are functions of (input, p).
pub uninterp spec fn ty_at(input: Seq<u8>, p: int) -> TokenType;
pub uninterp spec fn end_at(input: Seq<u8>, p: int) -> int;
pub uninterp spec fn name_at(input: Seq<u8>, p: int) -> Seq<char>;
pub uninterp spec fn spec_is_void(tag: Seq<char>) -> bool;
#[verifier::external_body] pub struct Tokenizer { x: u8 }
pub open spec fn is_tag(t: TokenType) -> bool { t == TokenType::StartTagToken || t == TokenType::EndTagToken || t == TokenType::SelfClosingTagToken }
impl Tokenizer {
    pub uninterp spec fn reader(&self) -> Seq<u8>;
    pub uninterp spec fn rs(&self) -> int;
    pub uninterp spec fn re(&self) -> int;
    pub open spec fn wf(&self) -> bool { 0 <= self.rs() <= self.re() <= self.reader().len() }
    pub open spec fn raw_bytes(&self) -> Seq<u8> { self.reader().subrange(self.rs(), self.re()) }
    #[verifier::external_body]
    pub fn new(reader: Vec<u8>) -> (r: Tokenizer) ensures r.wf(), r.reader() == reader@, r.rs() == 0, r.re() == 0 { unimplemented!() }
    #[verifier::external_body]
    pub fn next(&mut self) -> (r: std::result::Result<TokenType, HtmlParseError>)
        requires old(self).wf(),
        ensures final(self).wf(), final(self).reader() == old(self).reader(), final(self).rs() == old(self).re(),
            r matches Ok(t) ==> t == ty_at(old(self).reader(), old(self).re()) && final(self).re() == end_at(old(self).reader(), old(self).re())
                && (t != TokenType::ErrorToken ==> final(self).rs() < final(self).re()),
    { unimplemented!() }
    #[verifier::external_body]
    pub fn raw_as_string(&self) -> (r: std::result::Result<String, HtmlParseError>) requires self.wf() ensures r matches Ok(s) ==> vstd::utf8::encode_utf8(s@) == self.raw_bytes() { unimplemented!() }
    #[verifier::external_body]
    pub fn buffered_as_string(&self) -> (r: std::result::Result<String, HtmlParseError>) requires self.wf() ensures r matches Ok(s) ==> vstd::utf8::encode_utf8(s@) == self.reader().subrange(self.re(), self.reader().len() as int) { unimplemented!() }
    #[verifier::external_body]
    pub fn tag_name(&mut self) -> (r: std::result::Result<(Option<String>, bool), HtmlParseError>)
        requires old(self).wf(),
        ensures final(self).wf(), final(self).reader() == old(self).reader(), final(self).rs() == old(self).rs(), final(self).re() == old(self).re(),
            r matches Ok(p) ==> (is_tag(ty_at(old(self).reader(), old(self).rs())) ==> (p.0 matches Some(n) && n@ == name_at(old(self).reader(), old(self).rs()))),
    { unimplemented!() }
}
// R8 outlined expression: membership in the lazy_static VOID_ELEMENTS set (uninterpreted predicate of the tag name)
#[verifier::external_body]
pub fn outl_is_void(tag: &str) -> (r: bool) ensures r == spec_is_void(tag@) { /* verbatim: VOID_ELEMENTS.contains(tag_name.unwrap().as_str()) */ unimplemented!() }
#[verifier::external_body]
pub fn outl_bytes_to_vec(content: &String) -> (r: Vec<u8>) ensures r@ == vstd::utf8::encode_utf8(content@) { /* verbatim: content.as_bytes().to_vec() */ unimplemented!() }

// ---- reference (statement C15). The content is a buffered element: it starts with the element's start tag. Nesting depth: +1 at the start tag
// of a non-void element, -1 at an end tag; the element's OWN end tag is the end tag at which the depth returns to zero.
pub open spec fn close_pos(b: Seq<u8>, p: int, level: int) -> Option<int>
    decreases b.len() - p
{
    let e = end_at(b, p); let ty = ty_at(b, p);
    if p < 0 || p >= b.len() || !(p < e <= b.len()) || ty == TokenType::ErrorToken { None }
    else if ty == TokenType::StartTagToken { close_pos(b, e, if spec_is_void(name_at(b, p)) { level } else { level + 1 }) }
    else if ty == TokenType::EndTagToken { if level - 1 == 0 { Some(p) } else { close_pos(b, e, level - 1) } }
    else { close_pos(b, e, level) }
}
// append-child: the value goes immediately before the element's end tag; a fragment without one is left alone
pub open spec fn ref_append(b: Seq<u8>, child: Seq<u8>) -> Seq<u8> {
    match close_pos(b, 0, 0) { Some(p) => b.subrange(0, p) + child + b.subrange(p, b.len() as int), None => b }
}
// the first start tag of the fragment (the element's own): position of its END
pub open spec fn first_start_end(b: Seq<u8>, p: int) -> Option<int>
    decreases b.len() - p
{
    let e = end_at(b, p); let ty = ty_at(b, p);
    if p < 0 || p >= b.len() || !(p < e <= b.len()) || ty == TokenType::ErrorToken { None }
    else if ty == TokenType::StartTagToken { Some(e) }
    else { first_start_end(b, e) }
}
// prepend-child: the value goes immediately after the element's start tag
pub open spec fn ref_prepend(b: Seq<u8>, child: Seq<u8>) -> Seq<u8> {
    match first_start_end(b, 0) { Some(e) => b.subrange(0, e) + child + b.subrange(e, b.len() as int), None => b }
}

//@@ strip-path html::
//@@ fn src/filter/html_body_action/body_append.rs :: fn append_child -> r
//@| requires vstd::utf8::encode_utf8(content@).len() < 0x7fff_ffff,
//@| ensures r matches Ok(s) ==> vstd::utf8::encode_utf8(s@) == ref_append(vstd::utf8::encode_utf8(content@), vstd::utf8::encode_utf8(child@)),
//@| outline `content.as_bytes().to_vec()` => `outl_bytes_to_vec(&content)`
//@| outline `VOID_ELEMENTS.contains(tag_name.unwrap().as_str())` => `outl_is_void(tag_name.unwrap().as_str())`
//@| entry let ghost b = vstd::utf8::encode_utf8(content@); let ghost cb = vstd::utf8::encode_utf8(child@); proof { lit_empty(); }
//@| loop 0: invariant tokenizer.wf(), tokenizer.reader() == b, b == vstd::utf8::encode_utf8(content@), cb == vstd::utf8::encode_utf8(child@), b.len() < 0x7fff_ffff,
//@|         vstd::utf8::encode_utf8(output@) == b.subrange(0, tokenizer.re()),
//@|         -tokenizer.re() <= level <= tokenizer.re(),
//@|         close_pos(b, 0, 0) == close_pos(b, tokenizer.re(), level as int),
//@|     decreases b.len() - tokenizer.re(),
//@| loophead 0: let ghost p0 = tokenizer.re(); let ghost l0 = level as int; let ghost o0 = output@;
//@| before `return Ok(content);`: proof { assert(close_pos(b, p0, l0) is None); }
//@| after `output.push_str(child.as_str());`: let ghost o1 = output@;
//@| after `output.push_str(tokenizer.raw_as_string()?.as_str());`#0: let ghost o2 = output@;
//@| before `return Ok(output);`: proof {
//@|     assert(close_pos(b, p0, l0) == Some(p0));
//@|     let e = tokenizer.re(); let o3 = output@;
//@|     let x2 = choose|x: Seq<char>| o2 == o1 + x && vstd::utf8::encode_utf8(x) == tokenizer.raw_bytes(); let x3 = choose|x: Seq<char>| o3 == o2 + x && vstd::utf8::encode_utf8(x) == b.subrange(e, b.len() as int);
//@|     assert(o1 =~= o0 + child@);
//@|     vstd::utf8::encode_utf8_concat(o0, child@); vstd::utf8::encode_utf8_concat(o1, x2); vstd::utf8::encode_utf8_concat(o2, x3);
//@|     assert(b.subrange(0, p0) + cb + b.subrange(p0, e) + b.subrange(e, b.len() as int) =~= b.subrange(0, p0) + cb + b.subrange(p0, b.len() as int));
//@| }
//@| looptail 0: proof {
//@|     let x = choose|x: Seq<char>| output@ == o0 + x && vstd::utf8::encode_utf8(x) == tokenizer.raw_bytes(); vstd::utf8::encode_utf8_concat(o0, x);
//@|     assert(b.subrange(0, p0) + b.subrange(p0, tokenizer.re()) =~= b.subrange(0, tokenizer.re())); }

//@@ fn src/filter/html_body_action/body_prepend.rs :: fn prepend_child -> r
//@| ensures r matches Ok(s) ==> vstd::utf8::encode_utf8(s@) == ref_prepend(vstd::utf8::encode_utf8(content@), vstd::utf8::encode_utf8(child@)),
//@| outline `content.as_bytes().to_vec()` => `outl_bytes_to_vec(&content)`
//@| entry let ghost b = vstd::utf8::encode_utf8(content@); let ghost cb = vstd::utf8::encode_utf8(child@); proof { lit_empty(); }
//@| loop 0: invariant tokenizer.wf(), tokenizer.reader() == b, b == vstd::utf8::encode_utf8(content@), cb == vstd::utf8::encode_utf8(child@),
//@|         vstd::utf8::encode_utf8(output@) == b.subrange(0, tokenizer.re()),
//@|         first_start_end(b, 0) == first_start_end(b, tokenizer.re()),
//@|     decreases b.len() - tokenizer.re(),
//@| loophead 0: let ghost p0 = tokenizer.re(); let ghost o0 = output@;
//@| before `return Ok(content);`: proof { assert(first_start_end(b, p0) is None); }
//@| after `output.push_str(tokenizer.raw_as_string()?.as_str());`#0: let ghost o1 = output@;
//@| after `output.push_str(child.as_str());`: let ghost o2 = output@;
//@| before `return Ok(output);`: proof {
//@|     assert(first_start_end(b, p0) == Some(tokenizer.re()));
//@|     let e = tokenizer.re(); let o3 = output@;
//@|     let x1 = choose|x: Seq<char>| o1 == o0 + x && vstd::utf8::encode_utf8(x) == tokenizer.raw_bytes(); let x3 = choose|x: Seq<char>| o3 == o2 + x && vstd::utf8::encode_utf8(x) == b.subrange(e, b.len() as int);
//@|     assert(o2 =~= o1 + child@);
//@|     vstd::utf8::encode_utf8_concat(o0, x1); vstd::utf8::encode_utf8_concat(o1, child@); vstd::utf8::encode_utf8_concat(o2, x3);
//@|     assert(b.subrange(0, p0) + b.subrange(p0, e) =~= b.subrange(0, e));
//@| }
//@| looptail 0: proof {
//@|     let x = choose|x: Seq<char>| output@ == o0 + x && vstd::utf8::encode_utf8(x) == tokenizer.raw_bytes(); vstd::utf8::encode_utf8_concat(o0, x);
//@|     assert(b.subrange(0, p0) + b.subrange(p0, tokenizer.re()) =~= b.subrange(0, tokenizer.re())); }

//@@ strlits
} // verus!
fn main() {}

//@@ include ../common/prelude.rs
// Unit `body` — properties C03 (chunking invariance), C04 (no byte lost/duplicated/reordered), C14, C15
verus! {

// foreign to this unit: UnitTrace (src/action/mod.rs); assumed to return normally (cannot touch body bytes: by ownership)
pub struct UnitTrace { x: u8 }
impl UnitTrace {
    #[verifier::external_body] pub fn add_value_computed_by_unit(&mut self, key: &str, value: &str) {}
    #[verifier::external_body] pub fn override_unit_id_with_target(&mut self, target: &str, unit_id: &str) {}
    #[verifier::external_body] pub fn add_unit_id_with_target(&mut self, target: &str, unit_id: &str) {}
    #[verifier::external_body] pub fn add_unit_id(&mut self, unit_id: String) {}
}
//@@ include ../common/vec_specs.rs
pub assume_specification<T: std::ops::DerefMut> [std::option::Option::<T>::as_deref_mut] (o: &mut std::option::Option<T>) -> std::option::Option<&mut <T as std::ops::Deref>::Target>;

// ================================================================ text stage (src/filter/text_filter_body.rs)
//@@ item src/filter/text_filter_body.rs :: struct TextFilterBodyAction
//@@ item src/filter/text_filter_body.rs :: enum TextFilterAction

// what the stage computes on the WHOLE body b (statement): replace -> content, append -> b ++ content, prepend -> content ++ b
pub open spec fn text_total(a: TextFilterAction, content: Seq<u8>, b: Seq<u8>) -> Seq<u8> {
    match a { TextFilterAction::Replace => content, TextFilterAction::Append => b + content, TextFilterAction::Prepend => content + b }
}
// one streaming step / the end-of-stream output, as functions of the `executed` flag
pub open spec fn text_step(a: TextFilterAction, executed: bool, content: Seq<u8>, d: Seq<u8>) -> (Seq<u8>, bool) {
    match a {
        TextFilterAction::Replace => (if executed { Seq::empty() } else { content }, true),
        TextFilterAction::Append => (d, executed),
        TextFilterAction::Prepend => (if executed { d } else { content + d }, true),
    }
}
pub open spec fn text_end(executed: bool, content: Seq<u8>) -> Seq<u8> { if executed { Seq::empty() } else { content } }

impl TextFilterBodyAction {
    //@@ fn src/filter/text_filter_body.rs :: impl TextFilterBodyAction / fn new -> r
    //@| ensures r.action == action, r.executed == false, r.content@ == vstd::utf8::encode_utf8(content@),

    //@@ fn src/filter/text_filter_body.rs :: impl TextFilterBodyAction / fn filter -> r
    //@| entry broadcast use axiom_iter_seq_vec;
    //@| ensures (r@, final(self).executed) == text_step(old(self).action, old(self).executed, old(self).content@, data@),
    //@|     final(self).action == old(self).action, final(self).content@ == old(self).content@,

    //@@ fn src/filter/text_filter_body.rs :: impl TextFilterBodyAction / fn end -> r
    //@| ensures r@ == text_end(old(self).executed, old(self).content@), final(self).executed,
    //@|     final(self).action == old(self).action, final(self).content@ == old(self).content@,
}

// ---- chunking invariance of the text stage (C03, clause (i)): for EVERY partition of the body into chunks (empty chunks included)
pub open spec fn concat(cs: Seq<Seq<u8>>) -> Seq<u8>
    decreases cs.len()
{ if cs.len() == 0 { Seq::empty() } else { concat(cs.drop_last()) + cs.last() } }
// run the stage over chunks cs starting from flag e: (concatenated outputs, final flag)
pub open spec fn text_run(a: TextFilterAction, e: bool, content: Seq<u8>, cs: Seq<Seq<u8>>) -> (Seq<u8>, bool)
    decreases cs.len()
{
    if cs.len() == 0 { (Seq::empty(), e) } else {
        let (out, e1) = text_run(a, e, content, cs.drop_last());
        let (o, e2) = text_step(a, e1, content, cs.last());
        (out + o, e2)
    }
}
// invariant of a fresh stage after any chunk sequence: what was emitted plus what end() will emit is text_total of what was consumed
pub proof fn lemma_text_chunk_invariant(a: TextFilterAction, content: Seq<u8>, cs: Seq<Seq<u8>>)
    ensures ({ let (out, e) = text_run(a, false, content, cs); out + text_end(e, content) == text_total(a, content, concat(cs)) }),
        (a is Append) ==> !text_run(a, false, content, cs).1,
        (a is Prepend) ==> (text_run(a, false, content, cs).1 == (cs.len() > 0)),
        (a is Replace) ==> (text_run(a, false, content, cs).1 == (cs.len() > 0)),
    decreases cs.len(),
{
    if cs.len() > 0 {
        lemma_text_chunk_invariant(a, content, cs.drop_last());
        let (out, e1) = text_run(a, false, content, cs.drop_last());
        let (o, e2) = text_step(a, e1, content, cs.last());
        let b0 = concat(cs.drop_last());
        match a {
            TextFilterAction::Replace => { assert((out + o) + text_end(e2, content) =~= content); }
            TextFilterAction::Append => {
                assert(!e1);
                assert(out + content == b0 + content);
                assert((out + content).len() == out.len() + content.len() && (b0 + content).len() == b0.len() + content.len());
                assert(out =~= (out + content).subrange(0, out.len() as int));
                assert(b0 =~= (b0 + content).subrange(0, b0.len() as int));
                assert(out == b0);
                assert(o == cs.last() && !e2);
            }
            TextFilterAction::Prepend => {
                if e1 { assert(out + Seq::<u8>::empty() =~= out); assert((out + o) + Seq::<u8>::empty() =~= (content + b0) + cs.last()); assert((content + b0) + cs.last() =~= content + (b0 + cs.last())); }
                else { assert(cs.drop_last().len() == 0); assert(out + content =~= content); assert(b0 =~= Seq::<u8>::empty()); assert((out + o) + Seq::<u8>::empty() =~= content + (b0 + cs.last())); }
            }
        }
    } else {
        assert(Seq::<u8>::empty() + content =~= content);
        assert(content + Seq::<u8>::empty() =~= content);
    }
}
// corollary = the statement of C03 for the text stage: any two partitions of the same body give the same total output
pub proof fn c03_text_stage(a: TextFilterAction, content: Seq<u8>, cs1: Seq<Seq<u8>>, cs2: Seq<Seq<u8>>)
    requires concat(cs1) == concat(cs2),
    ensures ({ let (o1, e1) = text_run(a, false, content, cs1); let (o2, e2) = text_run(a, false, content, cs2);
               o1 + text_end(e1, content) == o2 + text_end(e2, content) }),
{
    lemma_text_chunk_invariant(a, content, cs1);
    lemma_text_chunk_invariant(a, content, cs2);
}

// ================================================================ HTML visitors (src/filter/html_body_action/*.rs) — C15, per-call placement
use std::result;
#[verifier::external_type_specification] #[verifier::external_body] pub struct ExIoError(std::io::Error);
// foreign: html::HtmlParseError (unit tok) — opaque here
#[verifier::external_body] pub struct HtmlParseError { x: u8 }
//@@ item src/filter/error.rs :: enum FilterBodyError
//@@ item src/filter/error.rs :: type Result
impl vstd::std_specs::convert::FromSpecImpl<HtmlParseError> for FilterBodyError {
    open spec fn obeys_from_spec() -> bool { false }
    open spec fn from_spec(v: HtmlParseError) -> Self { FilterBodyError::HtmlParseError(v) }
}
impl From<HtmlParseError> for FilterBodyError {
    //@@ fn src/filter/error.rs :: impl From<crate::html::HtmlParseError> for FilterBodyError / fn from
}

//@@ item src/filter/html_body_action/body_append.rs :: struct BodyAppend
//@@ item src/filter/html_body_action/body_prepend.rs :: struct BodyPrepend
//@@ item src/filter/html_body_action/body_replace.rs :: struct BodyReplace

// scraper (foreign crate): CSS selector evaluation is an uninterpreted predicate of (fragment, expression)
pub uninterp spec fn sel_matches(data: Seq<char>, expr: Seq<char>) -> bool;
// NOT under contract (scraper): assumed deterministic
//@@ fn src/filter/html_body_action/mod.rs :: fn evaluate -> r
//@| opt external_body
//@| opt stub
//@| ensures r == sel_matches(data@, expression@),

pub open spec fn has_sel(css: Option<String>) -> bool { css matches Some(c) && c@.len() > 0 }
pub open spec fn sel(css: Option<String>) -> Seq<char> { match css { Some(c) => c@, None => Seq::empty() } }
pub open spec fn ostr(o: Option<String>) -> Option<Seq<char>> { match o { Some(s) => Some(s@), None => None } }
pub open spec fn tree_ok(t: Vec<String>, pos: usize) -> bool { pos < t@.len() && t@.len() < 0x7fff_ffff }
// insertion functions on the buffered element (tokenizer based): uninterpreted here, their own contracts are below
pub uninterp spec fn spec_append_child(content: Seq<char>, child: Seq<char>) -> Seq<char>;
pub uninterp spec fn spec_prepend_child(content: Seq<char>, child: Seq<char>) -> Seq<char>;
//@@ fn src/filter/html_body_action/body_append.rs :: fn append_child -> r
//@| opt external_body
//@| opt stub
//@| ensures r matches Ok(s) ==> s@ == spec_append_child(content@, child@),
//@@ fn src/filter/html_body_action/body_prepend.rs :: fn prepend_child -> r
//@| opt external_body
//@| opt stub
//@| ensures r matches Ok(s) ==> s@ == spec_prepend_child(content@, child@),

impl BodyAppend {
    pub open spec fn wf(&self) -> bool { tree_ok(self.element_tree, self.position) }
    pub open spec fn frame(&self, o: &BodyAppend) -> bool { self.element_tree == o.element_tree && self.css_selector == o.css_selector && self.content == o.content }
    // a fresh visitor stands at the head of its element path, buffers nothing, and carries exactly the filter's path, selector and value
    //@@ fn src/filter/html_body_action/body_append.rs :: impl BodyAppend / fn new -> r
    //@| ensures r.position == 0, r.element_tree == element_tree, r.css_selector == css_selector, r.content == content, r.inner_content == inner_content,
    //@|     element_tree@.len() > 0 && element_tree@.len() < 0x7fff_ffff ==> r.wf(),

    //@@ fn src/filter/html_body_action/body_append.rs :: impl BodyAppend / fn enter -> r
    //@| requires old(self).wf(),
    //@| ensures final(self).wf(), final(self).frame(old(self)),
    //@|     ostr(r.1) == Some(old(self).element_tree@[old(self).position as int]@), r.3@ == data@,
    //@|     old(self).position + 1 < old(self).element_tree@.len() ==> final(self).position == old(self).position + 1 && ostr(r.0) == Some(old(self).element_tree@[old(self).position + 1]@) && !r.2,
    //@|     old(self).position + 1 >= old(self).element_tree@.len() ==> final(self).position == old(self).position && r.0.is_none() && r.2 == has_sel(old(self).css_selector),

    //@@ fn src/filter/html_body_action/body_append.rs :: impl BodyAppend / fn leave -> r
    //@| requires old(self).wf(),
    //@| ensures final(self).wf(), final(self).frame(old(self)),
    //@|     final(self).position == (if old(self).position > 0 { old(self).position - 1 } else { old(self).position as int }),
    //@|     r matches Ok(t) ==> ostr(t.0) == Some(old(self).element_tree@[old(self).position as int]@),
    //@|     r matches Ok(t) ==> ostr(t.1) == (if old(self).position > 0 { Some(old(self).element_tree@[old(self).position - 1]@) } else { None }),
    //@|     r matches Ok(t) ==> t.2@ == (if old(self).position + 1 < old(self).element_tree@.len() { data@ }
    //@|         else if !has_sel(old(self).css_selector) { old(self).content@ + data@ }
    //@|         else if sel_matches(data@, sel(old(self).css_selector)) { data@ } else { spec_append_child(data@, old(self).content@) }),

    //@@ fn src/filter/html_body_action/body_append.rs :: impl BodyAppend / fn first -> r
    //@| requires self.wf(),
    //@| ensures r@ == self.element_tree@[0]@,
}
impl BodyPrepend {
    pub open spec fn wf(&self) -> bool { tree_ok(self.element_tree, self.position) }
    pub open spec fn frame(&self, o: &BodyPrepend) -> bool { self.element_tree == o.element_tree && self.css_selector == o.css_selector && self.content == o.content }
    // a fresh visitor stands at the head of its element path, buffers nothing, and carries exactly the filter's path, selector and value
    //@@ fn src/filter/html_body_action/body_prepend.rs :: impl BodyPrepend / fn new -> r
    //@| ensures r.position == 0, r.element_tree == element_tree, r.css_selector == css_selector, r.content == content, r.inner_content == inner_content, !r.is_buffering,
    //@|     element_tree@.len() > 0 && element_tree@.len() < 0x7fff_ffff ==> r.wf(),

    //@@ fn src/filter/html_body_action/body_prepend.rs :: impl BodyPrepend / fn enter -> r
    //@| requires old(self).wf(),
    //@| ensures final(self).wf(), final(self).frame(old(self)),
    //@|     ostr(r.1) == Some(old(self).element_tree@[old(self).position as int]@),
    //@|     old(self).position + 1 < old(self).element_tree@.len() ==> final(self).position == old(self).position + 1 && ostr(r.0) == Some(old(self).element_tree@[old(self).position + 1]@) && !r.2 && r.3@ == data@ && final(self).is_buffering == old(self).is_buffering,
    //@|     old(self).position + 1 >= old(self).element_tree@.len() ==> final(self).position == old(self).position && r.0.is_none() && r.2 == final(self).is_buffering
    //@|         && (if has_sel(old(self).css_selector) { r.3@ == data@ && final(self).is_buffering } else { r.3@ == data@ + old(self).content@ && final(self).is_buffering == old(self).is_buffering }),

    //@@ fn src/filter/html_body_action/body_prepend.rs :: impl BodyPrepend / fn leave -> r
    //@| requires old(self).wf(),
    //@| ensures final(self).wf(), final(self).frame(old(self)),
    //@|     final(self).position == (if old(self).position > 0 { old(self).position - 1 } else { old(self).position as int }),
    //@|     r matches Ok(t) ==> ostr(t.0) == Some(old(self).element_tree@[old(self).position as int]@),
    //@|     r matches Ok(t) ==> ostr(t.1) == (if old(self).position > 0 { Some(old(self).element_tree@[old(self).position - 1]@) } else { None }),
    //@|     r matches Ok(t) ==> t.2@ == (if old(self).is_buffering && has_sel(old(self).css_selector) && !sel_matches(data@, sel(old(self).css_selector)) { spec_prepend_child(data@, old(self).content@) } else { data@ }),
    //@|     old(self).is_buffering && has_sel(old(self).css_selector) ==> !final(self).is_buffering,

    //@@ fn src/filter/html_body_action/body_prepend.rs :: impl BodyPrepend / fn first -> r
    //@| requires self.wf(),
    //@| ensures r@ == self.element_tree@[0]@,
}
impl BodyReplace {
    pub open spec fn wf(&self) -> bool { tree_ok(self.element_tree, self.position) }
    pub open spec fn frame(&self, o: &BodyReplace) -> bool { self.element_tree == o.element_tree && self.css_selector == o.css_selector && self.content == o.content }
    // a fresh visitor stands at the head of its element path, buffers nothing, and carries exactly the filter's path, selector and value
    //@@ fn src/filter/html_body_action/body_replace.rs :: impl BodyReplace / fn new -> r
    //@| ensures r.position == 0, r.element_tree == element_tree, r.css_selector == css_selector, r.content == content, r.inner_content == inner_content, !r.is_buffering,
    //@|     element_tree@.len() > 0 && element_tree@.len() < 0x7fff_ffff ==> r.wf(),

    //@@ fn src/filter/html_body_action/body_replace.rs :: impl BodyReplace / fn enter -> r
    //@| requires old(self).wf(),
    //@| ensures final(self).wf(), final(self).frame(old(self)),
    //@|     ostr(r.1) == Some(old(self).element_tree@[old(self).position as int]@), r.3@ == data@,
    //@|     old(self).position + 1 < old(self).element_tree@.len() ==> final(self).position == old(self).position + 1 && ostr(r.0) == Some(old(self).element_tree@[old(self).position + 1]@) && !r.2 && final(self).is_buffering == old(self).is_buffering,
    //@|     old(self).position + 1 >= old(self).element_tree@.len() ==> final(self).position == old(self).position && r.0.is_none() && r.2 && final(self).is_buffering,

    //@@ fn src/filter/html_body_action/body_replace.rs :: impl BodyReplace / fn leave -> r
    //@| requires old(self).wf(),
    //@| ensures final(self).wf(), final(self).frame(old(self)), !final(self).is_buffering || !old(self).is_buffering,
    //@|     final(self).position == (if old(self).position > 0 && !old(self).is_buffering { old(self).position - 1 } else { old(self).position as int }),
    //@|     ostr(r.0) == Some(old(self).element_tree@[old(self).position as int]@),
    //@|     ostr(r.1) == (if old(self).position > 0 && !old(self).is_buffering { Some(old(self).element_tree@[old(self).position - 1]@) } else { None }),
    //@|     r.2@ == (if old(self).is_buffering && (!has_sel(old(self).css_selector) || sel_matches(data@, sel(old(self).css_selector))) { old(self).content@ } else { data@ }),

    //@@ fn src/filter/html_body_action/body_replace.rs :: impl BodyReplace / fn first -> r
    //@| requires self.wf(),
    //@| ensures r@ == self.element_tree@[0]@,
}

// ================================================================ HTML stage (src/filter/html_filter_body.rs) — C04
//@@ item src/filter/html_body_action/mod.rs :: enum HtmlBodyVisitor
//@@ item src/filter/html_filter_body.rs :: struct BufferLink
//@@ item src/filter/html_filter_body.rs :: struct HtmlFilterBodyAction

// bytes held back in open buffered elements, in STREAM order: outermost element first, innermost (current) last
pub open spec fn chain_chars(l: Option<Box<BufferLink>>) -> Seq<char>
    decreases l
{
    match l { None => Seq::empty(), Some(b) => chain_chars(b.previous) + b.buffer@ }
}
pub open spec fn buffer_link(b: Option<&Box<BufferLink>>) -> Option<Box<BufferLink>> { match b { Some(x) => Some(*x), None => None } }
// concatenation of a stack of byte slices popped from the end
pub open spec fn rev_concat(s: Seq<&[u8]>) -> Seq<u8>
    decreases s.len()
{ if s.len() == 0 { Seq::empty() } else { s.last()@ + rev_concat(s.drop_last()) } }
impl HtmlBodyVisitor {
    pub open spec fn wf(&self) -> bool { match self { HtmlBodyVisitor::Append(a) => a.wf(), HtmlBodyVisitor::Prepend(p) => p.wf(), HtmlBodyVisitor::Replace(r) => r.wf() } }
    pub open spec fn content(&self) -> Seq<char> { match self { HtmlBodyVisitor::Append(a) => a.content@, HtmlBodyVisitor::Prepend(p) => p.content@, HtmlBodyVisitor::Replace(r) => r.content@ } }
    // enter never drops or reorders the start tag it is given: it returns it unchanged, or (prepend without selector) followed by the value
    //@@ fn src/filter/html_body_action/mod.rs :: impl HtmlBodyVisitor / fn enter -> r
    //@| requires old(self).wf(),
    //@| ensures final(self).wf(), final(self).content() == old(self).content(),
    //@|     r.3@ == data@ || (r.3@ == data@ + old(self).content() && *old(self) is Prepend),
    //@|     r.1.is_some(),

    // leave returns its input, the input with the value inserted (append/prepend), or the value (replace of a whole buffered element)
    //@@ fn src/filter/html_body_action/mod.rs :: impl HtmlBodyVisitor / fn leave -> r
    //@| requires old(self).wf(),
    //@| ensures final(self).wf(), final(self).content() == old(self).content(),
    //@|     r matches Ok(t) ==> (t.2@ == data@
    //@|         || (*old(self) is Append && (t.2@ == old(self).content() + data@ || t.2@ == spec_append_child(data@, old(self).content())))
    //@|         || (*old(self) is Prepend && t.2@ == spec_prepend_child(data@, old(self).content()))
    //@|         || (*old(self) is Replace && t.2@ == old(self).content())),

    //@@ fn src/filter/html_body_action/mod.rs :: impl HtmlBodyVisitor / fn first -> r
    //@| requires self.wf(),
}
pub open spec fn link_matches(l: Option<Box<BufferLink>>, tag: Seq<char>) -> bool { l matches Some(b) && b.tag_name@ == tag }
pub open spec fn link_prev(l: Option<Box<BufferLink>>) -> Option<Box<BufferLink>> { match l { Some(b) => b.previous, None => None } }
pub open spec fn link_buf(l: Option<Box<BufferLink>>) -> Seq<char> { match l { Some(b) => b.buffer@, None => Seq::empty() } }

// ---- foreign to this unit: html::Tokenizer. The contracts below are the postconditions PROVED in unit `tok` (contiguity, progress,
// error => nothing unread, tag tokens carry a name), restated over abstract observers; assumed here (trusted, listed)
//@@ item src/html/mod.rs :: enum TokenType
//@| opt keepattrs
//@| attr #[derive(Structural)]
#[verifier::external_body] pub struct Tokenizer { x: u8 }
pub open spec fn is_tag(t: TokenType) -> bool { t == TokenType::StartTagToken || t == TokenType::EndTagToken || t == TokenType::SelfClosingTagToken }
impl Tokenizer {
    pub uninterp spec fn reader(&self) -> Seq<u8>;
    pub uninterp spec fn rs(&self) -> int;
    pub uninterp spec fn re(&self) -> int;
    pub uninterp spec fn errored(&self) -> bool;
    pub uninterp spec fn tok(&self) -> TokenType;
    // the tokenizer is in the state a FRESH tokenizer starts in (not inside the raw text of <script>/<style>/<textarea>.., no pending context):
    // what it will make of the following bytes does not depend on the bytes it has consumed. True of a new tokenizer; next() may leave it
    // (a start tag of a raw-text element sets Tokenizer::raw_tag, unit tok), so nothing is promised after next().
    pub uninterp spec fn ctx_free(&self) -> bool;
    pub open spec fn wf(&self) -> bool { 0 <= self.rs() <= self.re() <= self.reader().len() && (self.errored() ==> self.re() == self.reader().len()) }
    pub open spec fn raw_bytes(&self) -> Seq<u8> { self.reader().subrange(self.rs(), self.re()) }
    #[verifier::external_body]
    pub fn new(reader: Vec<u8>) -> (r: Tokenizer) ensures r.wf(), r.reader() == reader@, r.rs() == 0, r.re() == 0, !r.errored(), r.ctx_free() { unimplemented!() }
    #[verifier::external_body]
    pub fn next(&mut self) -> (r: std::result::Result<TokenType, HtmlParseError>)
        requires old(self).wf(),
        ensures final(self).wf(), final(self).reader() == old(self).reader(), final(self).rs() == old(self).re(),
            r matches Ok(t) ==> final(self).tok() == t && (t != TokenType::ErrorToken ==> final(self).rs() < final(self).re()) && (t == TokenType::ErrorToken ==> final(self).errored()),
    { unimplemented!() }
    #[verifier::external_body]
    pub fn raw(&self) -> (r: Vec<u8>) requires self.wf() ensures r@ == self.raw_bytes() { unimplemented!() }
    #[verifier::external_body]
    pub fn raw_as_string(&self) -> (r: std::result::Result<String, HtmlParseError>) requires self.wf() ensures r matches Ok(s) ==> vstd::utf8::encode_utf8(s@) == self.raw_bytes() { unimplemented!() }
    #[verifier::external_body]
    pub fn buffered(&self) -> (r: Vec<u8>) requires self.wf() ensures r@ == self.reader().subrange(self.re(), self.reader().len() as int) { unimplemented!() }
    #[verifier::external_body]
    pub fn tag_name(&mut self) -> (r: std::result::Result<(Option<String>, bool), HtmlParseError>)
        requires old(self).wf(),
        ensures final(self).wf(), final(self).reader() == old(self).reader(), final(self).rs() == old(self).rs(), final(self).re() == old(self).re(),
            final(self).errored() == old(self).errored(), final(self).tok() == old(self).tok(),
            r matches Ok(p) ==> (is_tag(old(self).tok()) ==> p.0.is_some()),
    { unimplemented!() }
}
// R8 outlined expression: membership in the lazy_static VOID_ELEMENTS set (uninterpreted predicate of the tag name)
pub uninterp spec fn spec_is_void(tag: Seq<char>) -> bool;
#[verifier::external_body]
pub fn outl_is_void(tag: &str) -> (r: bool) ensures r == spec_is_void(tag@) { /* verbatim: VOID_ELEMENTS.contains(tag_name_str.as_str()) */ unimplemented!() }
pub assume_specification<P: std::str::pattern::Pattern> [str::contains] (s: &str, p: P) -> bool;

impl HtmlFilterBodyAction {
    pub open spec fn wf(&self) -> bool { self.visitor.wf() }

    // Driver loop. Contract (what is decided here):
    //  (B) on the end-of-chunk exits the carried-over tail is EXACTLY the not-yet-routed suffix of (old tail ++ input): nothing is lost at
    //      the chunk boundary;
    //  (A) stream-order discipline: text is emitted only while no element is being buffered (ghost assertions at every emission);
    //  (C) every unwrap is safe and every loop terminates (tokenizer progress).
    //  (D) C03, restart condition: the next chunk is tokenised by a FRESH tokenizer over (carried-over tail ++ chunk); for the result to be that of
    //      single-chunk filtering, the tokenizer abandoned at the end of this chunk must itself be in the fresh state (ctx_free). FAILS on this
    //      tree: known finding F11.
    // NOT decided here: that the emitted/buffered text equals the routed tokens with only the visitor's edits applied.
    //@@ strip-path html::
    //@@ fn src/filter/html_filter_body.rs :: impl HtmlFilterBodyAction / fn filter -> r
    //@| requires old(self).wf(),
    //@| ensures final(self).wf(),
    //@|     r matches Ok(out) ==> exists|k: int| 0 <= k <= (old(self).last_buffer@ + input@).len() && final(self).last_buffer@ == (old(self).last_buffer@ + input@).subrange(k, (old(self).last_buffer@ + input@).len() as int),
    //@| outline `VOID_ELEMENTS.contains(tag_name_str.as_str())` => `outl_is_void(tag_name_str.as_str())`
    //@| entry broadcast use axiom_iter_seq_vec;
    //@| before `let mut tokenizer = html::Tokenizer::new(data);`: let ghost d = data@; proof { assert(d == old(self).last_buffer@ + input@); }
    //@| loop 0: invariant_except_break tokenizer.wf(), tokenizer.reader() == d, self.wf(), d == old(self).last_buffer@ + input@,
    //@|     ensures self.wf(), exists|k: int| 0 <= k <= d.len() && self.last_buffer@ == d.subrange(k, d.len() as int), d == old(self).last_buffer@ + input@,
    //@|     decreases d.len() - tokenizer.re(),
    //@| loop 1: invariant tokenizer.wf(), tokenizer.reader() == d, self.wf(), d == old(self).last_buffer@ + input@,
    //@|         token_type == tokenizer.tok(), tokenizer.re() > re0,
    //@|         vstd::utf8::encode_utf8(token_data@) == tokenizer.raw_bytes(),
    //@|     decreases d.len() - tokenizer.re(),
    //@| loophead 0: let ghost re0 = tokenizer.re(); broadcast use axiom_iter_seq_vec;
    //@| loophead 1: broadcast use axiom_iter_seq_vec;
    //@| after `self.last_buffer.extend(tokenizer.buffered());`#0: proof { assert(self.last_buffer@ =~= d.subrange(tokenizer.rs(), d.len() as int)); }
    //@| after `self.last_buffer.extend(tokenizer.buffered());`#0: proof { assert(tokenizer.ctx_free()); }
    //@| before `token_type = tokenizer.next()?;`#1: let ghost ts = tokenizer.rs();
    //@| after `self.last_buffer.extend(tokenizer.buffered());`#1: proof { assert(self.last_buffer@ =~= d.subrange(ts, d.len() as int)); }
    //@| after `self.last_buffer.extend(tokenizer.buffered());`#1: proof { assert(tokenizer.ctx_free()); }
    //@| before `to_return.push_str(token_data.as_str());`#*: proof { assert(self.current_buffer.is_none()); }

    //@@ fn src/filter/html_filter_body.rs :: impl HtmlFilterBodyAction / fn new -> r
    //@| requires visitor.wf(),
    //@| ensures r.wf(), r.current_buffer.is_none(), r.last_buffer@.len() == 0, r.pending().len() == 0,

    // routing of a start tag: the chain of held-back bytes is unchanged (a newly opened buffer is empty); the tag text comes back
    // unchanged or followed by the inserted value
    //@@ fn src/filter/html_filter_body.rs :: impl HtmlFilterBodyAction / fn on_start_tag_token -> r
    //@| requires old(self).wf(),
    //@| ensures final(self).wf(), final(self).current_buffer.is_none(), final(self).last_buffer == old(self).last_buffer,
    //@|     chain_chars(r.0) == chain_chars(old(self).current_buffer),
    //@|     r.1@ == data@ || r.1@ == data@ + old(self).visitor.content(),
    //@|     final(self).visitor.content() == old(self).visitor.content(),
    //@| entry proof { lit_empty(); }
    //@| before `(self.current_buffer.take(), buffer)`: proof { if buffer_link_actions > 0 { let l = self.current_buffer.unwrap(); assert(l.buffer@ =~= Seq::<char>::empty()); assert(chain_chars(l.previous) + l.buffer@ =~= chain_chars(l.previous)); } }

    // routing of an end tag: before the visitor edits it, (what stays held back) ++ (what comes back) == (what was held back) ++ (the tag text)
    //@@ fn src/filter/html_filter_body.rs :: impl HtmlFilterBodyAction / fn on_end_tag_token -> r
    //@| requires old(self).wf(),
    //@| ensures final(self).wf(), final(self).last_buffer == old(self).last_buffer, final(self).visitor.content() == old(self).visitor.content(),
    //@|     r matches Ok(t) ==> final(self).current_buffer.is_none() || link_matches(old(self).current_buffer, tag_name@),
    //@|     r matches Ok(t) ==> chain_chars(t.0) == (if link_matches(old(self).current_buffer, tag_name@) { chain_chars(link_prev(old(self).current_buffer)) } else { chain_chars(old(self).current_buffer) }),
    //@|     r matches Ok(t) ==> ({ let pre = if link_matches(old(self).current_buffer, tag_name@) { link_buf(old(self).current_buffer) + data@ } else { data@ };
    //@|         t.1@ == pre || t.1@ == old(self).visitor.content() + pre || t.1@ == spec_append_child(pre, old(self).visitor.content())
    //@|         || t.1@ == spec_prepend_child(pre, old(self).visitor.content()) || t.1@ == old(self).visitor.content() }),

    // everything consumed but not yet emitted, in stream order: buffered elements (outer to inner), then the unparsed tail
    pub open spec fn pending(&self) -> Seq<u8> { vstd::utf8::encode_utf8(chain_chars(self.current_buffer)) + self.last_buffer@ }

    //@@ fn src/filter/html_filter_body.rs :: impl HtmlFilterBodyAction / fn end -> r
    //@| ensures r@ == old(self).pending(),
    //@| loop 0: invariant vstd::utf8::encode_utf8(chain_chars(buffer_link(buffer))) + rev_concat(buffers@) == vstd::utf8::encode_utf8(chain_chars(self.current_buffer)),
    //@|     decreases buffer,
    //@| loophead 0: let ghost bs0 = buffers@; proof { let b = buffer.unwrap(); vstd::utf8::encode_utf8_concat(chain_chars(b.previous), b.buffer@); }
    //@| looptail 0: proof { assert(buffers@.drop_last() =~= bs0); let e = vstd::utf8::encode_utf8(chain_chars(buffer_link(buffer))); let m = buffers@.last()@; assert((e + m) + rev_concat(bs0) =~= e + (m + rev_concat(bs0))); }
    //@| loop 1: invariant to_return@ + rev_concat(buffers@) == vstd::utf8::encode_utf8(chain_chars(self.current_buffer)),
    //@|     ensures buffers@.len() == 0,
    //@|     decreases buffers@.len(),
    //@| loopend 1: proof { assert(buffers@.len() == 0); assert(to_return@ + Seq::<u8>::empty() =~= to_return@); }
    //@| loophead 1: proof { assert((to_return@ + bytes@) + rev_concat(buffers@) =~= to_return@ + (bytes@ + rev_concat(buffers@))); }
}

// ================================================================ chain (src/filter/filter_body.rs, src/filter/encoding/mod.rs) — C14 gating, C03 plumbing, C04 pass-through
//@@ item src/http/header.rs :: struct Header
// foreign to this unit (opaque): BodyFilter description (api), codec stages (flate2 / brotli)
#[verifier::external_body] pub struct BodyFilter { x: u8 }
//@@ item src/filter/encoding/mod.rs :: enum SupportedEncoding
impl Clone for SupportedEncoding {
    fn clone(&self) -> (r: Self) ensures r == *self { match self { SupportedEncoding::Brotli => SupportedEncoding::Brotli, SupportedEncoding::Gzip => SupportedEncoding::Gzip, SupportedEncoding::Deflate => SupportedEncoding::Deflate } }
}
// ---- foreign crates flate2 / brotli: streaming writers over an inner Vec<u8>. Abstract model (trusted, listed):
//   fed   = all input bytes accepted so far;   sink = the inner Vec (output produced and not yet taken by the caller);
//   prod  = every output byte produced so far (taken ++ sink).
// Assumed streaming contract of the codecs: write_all accepts the WHOLE buffer (write only a prefix), flush/finish only append output,
// and after a successful flush the output produced so far carries exactly the input fed so far (`carried`), i.e. the codec itself
// is chunk-invariant at the level of the carried payload.  These are flate2/brotli facts, not proved here.
pub struct Compression { x: u8 }
impl Compression { #[verifier::external_body] pub fn default() -> Self { unimplemented!() } }
pub uninterp spec fn carried(k: SupportedEncoding, encode: bool, prod: Seq<u8>) -> Seq<u8>;   // payload recoverable from a flushed output prefix
pub uninterp spec fn complete(k: SupportedEncoding, encode: bool, prod: Seq<u8>) -> bool;     // prod is a complete valid stream
macro_rules! stream_writer_shim {
    ($name:ident) => {
        verus! {
        #[verifier::external_body] #[verifier::accept_recursive_types(W)] pub struct $name<W> { w: std::marker::PhantomData<W> }
        impl $name<Vec<u8>> {
            pub uninterp spec fn fed(&self) -> Seq<u8>;
            pub uninterp spec fn sink(&self) -> Seq<u8>;
            pub uninterp spec fn prod(&self) -> Seq<u8>;
            pub uninterp spec fn kind(&self) -> (SupportedEncoding, bool);
            #[verifier::external_body]
            pub fn write_all(&mut self, buf: &[u8]) -> (r: std::result::Result<(), std::io::Error>)
                ensures final(self).kind() == old(self).kind(),
                    r.is_ok() ==> final(self).fed() == old(self).fed() + buf@ && (exists|x: Seq<u8>| final(self).sink() == old(self).sink() + x && final(self).prod() == old(self).prod() + x),
            { unimplemented!() }
            #[verifier::external_body]
            pub fn write(&mut self, buf: &[u8]) -> (r: std::result::Result<usize, std::io::Error>)
                ensures final(self).kind() == old(self).kind(),
                    r matches Ok(n) ==> n <= buf@.len() && final(self).fed() == old(self).fed() + buf@.take(n as int) && (exists|x: Seq<u8>| final(self).sink() == old(self).sink() + x && final(self).prod() == old(self).prod() + x),
            { unimplemented!() }
            #[verifier::external_body]
            pub fn flush(&mut self) -> (r: std::result::Result<(), std::io::Error>)
                ensures final(self).kind() == old(self).kind(),
                    r.is_ok() ==> final(self).fed() == old(self).fed() && (exists|x: Seq<u8>| final(self).sink() == old(self).sink() + x && final(self).prod() == old(self).prod() + x)
                        && carried(final(self).kind().0, final(self).kind().1, final(self).prod()) == final(self).fed(),
            { unimplemented!() }
            #[verifier::external_body]
            pub fn get_ref(&self) -> (r: &Vec<u8>) ensures r@ == self.sink() { unimplemented!() }
            #[verifier::external_body]
            pub fn get_mut(&mut self) -> (r: &mut Vec<u8>)
                ensures r@ == old(self).sink(), final(self).sink() == final(r)@, final(self).fed() == old(self).fed(), final(self).prod() == old(self).prod(), final(self).kind() == old(self).kind(),
            { unimplemented!() }
        }
        }
    };
}
stream_writer_shim!(GzEncoder);
stream_writer_shim!(ZlibEncoder);
stream_writer_shim!(CompressorWriter);
stream_writer_shim!(GzDecoder);
stream_writer_shim!(ZlibDecoder);
stream_writer_shim!(DecompressorWriter);
// constructors / finishers of the shims (assumed, trusted): a new writer is fresh; finishing appends a tail after which the whole
// output is a complete stream carrying exactly what was fed
pub open spec fn fresh(fed: Seq<u8>, sink: Seq<u8>, prod: Seq<u8>) -> bool { fed.len() == 0 && sink.len() == 0 && prod.len() == 0 }
pub open spec fn finished(k: (SupportedEncoding, bool), fed: Seq<u8>, sink: Seq<u8>, prod: Seq<u8>, out: Seq<u8>) -> bool {
    &&& out.len() >= sink.len() && out.take(sink.len() as int) == sink
    &&& complete(k.0, k.1, prod + out.skip(sink.len() as int))
    &&& carried(k.0, k.1, prod + out.skip(sink.len() as int)) == fed
}
// finishing after some more output x was appended to both the sink and the total is finishing from the earlier state
pub proof fn lemma_finished_extend(k: (SupportedEncoding, bool), fed: Seq<u8>, sink0: Seq<u8>, prod0: Seq<u8>, x: Seq<u8>, out: Seq<u8>)
    requires finished(k, fed, sink0 + x, prod0 + x, out),
    ensures finished(k, fed, sink0, prod0, out),
{
    let n0 = sink0.len() as int;
    let n1 = (sink0 + x).len() as int;
    assert(out.take(n0) =~= out.take(n1).take(n0));
    assert((sink0 + x).take(n0) =~= sink0);
    assert(out.skip(n0) =~= x + out.skip(n1)) by {
        assert(out.take(n1) == sink0 + x);
        assert forall|i: int| 0 <= i < x.len() implies out.skip(n0)[i] == x[i] by { assert(out.take(n1)[n0 + i] == (sink0 + x)[n0 + i]); }
    }
    assert(prod0 + out.skip(n0) =~= (prod0 + x) + out.skip(n1));
}
macro_rules! flate_finish_shim {
    ($name:ident) => {
        verus! {
        impl $name<Vec<u8>> {
            #[verifier::external_body]
            pub fn try_finish(&mut self) -> (r: std::result::Result<(), std::io::Error>)
                ensures final(self).kind() == old(self).kind(), final(self).fed() == old(self).fed(),
                    r.is_ok() ==> (exists|x: Seq<u8>| final(self).sink() == old(self).sink() + x && final(self).prod() == old(self).prod() + x),
            { unimplemented!() }
            #[verifier::external_body]
            pub fn finish(self) -> (r: std::result::Result<Vec<u8>, std::io::Error>)
                ensures r matches Ok(v) ==> finished(self.kind(), self.fed(), self.sink(), self.prod(), v@),
            { unimplemented!() }
        }
        }
    };
}
flate_finish_shim!(GzEncoder);
flate_finish_shim!(ZlibEncoder);
flate_finish_shim!(GzDecoder);
flate_finish_shim!(ZlibDecoder);
impl GzEncoder<Vec<u8>> { #[verifier::external_body] pub fn new(w: Vec<u8>, c: Compression) -> (r: Self) requires w@.len() == 0 ensures fresh(r.fed(), r.sink(), r.prod()), r.kind() == (SupportedEncoding::Gzip, true) { unimplemented!() } }
impl ZlibEncoder<Vec<u8>> { #[verifier::external_body] pub fn new(w: Vec<u8>, c: Compression) -> (r: Self) requires w@.len() == 0 ensures fresh(r.fed(), r.sink(), r.prod()), r.kind() == (SupportedEncoding::Deflate, true) { unimplemented!() } }
impl GzDecoder<Vec<u8>> { #[verifier::external_body] pub fn new(w: Vec<u8>) -> (r: Self) requires w@.len() == 0 ensures fresh(r.fed(), r.sink(), r.prod()), r.kind() == (SupportedEncoding::Gzip, false) { unimplemented!() } }
impl ZlibDecoder<Vec<u8>> { #[verifier::external_body] pub fn new(w: Vec<u8>) -> (r: Self) requires w@.len() == 0 ensures fresh(r.fed(), r.sink(), r.prod()), r.kind() == (SupportedEncoding::Deflate, false) { unimplemented!() } }
impl CompressorWriter<Vec<u8>> {
    #[verifier::external_body] pub fn new(w: Vec<u8>, buffer_size: usize, q: u32, lgwin: u32) -> (r: Self) requires w@.len() == 0 ensures fresh(r.fed(), r.sink(), r.prod()), r.kind() == (SupportedEncoding::Brotli, true) { unimplemented!() }
    #[verifier::external_body] pub fn into_inner(self) -> (r: Vec<u8>) ensures finished(self.kind(), self.fed(), self.sink(), self.prod(), r@) { unimplemented!() }
}
impl DecompressorWriter<Vec<u8>> {
    #[verifier::external_body] pub fn new(w: Vec<u8>, buffer_size: usize) -> (r: Self) requires w@.len() == 0 ensures fresh(r.fed(), r.sink(), r.prod()), r.kind() == (SupportedEncoding::Brotli, false) { unimplemented!() }
    // Ok: complete stream; Err: the stream was truncated, the bytes decoded so far are returned (no completeness claim)
    #[verifier::external_body] pub fn into_inner(self) -> (r: std::result::Result<Vec<u8>, Vec<u8>>)
        ensures r matches Ok(v) ==> finished(self.kind(), self.fed(), self.sink(), self.prod(), v@),
            r matches Err(v) ==> v@.len() >= self.sink().len() && v@.take(self.sink().len() as int) == self.sink(),
    { unimplemented!() }
}
impl vstd::std_specs::convert::FromSpecImpl<std::io::Error> for FilterBodyError {
    open spec fn obeys_from_spec() -> bool { false }
    open spec fn from_spec(v: std::io::Error) -> Self { FilterBodyError::IoError(v) }
}
impl From<std::io::Error> for FilterBodyError {
    //@@ fn src/filter/error.rs :: impl From<std::io::Error> for FilterBodyError / fn from
}
//@@ item src/filter/encoding/encode.rs :: enum EncodeFilterBody
//@@ item src/filter/encoding/decode.rs :: enum DecodeFilterBody
impl EncodeFilterBody {
    pub open spec fn fed(&self) -> Seq<u8> { match self { EncodeFilterBody::Gzip(e) => e.fed(), EncodeFilterBody::Brotli(e) => e.fed(), EncodeFilterBody::Deflate(e) => e.fed() } }
    pub open spec fn sink(&self) -> Seq<u8> { match self { EncodeFilterBody::Gzip(e) => e.sink(), EncodeFilterBody::Brotli(e) => e.sink(), EncodeFilterBody::Deflate(e) => e.sink() } }
    pub open spec fn prod(&self) -> Seq<u8> { match self { EncodeFilterBody::Gzip(e) => e.prod(), EncodeFilterBody::Brotli(e) => e.prod(), EncodeFilterBody::Deflate(e) => e.prod() } }
    pub open spec fn wkind(&self) -> (SupportedEncoding, bool) { match self { EncodeFilterBody::Gzip(e) => e.kind(), EncodeFilterBody::Brotli(e) => e.kind(), EncodeFilterBody::Deflate(e) => e.kind() } }
    pub open spec fn kind_ok(&self) -> bool { match self { EncodeFilterBody::Gzip(e) => e.kind() == (SupportedEncoding::Gzip, true), EncodeFilterBody::Brotli(e) => e.kind() == (SupportedEncoding::Brotli, true), EncodeFilterBody::Deflate(e) => e.kind() == (SupportedEncoding::Deflate, true) } }
    // one streaming step of the encoder stage: the WHOLE chunk is fed, everything produced is handed over in order, nothing stays in the sink,
    // and what has been handed over so far carries exactly what has been fed so far
    //@@ fn src/filter/encoding/encode.rs :: impl EncodeFilterBody / fn filter -> r
    //@| requires old(self).sink().len() == 0,
    //@| ensures final(self).wkind() == old(self).wkind(),
    //@|     r matches Ok(out) ==> final(self).fed() == old(self).fed() + data@ && final(self).prod() == old(self).prod() + out@ && final(self).sink().len() == 0
    //@|         && carried(final(self).wkind().0, final(self).wkind().1, final(self).prod()) == final(self).fed(),
}
impl EncodeFilterBody {
    // end of stream: the remaining output completes a valid stream of the same encoding carrying exactly everything fed; the stage is reset
    //@@ strip-path flate2::
    //@@ fn src/filter/encoding/encode.rs :: impl EncodeFilterBody / fn end -> r
    //@| requires old(self).kind_ok(),
    //@| ensures final(self).kind_ok(), final(self).wkind() == old(self).wkind(), fresh(final(self).fed(), final(self).sink(), final(self).prod()),
    //@|     r matches Ok(out) ==> finished(old(self).wkind(), old(self).fed(), old(self).sink(), old(self).prod(), out@),
    //@| entry let ghost k = self.wkind(); let ghost f0 = self.fed(); let ghost s0 = self.sink(); let ghost p0 = self.prod();
    //@| after `encoder.try_finish()?;`#*: proof { let x = choose|x: Seq<u8>| encoder.sink() == s0 + x && encoder.prod() == p0 + x; assert forall|o: Seq<u8>| finished(k, f0, s0 + x, p0 + x, o) implies finished(k, f0, s0, p0, o) by { lemma_finished_extend(k, f0, s0, p0, x, o); } }
}
impl DecodeFilterBody {
    //@@ fn src/filter/encoding/decode.rs :: impl DecodeFilterBody / fn end -> r
    //@| requires old(self).kind_ok(),
    //@| ensures final(self).kind_ok(), final(self).wkind() == old(self).wkind(), fresh(final(self).fed(), final(self).sink(), final(self).prod()),
    //@|     r matches Ok(out) ==> out@.len() >= old(self).sink().len() && out@.take(old(self).sink().len() as int) == old(self).sink(),
    //@|     r matches Ok(out) ==> (!(*old(self) is Brotli) ==> finished(old(self).wkind(), old(self).fed(), old(self).sink(), old(self).prod(), out@)),
    //@| entry let ghost k = self.wkind(); let ghost f0 = self.fed(); let ghost s0 = self.sink(); let ghost p0 = self.prod();
    //@| after `decoder.try_finish()?;`#*: proof { let x = choose|x: Seq<u8>| decoder.sink() == s0 + x && decoder.prod() == p0 + x; assert forall|o: Seq<u8>| finished(k, f0, s0 + x, p0 + x, o) implies finished(k, f0, s0, p0, o) by { lemma_finished_extend(k, f0, s0, p0, x, o); } }
}
impl DecodeFilterBody {
    pub open spec fn fed(&self) -> Seq<u8> { match self { DecodeFilterBody::Gzip(e) => e.fed(), DecodeFilterBody::Brotli(e) => e.fed(), DecodeFilterBody::Deflate(e) => e.fed() } }
    pub open spec fn sink(&self) -> Seq<u8> { match self { DecodeFilterBody::Gzip(e) => e.sink(), DecodeFilterBody::Brotli(e) => e.sink(), DecodeFilterBody::Deflate(e) => e.sink() } }
    pub open spec fn prod(&self) -> Seq<u8> { match self { DecodeFilterBody::Gzip(e) => e.prod(), DecodeFilterBody::Brotli(e) => e.prod(), DecodeFilterBody::Deflate(e) => e.prod() } }
    pub open spec fn wkind(&self) -> (SupportedEncoding, bool) { match self { DecodeFilterBody::Gzip(e) => e.kind(), DecodeFilterBody::Brotli(e) => e.kind(), DecodeFilterBody::Deflate(e) => e.kind() } }
    pub open spec fn kind_ok(&self) -> bool { match self { DecodeFilterBody::Gzip(e) => e.kind() == (SupportedEncoding::Gzip, false), DecodeFilterBody::Brotli(e) => e.kind() == (SupportedEncoding::Brotli, false), DecodeFilterBody::Deflate(e) => e.kind() == (SupportedEncoding::Deflate, false) } }
    //@@ fn src/filter/encoding/decode.rs :: impl DecodeFilterBody / fn filter -> r
    //@| requires old(self).sink().len() == 0,
    //@| ensures final(self).wkind() == old(self).wkind(),
    //@|     r matches Ok(out) ==> final(self).fed() == old(self).fed() + data@ && final(self).prod() == old(self).prod() + out@ && final(self).sink().len() == 0
    //@|         && carried(final(self).wkind().0, final(self).wkind().1, final(self).prod()) == final(self).fed(),
}
pub open spec fn enc_kind(e: EncodeFilterBody) -> SupportedEncoding { e.wkind().0 }
pub open spec fn dec_kind(d: DecodeFilterBody) -> SupportedEncoding { d.wkind().0 }
impl EncodeFilterBody {
    //@@ fn src/filter/encoding/encode.rs :: impl EncodeFilterBody / fn new -> r
    //@| ensures enc_kind(r) == encoding, r.kind_ok(), fresh(r.fed(), r.sink(), r.prod()),
}
impl DecodeFilterBody {
    //@@ fn src/filter/encoding/decode.rs :: impl DecodeFilterBody / fn new -> r
    //@| ensures dec_kind(r) == encoding, r.kind_ok(), fresh(r.fed(), r.sink(), r.prod()),
}
//@@ item src/filter/filter_body.rs :: enum FilterBodyActionItem
//@@ item src/filter/filter_body.rs :: struct FilterBodyAction

pub assume_specification [str::to_lowercase] (s: &str) -> (r: std::string::String) ensures r@ == spec_lower(s@);
pub uninterp spec fn spec_lower(s: Seq<char>) -> Seq<char>;
pub assume_specification<'b> [<std::string::String as PartialEq<&str>>::eq] (a: &std::string::String, b: &&str) -> (r: bool) ensures r == (a@ == b@);

// statement of C14: exactly br / gzip / deflate are supported
pub open spec fn supported(enc: Seq<char>) -> Option<SupportedEncoding> {
    if enc == "br"@ { Some(SupportedEncoding::Brotli) } else if enc == "gzip"@ { Some(SupportedEncoding::Gzip) } else if enc == "deflate"@ { Some(SupportedEncoding::Deflate) } else { None }
}
//@@ fn src/filter/encoding/mod.rs :: fn get_encoding_filters -> r
//@| ensures r.is_some() == supported(encoding@).is_some(),
//@|     r matches Some(p) ==> Some(dec_kind(p.0)) == supported(encoding@) && Some(enc_kind(p.1)) == supported(encoding@),
//@| entry proof { lit_br(); lit_gzip(); lit_deflate(); axiom_str_ext(); }

// inner stages built from the filter descriptions: FilterBodyActionItem::new is NOT under contract (closures over foreign visitors,
// str::contains); assumed to be a function of (filter, content type)
pub uninterp spec fn spec_item_new(filter: BodyFilter, content_type: Option<Seq<char>>) -> Option<FilterBodyActionItem>;
pub open spec fn ostring(o: Option<String>) -> Option<Seq<char>> { match o { Some(s) => Some(s@), None => None } }
impl FilterBodyActionItem {
    //@@ fn src/filter/filter_body.rs :: impl FilterBodyActionItem / fn new -> r
    //@| opt external_body
    //@| opt stub
    //@| ensures r == spec_item_new(filter, ostring(content_type)),
}
// last header value (lower-cased) whose lower-cased name is `name`
pub open spec fn last_header(hs: Seq<Header>, name: Seq<char>) -> Option<Seq<char>>
    decreases hs.len()
{
    if hs.len() == 0 { None } else if spec_lower(hs.last().name@) == name { Some(spec_lower(hs.last().value@)) } else { last_header(hs.drop_last(), name) }
}
pub open spec fn inner_chain(fs: Seq<BodyFilter>, ct: Option<Seq<char>>) -> Seq<FilterBodyActionItem>
    decreases fs.len()
{
    if fs.len() == 0 { Seq::empty() } else {
        let p = inner_chain(fs.drop_last(), ct);
        match spec_item_new(fs.last(), ct) { Some(i) => p.push(i), None => p }
    }
}
// the stages as abstract stream transformers: new state and result (None = internal error) — uninterpreted, deterministic
pub uninterp spec fn it_filter(i: FilterBodyActionItem, d: Seq<u8>) -> (FilterBodyActionItem, Option<Seq<u8>>);
pub uninterp spec fn it_end(i: FilterBodyActionItem) -> (FilterBodyActionItem, Option<Seq<u8>>);
pub open spec fn res_bytes(r: Result<Vec<u8>>) -> Option<Seq<u8>> { match r { Ok(v) => Some(v@), Err(_) => None } }
pub open spec fn opt_bytes(o: Option<Vec<u8>>) -> Seq<u8> { match o { Some(v) => v@, None => Seq::empty() } }
impl FilterBodyActionItem {
    // the per-stage dispatchers are NOT under contract here (their targets are: text stage, HTML stage, codecs); assumed deterministic
    //@@ fn src/filter/filter_body.rs :: impl FilterBodyActionItem / fn filter -> r
    //@| opt external_body
    //@| opt stub
    //@| ensures (*final(self), res_bytes(r)) == it_filter(*old(self), data@),
    //@@ fn src/filter/filter_body.rs :: impl FilterBodyActionItem / fn end -> r
    //@| opt external_body
    //@| opt stub
    //@| ensures (*final(self), res_bytes(r)) == it_end(*old(self)),
}
// reference: a chunk through the first k stages (a stage is skipped once an earlier stage left nothing)
pub open spec fn filter_fold(chain: Seq<FilterBodyActionItem>, k: int, d: Seq<u8>) -> Option<Seq<u8>>
    decreases k
{
    if k <= 0 { Some(d) } else {
        match filter_fold(chain, k - 1, d) {
            None => None,
            Some(x) => if k - 1 >= 1 && x.len() == 0 { Some(x) } else { it_filter(chain[k - 1], x).1 },
        }
    }
}
pub proof fn lemma_filter_fold_stop(chain: Seq<FilterBodyActionItem>, j: int, k: int, d: Seq<u8>)
    requires 1 <= j <= k, filter_fold(chain, j, d) matches Some(x) && x.len() == 0,
    ensures filter_fold(chain, k, d) == filter_fold(chain, j, d),
    decreases k - j,
{ if j < k { lemma_filter_fold_stop(chain, j, k - 1, d); } }
// reference: end of stream through the first k stages; the value is what the k-th stage hands on (empty = nothing)
pub open spec fn end_fold(chain: Seq<FilterBodyActionItem>, k: int) -> Option<Seq<u8>>
    decreases k
{
    if k <= 0 { Some(Seq::empty()) } else {
        match end_fold(chain, k - 1) {
            None => None,
            Some(x) => if x.len() == 0 { it_end(chain[k - 1]).1 } else {
                // the stage first consumes what the previous stage flushed, and is ended afterwards
                match it_filter(chain[k - 1], x) { (i2, Some(out)) => match it_end(i2).1 { Some(e) => Some(out + e), None => None }, (_, None) => None }
            },
        }
    }
}
// raw input bytes held back by the first stage of the chain when that stage is the HTML stage (no claim for other first stages)
pub open spec fn chain_held(chain: Seq<FilterBodyActionItem>) -> Seq<u8> {
    if chain.len() > 0 { match chain[0] { FilterBodyActionItem::Html(h) => h.last_buffer@, _ => Seq::empty() } } else { Seq::empty() }
}
impl FilterBodyAction {
    //@@ fn src/filter/filter_body.rs :: impl FilterBodyAction / fn is_empty -> r
    //@| ensures r == (self.chain@.len() == 0),

    // ---- chain plumbing (C03 / C04): every stage is an abstract stream transformer (it_filter / it_end: uninterpreted, deterministic);
    // a chunk flows through the stages in order (stopping once nothing is left), and at end of stream each stage first consumes what the
    // previous stage flushed and is ended only afterwards
    //@@ fn src/filter/filter_body.rs :: impl FilterBodyAction / fn do_filter -> r
    //@| opt r6:0
    //@| attr #[verifier::loop_isolation(false)]
    //@| ensures r matches Ok(out) ==> filter_fold(old(self).chain@, old(self).chain@.len() as int, data@) == Some(out@),
    //@| forlabel 0: it
    //@| loopbefore 0: let ghost c0 = self.chain@; let ghost d0 = data@;
    //@| loop 0: invariant it.snapshot@.remaining().len() == c0.len(),
    //@|         forall|i: int| 0 <= i < c0.len() ==> *#[trigger] it.snapshot@.remaining()[i] == c0[i],
    //@|         iter_ok(it.history@, it.index@, it.snapshot@.remaining(), it.snapshot@.remaining()),
    //@|         filter_fold(c0, it.index@ as int, d0) == Some(data@), it.index@ >= 1 ==> data@.len() > 0,
    //@| loophead 0: proof { assert(item == it.snapshot@.remaining()[it.index@ as int]); }
    //@| before `break;`: proof { lemma_filter_fold_stop(c0, it.index@ as int + 1, c0.len() as int, d0); }

    //@@ fn src/filter/filter_body.rs :: impl FilterBodyAction / fn do_end -> r
    //@| opt r6:0
    //@| attr #[verifier::loop_isolation(false)]
    //@| ensures r matches Ok(out) ==> end_fold(old(self).chain@, old(self).chain@.len() as int) == Some(out@),
    //@|     final(self).in_error == old(self).in_error,
    //@| entry broadcast use axiom_iter_seq_vec;
    //@| forlabel 0: it
    //@| loopbefore 0: let ghost c0 = self.chain@; let ghost e0 = self.in_error;
    //@| loop 0: invariant it.snapshot@.remaining().len() == c0.len(), self.in_error == e0,
    //@|         forall|i: int| 0 <= i < c0.len() ==> *#[trigger] it.snapshot@.remaining()[i] == c0[i],
    //@|         iter_ok(it.history@, it.index@, it.snapshot@.remaining(), it.snapshot@.remaining()),
    //@|         end_fold(c0, it.index@ as int) == Some(opt_bytes(data)), data matches Some(v) ==> v@.len() > 0,
    //@| loophead 0: proof { assert(item == it.snapshot@.remaining()[it.index@ as int]); }

    //@@ fn src/filter/filter_body.rs :: impl FilterBodyAction / fn filter -> r
    //@| ensures old(self).in_error ==> r@ == data@ && final(self).in_error,
    //@|     // switching to pass-through must not drop what an earlier chunk left held back
    //@|     !old(self).in_error && final(self).in_error ==> r@ == chain_held(old(self).chain@) + data@,
    //@|     // while the chain is live the output is the chain's (so an internal failure cannot go by without switching to pass-through for the chunks to come)
    //@|     !old(self).in_error && !final(self).in_error ==> filter_fold(old(self).chain@, old(self).chain@.len() as int, data@) == Some(r@),

    // the public end(): pass-through mode yields nothing more; otherwise the flush of the whole chain (do_end's fold), and an error switches to pass-through
    //@@ fn src/filter/filter_body.rs :: impl FilterBodyAction / fn end -> r
    //@| ensures old(self).in_error ==> r@.len() == 0 && final(self).in_error,
    //@|     !old(self).in_error && !final(self).in_error ==> end_fold(old(self).chain@, old(self).chain@.len() as int) == Some(r@),
    //@|     !old(self).in_error && final(self).in_error ==> r@.len() == 0,

    // shape of the chain (C14): no inner stage -> empty; encoding absent -> inner stages; supported encoding -> Decode ++ inner ++ Encode of
    // that encoding; unsupported encoding -> EMPTY chain (filtering disabled, body passes through)
    //@@ fn src/filter/filter_body.rs :: impl FilterBodyAction / fn new -> r
    //@| forlabel 0: it
    //@| loop 0: invariant iter_ref_ok(it.history@, it.index@, it.snapshot@.remaining(), headers@),
    //@|         ostring(content_type) == last_header(headers@.take(it.index@), "content-type"@),
    //@|         ostring(content_encoding) == last_header(headers@.take(it.index@), "content-encoding"@),
    //@| loophead 0: proof { let k = it.index@; assert(headers@.take(k + 1).drop_last() =~= headers@.take(k)); assert(headers@.take(k + 1).last() == headers@[k]); assert(*header == headers@[k]); }
    //@| loopend 0: proof { assert(headers@.take(headers@.len() as int) =~= headers@); }
    //@| forlabel 1: it
    //@| loopbefore 1: let ghost fs = filters@; let ghost ct = ostring(content_type);
    //@| loop 1: invariant iter_ok(it.history@, it.index@, it.snapshot@.remaining(), fs), ostring(content_type) == ct,
    //@|         chain@ == inner_chain(fs.take(it.index@), ct),
    //@| loophead 1: proof { let k = it.index@; assert(fs.take(k + 1).drop_last() =~= fs.take(k)); assert(fs.take(k + 1).last() == fs[k]); assert(filter == fs[k]); }
    //@| loopend 1: proof { assert(fs.take(fs.len() as int) =~= fs); }
    //@| ensures !r.in_error,
    //@|     ({ let inner = inner_chain(filters@, last_header(headers@, "content-type"@)); let enc = last_header(headers@, "content-encoding"@);
    //@|        if inner.len() == 0 { r.chain@.len() == 0 }
    //@|        else { match enc {
    //@|            None => r.chain@ == inner,
    //@|            Some(e) => match supported(e) {
    //@|                None => r.chain@.len() == 0,
    //@|                Some(k) => r.chain@.len() == inner.len() + 2 && r.chain@.subrange(1, inner.len() as int + 1) == inner
    //@|                    && (r.chain@[0] matches FilterBodyActionItem::Decode(d) && dec_kind(*d) == k)
    //@|                    && (r.chain@[inner.len() as int + 1] matches FilterBodyActionItem::Encode(en) && enc_kind(*en) == k),
    //@|            } } } }),
}

// ---- PINS: functions of /repo this unit (or the property it serves) only ASSUMES something about — a hand-written shim stands for them, or nothing at
// all does. The assumption was made for one text of each; the token hash ties it to that text: a change makes the unit UNDECIDED (exit 2), never OK.
//@@ pin src/filter/html_body_action/mod.rs :: fn evaluate = 0e64c0cde686
//@@ pin src/filter/html_body_action/mod.rs :: impl HtmlBodyVisitor / fn new = da7d45bbe71e
//@@ pin src/filter/filter_body.rs :: impl FilterBodyActionItem / fn new = 1cb8947ef2f9
//@@ pin src/filter/filter_body.rs :: impl FilterBodyActionItem / fn filter = 3d0b7fbcdc45
//@@ pin src/filter/filter_body.rs :: impl FilterBodyActionItem / fn end = 3c63e1779b71
//@@ strlits
} // verus!
fn main() {}

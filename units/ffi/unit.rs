//@@ include ../common/prelude.rs
// Unit `ffi` — no function under contract. C18's string helpers are out of reach of the installed tools (Kani: foreign strlen; Verus: raw pointers);
// the property's check covers the Buffer harnesses only. The helpers are PINNED: a change to them makes C18 undecided instead of leaving it OK.
verus! {
// ---- PINS: functions of /repo this unit (or the property it serves) only ASSUMES something about — a hand-written shim stands for them, or nothing at
// all does. The assumption was made for one text of each; the token hash ties it to that text: a change makes the unit UNDECIDED (exit 2), never OK.
//@@ pin src/ffi_helpers.rs :: fn c_char_to_str = 98b611f018b0
//@@ pin src/ffi_helpers.rs :: fn string_to_c_char = a7aac37a8b6f
} // verus!
fn main() {}

//@@ include ../common/prelude.rs
// Unit `tree` — properties C08 (regex prefix tree == linear scan), C12 (cache transparency), feeds C02/C07
verus! {

// ================================================================ prefix.rs
// scanner state after k characters of a pattern: (open group depth, "previous char was an unescaped backslash")
pub open spec fn scan(p: Seq<char>, k: int) -> (int, bool)
    decreases k
{
    if k <= 0 { (0int, false) } else {
        let (g, e) = scan(p, k - 1);
        let c = p[k - 1];
        let g2 = if c == '(' && !e { g + 1 } else if c == ')' && !e { g - 1 } else { g };
        let e2 = c == '\\' && !e;
        (g2, e2)
    }
}
// k is a position where a pattern may be cut: outside every group and not between a backslash and the char it escapes
pub open spec fn boundary(p: Seq<char>, k: int) -> bool { 0 <= k <= p.len() && scan(p, k) == (0int, false) }

// a common prefix longer than the first mismatch does not exist
pub proof fn lemma_common_prefix_bound(l: Seq<char>, r: Seq<char>, i: int, m: int)
    requires 0 <= i < l.len(), i < r.len(), l[i] != r[i], 0 <= m <= l.len(), m <= r.len(), l.take(m) == r.take(m),
    ensures m <= i,
{
    if m > i { assert(l.take(m)[i] == l[i]); assert(r.take(m)[i] == r[i]); }
}
// the scanner state at k only depends on the first k characters
pub proof fn lemma_scan_prefix(p: Seq<char>, q: Seq<char>, k: int)
    requires 0 <= k <= p.len(), k <= q.len(), p.take(k) == q.take(k),
    ensures scan(p, k) == scan(q, k),
    decreases k,
{
    if k > 0 {
        assert(p.take(k - 1) =~= p.take(k).take(k - 1));
        assert(q.take(k - 1) =~= q.take(k).take(k - 1));
        lemma_scan_prefix(p, q, k - 1);
        assert(p[k - 1] == p.take(k)[k - 1]);
        assert(q[k - 1] == q.take(k)[k - 1]);
    }
}
pub proof fn lemma_chars_le_bytes(s: Seq<char>)
    ensures s.len() <= vstd::utf8::encode_utf8(s).len(),
    decreases s.len(),
{
    if s.len() > 0 {
        lemma_chars_le_bytes(s.drop_last());
        vstd::utf8::encode_utf8_concat(s.drop_last(), seq![s.last()]);
        assert(s =~= s.drop_last() + seq![s.last()]);
        assert(vstd::utf8::encode_utf8(seq![s.last()]).len() >= 1);
    }
}
pub proof fn lemma_prefix_bytes_le(s: Seq<char>, n: int)
    requires 0 <= n <= s.len(),
    ensures vstd::utf8::encode_utf8(s.take(n)).len() <= vstd::utf8::encode_utf8(s).len(),
{
    vstd::utf8::encode_utf8_concat(s.take(n), s.skip(n));
    assert(s =~= s.take(n) + s.skip(n));
}
//@@ item src/regex_radix_tree/prefix.rs :: macro_rules next_char_or_return

// R8 outlined expression: Vec<char> -> String through FromIterator (assumed: same characters)
#[verifier::external_body]
pub fn outl_collect_chars(prefix: Vec<char>) -> (r: String)
    ensures r@ == prefix@,
{
    /* verbatim: prefix.into_iter().collect() */
    prefix.into_iter().collect()
}

//@@ fn src/regex_radix_tree/prefix.rs :: fn common_prefix_char_size -> n
//@| requires left@.len() < 0x7fff_ffff,
//@| ensures n <= left@.len(), n <= right@.len(), left@.take(n as int) == right@.take(n as int), boundary(left@, n as int),
//@|     // maximal: no longer common prefix is cut at a boundary
//@|     forall|m: int| 0 <= m <= left@.len() && m <= right@.len() && left@.take(m) == right@.take(m) && boundary(left@, m) ==> m <= n,
//@| loop 0: invariant left@.len() < 0x7fff_ffff, 0 <= i <= left@.len(), i <= right@.len(),
//@|         forall|m: int| 0 <= m <= i && boundary(left@, m) ==> m <= prefix_length,
//@|         left_chars.remaining() == left@.skip(i as int), right_chars.remaining() == right@.skip(i as int),
//@|         left@.take(i as int) == right@.take(i as int),
//@|         scan(left@, i as int) == (group_level as int, was_escape), -(i as int) <= group_level <= i,
//@|         prefix_length <= i, boundary(left@, prefix_length as int), left@.take(prefix_length as int) == right@.take(prefix_length as int),
//@|     decreases left@.len() - i,
//@| before `return prefix_length;`: proof { assert(left_char == left@[i as int] && right_char == right@[i as int]); assert forall|m: int| 0 <= m <= left@.len() && m <= right@.len() && left@.take(m) == right@.take(m) && boundary(left@, m) implies m <= prefix_length by { lemma_common_prefix_bound(left@, right@, i as int, m); } }

//@@ fn src/regex_radix_tree/prefix.rs :: fn get_prefix_with_char_size -> r
//@| ensures r@ == str@.take(if size as int <= str@.len() { size as int } else { str@.len() as int }),
//@| entry proof { lit_empty(); assert(str@.take(0) =~= Seq::<char>::empty()); }
//@| loop 0: invariant _i <= str@.len(), chars.remaining() == str@.skip(_i as int), prefix@ == str@.take(_i as int),
//@| replace `Some(char) => prefix.push(char),` => `Some(char) => { proof { assert(str@.skip(_i as int).len() > 0); assert(str@.take(_i as int + 1) =~= str@.take(_i as int).push(str@[_i as int])); } prefix.push(char) }` :: ghost block inside a match arm (arm body braced; executable text unchanged)
//@| loopend 0: proof { assert(str@.take(str@.len() as int) =~= str@); }
//@| outline `prefix.into_iter().collect()`#0 => `outl_collect_chars(prefix)`
//@| outline `prefix.into_iter().collect()`#1 => `outl_collect_chars(prefix)`

//@@ fn src/regex_radix_tree/prefix.rs :: fn common_prefix -> r
//@| requires left@.len() < 0x7fff_ffff,
//@| ensures r@.len() <= left@.len(), r@.len() <= right@.len(), r@ == left@.take(r@.len() as int), r@ == right@.take(r@.len() as int), boundary(left@, r@.len() as int),
//@|     forall|m: int| 0 <= m <= left@.len() && m <= right@.len() && left@.take(m) == right@.take(m) && boundary(left@, m) ==> m <= r@.len(),

// ================================================================ regex.rs (LazyRegex) — foreign crate `regex` is a shim
use std::sync::Arc;
#[verifier::external_body]
pub struct Regex { x: u8 }
// regex crate semantics, uninterpreted (trusted, listed): a compiled Regex remembers (pattern text, case flag); is_match is a
// deterministic function of (pattern, flag, haystack); compilation succeeds iff `compilable`
pub uninterp spec fn re_pat(r: Regex) -> (Seq<char>, bool);
pub uninterp spec fn re_matches(pat: Seq<char>, ic: bool, h: Seq<char>) -> bool;
pub uninterp spec fn compilable(pat: Seq<char>, ic: bool) -> bool;
impl Regex {
    #[verifier::external_body]
    pub fn is_match(&self, haystack: &str) -> (r: bool)
        ensures r == re_matches(re_pat(*self).0, re_pat(*self).1, haystack@),
    { unimplemented!() }
}
// regex::RegexBuilder (foreign): a builder remembers (pattern, case flag); build compiles exactly that (trusted, listed)
#[verifier::external_body] pub struct RegexBuilder { x: u8 }
#[verifier::external_body] pub struct RegexError { x: u8 }
impl RegexBuilder {
    pub uninterp spec fn pat(&self) -> Seq<char>;
    pub uninterp spec fn ic(&self) -> bool;
    #[verifier::external_body] pub fn new(re: &str) -> (r: RegexBuilder) ensures r.pat() == re@, r.ic() == false { unimplemented!() }
    #[verifier::external_body] pub fn case_insensitive(&mut self, yes: bool) -> (r: &mut RegexBuilder)
        ensures final(r).pat() == old(self).pat() && final(r).ic() == yes { unimplemented!() }
    #[verifier::external_body] pub fn build(&self) -> (r: std::result::Result<Regex, RegexError>)
        ensures r.is_ok() == compilable(self.pat(), self.ic()), r matches Ok(re) ==> re_pat(re) == (self.pat(), self.ic()) { unimplemented!() }
}
//@@ item src/regex.rs :: struct LazyRegex

// R8 outlined expressions: `[a, b].join("")` / `[a, b, c].join("")` (slice join has no Verus spec; assumed: concatenation)
#[verifier::external_body]
pub fn outl_join2(a: &str, b: &str) -> (r: String) ensures r@ == a@ + b@ { /* verbatim: ["^", regex.as_str()].join("") */ [a, b].join("") }
#[verifier::external_body]
pub fn outl_join3(a: &str, b: &str, c: &str) -> (r: String) ensures r@ == a@ + b@ + c@ { /* verbatim: ["^", regex, "$"].join("") */ [a, b, c].join("") }

pub open spec fn leaf_re(p: Seq<char>) -> Seq<char> { "^"@ + p + "$"@ }
pub open spec fn node_re(p: Seq<char>) -> Seq<char> { if p.len() == 0 { ".*"@ } else { "^"@ + p } }
// what a LazyRegex answers, as a function of (original, regex, ignore_case) ONLY — no mention of `compiled` (C12)
pub open spec fn lr_match(l: LazyRegex, h: Seq<char>) -> bool {
    if l.original@.len() == 0 { true } else { compilable(l.regex@, l.ignore_case) && re_matches(l.regex@, l.ignore_case, h) }
}
// cache coherence: a cached regex is the one `create_regex` would build now
pub open spec fn lr_ok(l: LazyRegex) -> bool {
    &&& l.compiled matches Some(re) ==> re_pat(*re) == (l.regex@, l.ignore_case) && compilable(l.regex@, l.ignore_case)
    // an empty `original` only occurs for the catch-all node regex (statement of F9: a LEAF with empty pattern would break transparency)
    &&& l.original@.len() == 0 ==> l.regex@ == ".*"@
}
// AXIOM (regex semantics, trusted): ".*" compiles and matches every haystack
#[verifier::external_body]
pub proof fn axiom_dot_star()
    ensures forall|ic: bool| #[trigger] compilable(".*"@, ic), forall|ic: bool, h: Seq<char>| #[trigger] re_matches(".*"@, ic, h),
{}
pub open spec fn same_regex(a: LazyRegex, b: LazyRegex) -> bool { a.original@ == b.original@ && a.regex@ == b.regex@ && a.ignore_case == b.ignore_case }

impl LazyRegex {
    //@@ fn src/regex.rs :: impl LazyRegex / fn new_node -> r
    //@| ensures r.original@ == regex@, r.regex@ == node_re(regex@), r.ignore_case == ignore_case, r.compiled.is_none(), lr_ok(r),
    //@| outline `["^", regex.as_str()].join("")` => `outl_join2("^", regex.as_str())`
    //@| entry proof { lit_x2e2a(); }

    //@@ fn src/regex.rs :: impl LazyRegex / fn new_leaf -> r
    //@| requires regex@.len() > 0,
    //@| ensures r.original@ == regex@, r.regex@ == leaf_re(regex@), r.ignore_case == ignore_case, r.compiled.is_none(), lr_ok(r),
    //@| outline `["^", regex, "$"].join("")` => `outl_join3("^", regex, "$")`

    // the regex is built from the STORED source string with the STORED case flag (RegexBuilder is a shim, see above)
    //@@ fn src/regex.rs :: impl LazyRegex / fn create_regex -> r
    //@| ensures r.is_some() == compilable(self.regex@, self.ignore_case), r matches Some(re) ==> re_pat(*re) == (self.regex@, self.ignore_case),

    //@@ fn src/regex.rs :: impl LazyRegex / fn is_match -> r
    //@| requires lr_ok(*self),
    //@| ensures r == lr_match(*self, value@),
    //@| entry proof { axiom_dot_star(); }

    //@@ fn src/regex.rs :: impl LazyRegex / fn regex -> r
    //@| requires lr_ok(*self),
    //@| ensures r.is_some() == compilable(self.regex@, self.ignore_case), r matches Some(re) ==> re_pat(*re) == (self.regex@, self.ignore_case),

    //@@ fn src/regex.rs :: impl LazyRegex / fn compile -> r
    //@| requires lr_ok(*self),
    //@| ensures same_regex(r, *self), lr_ok(r), r.compiled.is_some() == compilable(self.regex@, self.ignore_case),
}

// ================================================================ the tree
use vstd::std_specs::hash::*;
use vstd::multiset::Multiset;
// ASSUMED (trusted, listed): String keys obey the hash-table key model (deterministic Hash consistent with Eq)
#[verifier::external_body]
pub broadcast proof fn axiom_string_key_model() ensures #[trigger] obeys_key_model::<String>() {}

//@@ item src/regex_radix_tree/leaf.rs :: struct Leaf
//@@ item src/regex_radix_tree/node.rs :: struct Node
//@@ item src/regex_radix_tree/item.rs :: enum Item

// regex semantics of the two kinds of tree regexes
pub open spec fn ML(p: Seq<char>, ic: bool, h: Seq<char>) -> bool { compilable(leaf_re(p), ic) && re_matches(leaf_re(p), ic, h) }
pub open spec fn MN(p: Seq<char>, ic: bool, h: Seq<char>) -> bool { p.len() == 0 || (compilable(node_re(p), ic) && re_matches(node_re(p), ic, h)) }
// AXIOM PREFIX (the only assumption about regex *semantics* of patterns; valid for rule patterns = escaped literals + balanced
// groups): cutting a pattern at a boundary yields a prefix pattern that matches (as a prefix) whatever the whole pattern matches
#[verifier::external_body]
pub proof fn axiom_prefix(p: Seq<char>, k: int, ic: bool, h: Seq<char>)
    requires boundary(p, k),
    ensures ML(p, ic, h) ==> MN(p.take(k), ic, h), MN(p, ic, h) ==> MN(p.take(k), ic, h),
{}
// q is a boundary prefix of p
pub open spec fn bprefix(q: Seq<char>, p: Seq<char>) -> bool { q.len() <= p.len() && q == p.take(q.len() as int) && boundary(p, q.len() as int) }

// multiset of the values of a map (std HashMap::values order is unspecified): uninterpreted, with the two defining axioms
pub uninterp spec fn vals_ms<V>(m: Map<String, V>) -> Multiset<V>;

pub open spec fn item_pat<V>(it: Item<V>) -> Seq<char> {
    match it { Item::Empty(_) => Seq::empty(), Item::Node(n) => n.regex.original@, Item::Leaf(l) => l.regex.original@ }
}
pub open spec fn item_ic<V>(it: Item<V>) -> bool {
    match it { Item::Empty(ic) => ic, Item::Node(n) => n.regex.ignore_case, Item::Leaf(l) => l.regex.ignore_case }
}
// patterns are shorter than 2^31 BYTES (domain restriction: i32 / u32 counters and the `len() as u32` cast in Node::insert)
pub open spec fn pat_ok(p: Seq<char>) -> bool { vstd::utf8::encode_utf8(p).len() < 0x7fff_ffff }
// well-formedness: regexes are leaf/node regexes of their `original`, cache coherent, one case flag throughout, every child of a
// node carries the node's prefix as a boundary prefix of its own pattern
pub open spec fn wf<V>(it: Item<V>) -> bool
    decreases it
{
    match it {
        Item::Empty(_) => true,
        Item::Leaf(l) => lr_ok(*l.regex) && l.regex.original@.len() > 0 && l.regex.regex@ == leaf_re(l.regex.original@) && pat_ok(l.regex.original@)
            && l.values@.len() > 0 && l.values@.dom().finite(),
        Item::Node(n) => {
            &&& lr_ok(*n.regex) && n.regex.regex@ == node_re(n.regex.original@) && pat_ok(n.regex.original@)
            &&& forall|i: int| 0 <= i < n.children@.len() ==> {
                    &&& wf(#[trigger] n.children@[i])
                    &&& !(n.children@[i] is Empty)
                    &&& item_ic(n.children@[i]) == n.regex.ignore_case
                    &&& bprefix(n.regex.original@, item_pat(n.children@[i]))
                }
        }
    }
}
// THE LINEAR SCAN (reference of C08): every stored value whose own anchored pattern matches the haystack — no pruning
pub open spec fn scan_match<V>(it: Item<V>, h: Seq<char>) -> Multiset<V>
    decreases it
{
    match it {
        Item::Empty(_) => Multiset::empty(),
        Item::Leaf(l) => if ML(l.regex.original@, l.regex.ignore_case, h) { vals_ms(l.values@) } else { Multiset::empty() },
        Item::Node(n) => scan_children(n.children@, h, n.children@.len() as int),
    }
}
pub open spec fn scan_children<V>(cs: Seq<Item<V>>, h: Seq<char>, k: int) -> Multiset<V>
    decreases cs, k
{
    if k <= 0 || k > cs.len() { Multiset::empty() } else { scan_children(cs, h, k - 1).add(scan_match(cs[k - 1], h)) }
}

pub open spec fn own_match<V>(it: Item<V>, h: Seq<char>) -> bool {
    match it { Item::Empty(_) => false, Item::Leaf(l) => ML(l.regex.original@, l.regex.ignore_case, h), Item::Node(n) => MN(n.regex.original@, n.regex.ignore_case, h) }
}
// PRUNING IS SOUND: below an item whose own regex does not match, the linear scan finds nothing (wf + axiom PREFIX)
pub proof fn lemma_prune<V>(it: Item<V>, h: Seq<char>)
    requires wf(it), !own_match(it, h),
    ensures scan_match(it, h) == Multiset::<V>::empty(),
    decreases it, 0int,
{
    match it {
        Item::Node(n) => { lemma_prune_children(n, h, n.children@.len() as int); }
        _ => {}
    }
}
pub proof fn lemma_prune_children<V>(n: Node<V>, h: Seq<char>, k: int)
    requires wf(Item::Node(n)), !MN(n.regex.original@, n.regex.ignore_case, h), 0 <= k <= n.children@.len(),
    ensures scan_children(n.children@, h, k) == Multiset::<V>::empty(),
    decreases n, k,
{
    if k > 0 {
        lemma_prune_children(n, h, k - 1);
        let c = n.children@[k - 1];
        assert(wf(c) && bprefix(n.regex.original@, item_pat(c)) && item_ic(c) == n.regex.ignore_case);
        axiom_prefix(item_pat(c), n.regex.original@.len() as int, n.regex.ignore_case, h);
        lemma_prune(c, h);
        assert(scan_children(n.children@, h, k - 1).add(scan_match(c, h)) =~= Multiset::<V>::empty());
    }
}
pub open spec fn refs_ms<V>(s: Seq<&V>) -> Multiset<V> { s.map_values(|x: &V| *x).to_multiset() }
pub proof fn lemma_refs_ms_add<V>(a: Seq<&V>, b: Seq<&V>)
    ensures refs_ms(a + b) == refs_ms(a).add(refs_ms(b)),
{
    assert((a + b).map_values(|x: &V| *x) =~= a.map_values(|x: &V| *x) + b.map_values(|x: &V| *x));
    vstd::seq_lib::lemma_multiset_commutative(a.map_values(|x: &V| *x), b.map_values(|x: &V| *x));
}
pub proof fn lemma_refs_ms_empty<V>()
    ensures refs_ms(Seq::<&V>::empty()) == Multiset::<V>::empty(),
{
    broadcast use vstd::seq_lib::group_to_multiset_ensures;
    assert(Seq::<&V>::empty().map_values(|x: &V| *x) =~= Seq::<V>::empty());
    let m = Seq::<V>::empty().to_multiset();
    assert(m.len() == 0);
    assert forall|v: V| m.count(v) == 0 by { if m.count(v) > 0 { assert(Seq::<V>::empty().contains(v)); } }
    assert(m =~= Multiset::<V>::empty());
}
// R8 outlined expressions (iterator adapters / generic extend): assumed std behaviour (trusted, listed)
#[verifier::external_body]
pub fn outl_values<'a, V>(values: &'a HashMap<String, V>) -> (r: Vec<&'a V>)
    ensures refs_ms(r@) == vals_ms(values@),
{ /* verbatim: self.values.values().collect() */ values.values().collect() }
#[verifier::external_body]
pub fn raw_extend<'a, V>(values: &mut Vec<&'a V>, other: Vec<&'a V>)
    ensures final(values)@ == old(values)@ + other@,
{ /* verbatim: values.extend(child.find(haystack)); | values.extend(child.get(regex)); */ values.extend(other) }
pub fn outl_extend<'a, V>(values: &mut Vec<&'a V>, other: Vec<&'a V>)
    ensures final(values)@ == old(values)@ + other@, refs_ms(final(values)@) == refs_ms(old(values)@).add(refs_ms(other@)),
{
    let ghost v0 = values@; let ghost o = other@;
    raw_extend(values, other);
    proof { lemma_refs_ms_add(v0, o); }
}

impl<V> Leaf<V> {
    //@@ fn src/regex_radix_tree/leaf.rs :: impl <V>Leaf<V> / fn find -> r
    //@| requires wf(Item::Leaf(*self)),
    //@| ensures refs_ms(r@) == scan_match(Item::Leaf(*self), haystack@),
    //@| entry proof { lemma_refs_ms_empty::<V>(); }
    //@| outline `self.values.values().collect()` => `outl_values(&self.values)`
}
impl<V> Node<V> {
    //@@ fn src/regex_radix_tree/node.rs :: impl <V>Node<V> / fn find -> r
    //@| requires wf(Item::Node(*self)),
    //@| ensures refs_ms(r@) == scan_match(Item::Node(*self), haystack@),
    //@| decreases self, 0int,
    //@| entry proof { lemma_refs_ms_empty::<V>(); if !MN(self.regex.original@, self.regex.ignore_case, haystack@) { lemma_prune(Item::Node(*self), haystack@); } }
    //@| forlabel 0: it
    //@| loop 0: invariant wf(Item::Node(*self)), iter_ref_ok(it.history@, it.index@, it.snapshot@.remaining(), self.children@),
    //@|         refs_ms(values@) == scan_children(self.children@, haystack@, it.index@),
    //@| loophead 0: proof { assert(*child == self.children@[it.index@ as int]); }
    //@| outline `values.extend(child.find(haystack));` => `outl_extend(&mut values, child.find(haystack));`
}
impl<V> Item<V> {
    //@@ fn src/regex_radix_tree/item.rs :: impl <V>Item<V> / fn find -> r
    //@| requires wf(*self),
    //@| ensures refs_ms(r@) == scan_match(*self, haystack@),
    //@| decreases self, 1int,
    //@| entry proof { lemma_refs_ms_empty::<V>(); }
}

// ---------------------------------------------------------------- explain trace of the tree (C17)
// The values a trace exposes — those listed under MATCHED trace nodes — are exactly what find returns (the linear scan).
//@@ rename Trace TreeTrace
//@@ item src/regex_radix_tree/trace.rs :: struct Trace
pub open spec fn tt_ms<V>(t: TreeTrace<V>) -> Multiset<V>
    decreases t
{ (if t.matched { refs_ms(t.values@) } else { Multiset::<V>::empty() }).add(tt_children(t.children@, t.children@.len() as int)) }
pub open spec fn tt_children<V>(cs: Seq<TreeTrace<V>>, k: int) -> Multiset<V>
    decreases cs, k
{ if k <= 0 || k > cs.len() { Multiset::empty() } else { tt_children(cs, k - 1).add(tt_ms(cs[k - 1])) } }
pub proof fn lemma_tt_children_prefix<V>(a: Seq<TreeTrace<V>>, b: Seq<TreeTrace<V>>, k: int)
    requires 0 <= k <= a.len(), k <= b.len(), forall|j: int| 0 <= j < k ==> a[j] == b[j],
    ensures tt_children(a, k) == tt_children(b, k),
    decreases k,
{ if k > 0 { lemma_tt_children_prefix(a, b, k - 1); } }
impl<V> Leaf<V> {
    //@@ fn src/regex_radix_tree/trace.rs :: impl <V>Leaf<V> / fn trace -> r
    //@| requires wf(Item::Leaf(*self)),
    //@| ensures tt_ms(r) == scan_match(Item::Leaf(*self), haystack@), r.matched == own_match(Item::Leaf(*self), haystack@),
    //@| outline `self.values.values().collect()` => `outl_values(&self.values)`
    //@| exit proof { lemma_refs_ms_empty::<V>(); assert(tt_children(vf_ret.children@, 0) =~= Multiset::<V>::empty()); assert(refs_ms(vf_ret.values@).add(Multiset::<V>::empty()) =~= refs_ms(vf_ret.values@)); assert(Multiset::<V>::empty().add(Multiset::<V>::empty()) =~= Multiset::<V>::empty()); }
}
impl<V> Node<V> {
    //@@ fn src/regex_radix_tree/trace.rs :: impl <V>Node<V> / fn trace -> r
    //@| requires wf(Item::Node(*self)), count(Item::Node(*self)) <= usize::MAX,
    //@| ensures tt_ms(r) == scan_match(Item::Node(*self), haystack@), r.matched == own_match(Item::Node(*self), haystack@),
    //@| decreases self, 0int,
    //@| entry proof { lemma_refs_ms_empty::<V>(); if !MN(self.regex.original@, self.regex.ignore_case, haystack@) { lemma_prune(Item::Node(*self), haystack@); } }
    //@| forlabel 0: it
    //@| loop 0: invariant wf(Item::Node(*self)), count(Item::Node(*self)) <= usize::MAX, iter_ref_ok(it.history@, it.index@, it.snapshot@.remaining(), self.children@), children@.len() == it.index@,
    //@|         tt_children(children@, children@.len() as int) == scan_children(self.children@, haystack@, it.index@),
    //@| loophead 0: let ghost c0 = children@; proof { assert(*child == self.children@[it.index@ as int]); lemma_count_mono(self.children@, it.index@ as int + 1, self.children@.len() as int); assert(count_children(self.children@, it.index@ as int + 1) == count_children(self.children@, it.index@ as int) + count(self.children@[it.index@ as int])); }
    //@| looptail 0: proof { assert(children@ =~= c0.push(children@.last())); lemma_tt_children_prefix(children@, c0, c0.len() as int); }
    //@| exit proof { assert(refs_ms(vf_ret.values@) =~= Multiset::<V>::empty()); assert(Multiset::<V>::empty().add(tt_children(vf_ret.children@, vf_ret.children@.len() as int)) =~= tt_children(vf_ret.children@, vf_ret.children@.len() as int)); if !vf_ret.matched { assert(tt_children(vf_ret.children@, 0) =~= Multiset::<V>::empty()); } }
}
impl<V> Item<V> {
    //@@ fn src/regex_radix_tree/trace.rs :: impl <V>Item<V> / fn trace -> r
    //@| requires wf(*self), count(*self) <= usize::MAX,
    //@| ensures tt_ms(r) == scan_match(*self, haystack@),
    //@| decreases self, 1int,
    //@| entry proof { lemma_refs_ms_empty::<V>(); }
    //@| exit proof { if *self is Empty { assert(tt_children(vf_ret.children@, 0) =~= Multiset::<V>::empty()); assert(refs_ms(vf_ret.values@) =~= Multiset::<V>::empty()); assert(Multiset::<V>::empty().add(Multiset::<V>::empty()) =~= Multiset::<V>::empty()); } }
}
//@@ unrename Trace

// ---------------------------------------------------------------- cache warm-up (C12)
// observational identity of two items: same shape, same stored values, same (original, regex, case) everywhere — `compiled` is free
pub open spec fn same_obs<V>(a: Item<V>, b: Item<V>) -> bool
    decreases a
{
    match (a, b) {
        (Item::Empty(x), Item::Empty(y)) => x == y,
        (Item::Leaf(x), Item::Leaf(y)) => x.values@ == y.values@ && same_regex(*x.regex, *y.regex),
        (Item::Node(x), Item::Node(y)) => same_regex(*x.regex, *y.regex) && x.children@.len() == y.children@.len()
            && forall|i: int| 0 <= i < x.children@.len() ==> same_obs(#[trigger] x.children@[i], y.children@[i]),
        _ => false,
    }
}
// same_obs items give the same linear-scan answer to every haystack
pub proof fn lemma_same_obs_scan<V>(a: Item<V>, b: Item<V>, h: Seq<char>)
    requires same_obs(a, b),
    ensures scan_match(a, h) == scan_match(b, h), item_pat(a) == item_pat(b), item_ic(a) == item_ic(b), (a is Empty) == (b is Empty),
    decreases a, 0int,
{
    match (a, b) {
        (Item::Node(x), Item::Node(y)) => { lemma_same_obs_children(x, y, h, x.children@.len() as int); }
        _ => {}
    }
}
pub proof fn lemma_same_obs_children<V>(x: Node<V>, y: Node<V>, h: Seq<char>, k: int)
    requires same_obs(Item::Node(x), Item::Node(y)), 0 <= k <= x.children@.len(),
    ensures scan_children(x.children@, h, k) == scan_children(y.children@, h, k),
    decreases x, k,
{
    if k > 0 {
        lemma_same_obs_children(x, y, h, k - 1);
        lemma_same_obs_scan(x.children@[k - 1], y.children@[k - 1], h);
    }
}

pub proof fn lemma_same_obs_refl<V>(a: Item<V>)
    ensures same_obs(a, a),
    decreases a,
{
    match a {
        Item::Node(x) => { assert forall|i: int| 0 <= i < x.children@.len() implies same_obs(#[trigger] x.children@[i], x.children@[i]) by { lemma_same_obs_refl(x.children@[i]); } }
        _ => {}
    }
}
// facts about an item that same_obs preserves (used to rebuild wf of a parent)
pub proof fn lemma_same_obs_facts<V>(a: Item<V>, b: Item<V>)
    requires same_obs(a, b),
    ensures item_pat(a) == item_pat(b), item_ic(a) == item_ic(b), (a is Empty) == (b is Empty),
{}

impl<V> Leaf<V> {
    //@@ fn src/regex_radix_tree/leaf.rs :: impl <V>Leaf<V> / fn cache -> r
    //@| requires wf(Item::Leaf(*old(self))), left >= 1,
    //@| ensures wf(Item::Leaf(*final(self))), same_obs(Item::Leaf(*final(self)), Item::Leaf(*old(self))), r <= left,
}

impl<V> Node<V> {
    //@@ fn src/regex_radix_tree/node.rs :: impl <V>Node<V> / fn cache -> r
    //@| opt r6:0
    //@| requires wf(Item::Node(*old(self))), left >= 1, current_level <= cache_level, cache_level < u64::MAX,
    //@| ensures wf(Item::Node(*final(self))), same_obs(Item::Node(*final(self)), Item::Node(*old(self))), r <= left,
    //@| decreases *old(self), 0int,
    //@| attr #[verifier::loop_isolation(false)]
    //@| entry let ghost left0 = left;
    //@| forlabel 0: it
    //@| loopbefore 0: let ghost c0 = self.children@;
    //@| loop 0: invariant it.snapshot@.remaining().len() == c0.len(), left <= left0,
    //@|         forall|i: int| 0 <= i < c0.len() ==> *#[trigger] it.snapshot@.remaining()[i] == c0[i],
    //@|         iter_ok(it.history@, it.index@, it.snapshot@.remaining(), it.snapshot@.remaining()),
    //@|         forall|i: int| 0 <= i < it.index@ ==> wf(*final(#[trigger] it.snapshot@.remaining()[i])) && same_obs(*final(it.snapshot@.remaining()[i]), c0[i]),
    //@| loophead 0: proof { assert(child == it.snapshot@.remaining()[it.index@ as int]); }
}
impl<V> Item<V> {
    //@@ fn src/regex_radix_tree/item.rs :: impl <V>Item<V> / fn cache -> r
    //@| requires wf(*old(self)), cache_level < u64::MAX,
    //@| ensures wf(*final(self)), same_obs(*final(self), *old(self)), r <= left,
    //@| decreases *old(self), 1int,
    //@| entry proof { lemma_same_obs_refl(*self); }
}

// ================================================================ stored content and mutators (C08 rest, C02)
pub type LeafV<V> = (Seq<char>, Map<String, V>);
// the stored content: one (pattern, id -> value map) per leaf, as a multiset (tree shape and child order are irrelevant)
pub open spec fn leaves_ms<V>(it: Item<V>) -> Multiset<LeafV<V>>
    decreases it
{
    match it {
        Item::Empty(_) => Multiset::empty(),
        Item::Leaf(l) => Multiset::singleton((l.regex.original@, l.values@)),
        Item::Node(n) => leaves_children(n.children@, n.children@.len() as int),
    }
}
pub open spec fn leaves_children<V>(cs: Seq<Item<V>>, k: int) -> Multiset<LeafV<V>>
    decreases cs, k
{ if k <= 0 || k > cs.len() { Multiset::empty() } else { leaves_children(cs, k - 1).add(leaves_ms(cs[k - 1])) } }
// number of stored values
pub open spec fn count<V>(it: Item<V>) -> nat
    decreases it
{
    match it { Item::Empty(_) => 0, Item::Leaf(l) => l.values@.len(), Item::Node(n) => count_children(n.children@, n.children@.len() as int) }
}
pub open spec fn count_children<V>(cs: Seq<Item<V>>, k: int) -> nat
    decreases cs, k
{ if k <= 0 || k > cs.len() { 0 } else { count_children(cs, k - 1) + count(cs[k - 1]) } }

impl<V> Leaf<V> {
    //@@ fn src/regex_radix_tree/leaf.rs :: impl <V>Leaf<V> / fn len -> r
    //@| ensures r == count(Item::Leaf(*self)),
    //@| entry broadcast use vstd::std_specs::hash::group_hash_axioms; broadcast use axiom_string_key_model;

    //@@ fn src/regex_radix_tree/leaf.rs :: impl <V>Leaf<V> / fn is_empty -> r
    //@| ensures r == (count(Item::Leaf(*self)) == 0),
    //@| entry broadcast use vstd::std_specs::hash::group_hash_axioms; broadcast use axiom_string_key_model;

    //@@ fn src/regex_radix_tree/leaf.rs :: impl <V>Leaf<V> / fn regex -> r
    //@| ensures r@ == self.regex.original@,
}
impl<V> Node<V> {
    //@@ fn src/regex_radix_tree/node.rs :: impl <V>Node<V> / fn len -> r
    //@| requires count(Item::Node(*self)) <= usize::MAX,
    //@| ensures r == count(Item::Node(*self)),
    //@| decreases self, 0int,
    //@| forlabel 0: it
    //@| loop 0: invariant iter_ref_ok(it.history@, it.index@, it.snapshot@.remaining(), self.children@), count == count_children(self.children@, it.index@),
    //@|         count_children(self.children@, self.children@.len() as int) <= usize::MAX,
    //@| loophead 0: proof { assert(*child == self.children@[it.index@ as int]); lemma_count_mono(self.children@, it.index@ + 1, self.children@.len() as int); }

    //@@ fn src/regex_radix_tree/node.rs :: impl <V>Node<V> / fn is_empty -> r
    //@| ensures r == (count(Item::Node(*self)) == 0),
    //@| decreases self, 0int,
    //@| forlabel 0: it
    //@| loop 0: invariant iter_ref_ok(it.history@, it.index@, it.snapshot@.remaining(), self.children@), count_children(self.children@, it.index@) == 0,
    //@| loophead 0: proof { assert(*child == self.children@[it.index@ as int]); }
    //@| before `return false;`: proof { lemma_count_mono(self.children@, it.index@ + 1, self.children@.len() as int); }

    //@@ fn src/regex_radix_tree/node.rs :: impl <V>Node<V> / fn regex -> r
    //@| ensures r@ == self.regex.original@,
}
pub proof fn lemma_count_mono<V>(cs: Seq<Item<V>>, a: int, b: int)
    requires 0 <= a <= b <= cs.len(),
    ensures count_children(cs, a) <= count_children(cs, b),
    decreases b - a,
{ if a < b { lemma_count_mono(cs, a, b - 1); } }
impl<V> Item<V> {
    //@@ fn src/regex_radix_tree/item.rs :: impl <V>Item<V> / fn len -> r
    //@| requires count(*self) <= usize::MAX,
    //@| ensures r == count(*self),
    //@| decreases self, 1int,

    //@@ fn src/regex_radix_tree/item.rs :: impl <V>Item<V> / fn is_empty -> r
    //@| ensures r == (count(*self) == 0),
    //@| decreases self, 1int,

    //@@ fn src/regex_radix_tree/item.rs :: impl <V>Item<V> / fn regex -> r
    //@| ensures r@ == item_pat(*self),
    //@| entry proof { lit_empty(); }
}

// ---------------------------------------------------------------- insert
pub open spec fn ins_law<V>(old: Multiset<LeafV<V>>, new: Multiset<LeafV<V>>, p: Seq<char>, id: String, v: V) -> bool {
    // the value is stored into an existing leaf of that pattern (replacing a previous value of the same id) ...
    (exists|m: Map<String, V>| #[trigger] old.count((p, m)) > 0 && new == old.remove((p, m)).insert((p, m.insert(id, v))))
    // ... or a new leaf holding just this value is added; nothing else changes
    || new == old.insert((p, Map::<String, V>::empty().insert(id, v)))
}
// ---------------------------------------------------------------- one leaf per pattern (C08: "storing a value under an existing (pattern, id) replaces it")
// The tree keeps at most one leaf per pattern. That is an invariant of the SHAPE (an insertion finds the existing leaf only if the descent
// cannot miss it), so the shape facts the descent relies on are part of it:
//   I0  a node's prefix ends at a boundary of itself;
//   I1  a child that is a node has a strictly longer prefix than its parent;
//   I3  two children of a node share no boundary prefix longer than the node's prefix.
pub open spec fn sib_apart<V>(cs: Seq<Item<V>>, o: Seq<char>) -> bool {
    forall|i: int, j: int, q: Seq<char>| 0 <= i < cs.len() && 0 <= j < cs.len() && i != j && #[trigger] bprefix(q, item_pat(cs[i])) && #[trigger] bprefix(q, item_pat(cs[j])) ==> q.len() <= o.len()
}
pub open spec fn tight<V>(it: Item<V>) -> bool
    decreases it
{
    match it {
        Item::Node(n) => {
            &&& boundary(n.regex.original@, n.regex.original@.len() as int)
            &&& forall|i: int| 0 <= i < n.children@.len() ==> tight(#[trigger] n.children@[i]) && (n.children@[i] is Node ==> item_pat(n.children@[i]).len() > n.regex.original@.len())
            &&& sib_apart(n.children@, n.regex.original@)
        }
        _ => true,
    }
}
pub open spec fn has_pat<V>(ms: Multiset<LeafV<V>>, p: Seq<char>) -> bool { exists|m: Map<String, V>| #[trigger] ms.count((p, m)) > 0 }
pub open spec fn uniq_pats<V>(ms: Multiset<LeafV<V>>) -> bool {
    forall|p: Seq<char>, m1: Map<String, V>, m2: Map<String, V>| #[trigger] ms.count((p, m1)) > 0 && #[trigger] ms.count((p, m2)) > 0 ==> m1 == m2 && ms.count((p, m1)) == 1
}
pub open spec fn good<V>(it: Item<V>) -> bool { tight(it) && uniq_pats(leaves_ms(it)) }
// the insertion law with the replace clause: a NEW leaf appears only when no leaf carries the pattern yet
pub open spec fn ins_law2<V>(old: Multiset<LeafV<V>>, new: Multiset<LeafV<V>>, p: Seq<char>, id: String, v: V) -> bool {
    (exists|m: Map<String, V>| #[trigger] old.count((p, m)) > 0 && new == old.remove((p, m)).insert((p, m.insert(id, v))))
    || (!has_pat(old, p) && new == old.insert((p, Map::<String, V>::empty().insert(id, v))))
}
pub open spec fn pre_or_eq(a: Seq<char>, b: Seq<char>) -> bool { a == b || bprefix(a, b) }

pub proof fn lemma_uniq_ins<V>(old: Multiset<LeafV<V>>, new: Multiset<LeafV<V>>, p: Seq<char>, id: String, v: V)
    requires uniq_pats(old), ins_law2(old, new, p, id, v),
    ensures uniq_pats(new),
{
    if exists|m: Map<String, V>| #[trigger] old.count((p, m)) > 0 && new == old.remove((p, m)).insert((p, m.insert(id, v))) {
        let m = choose|m: Map<String, V>| #[trigger] old.count((p, m)) > 0 && new == old.remove((p, m)).insert((p, m.insert(id, v)));
        let m2 = m.insert(id, v);
        assert(old.count((p, m)) == 1);
        assert forall|q: Seq<char>, a: Map<String, V>, b: Map<String, V>| #[trigger] new.count((q, a)) > 0 && #[trigger] new.count((q, b)) > 0 implies a == b && new.count((q, a)) == 1 by {
            if q == p {
                if a != m2 { assert(old.count((q, a)) > 0); assert(a == m); assert(new.count((q, a)) == 0) by { assert(old.remove((p, m)).count((p, m)) == 0); } }
                if b != m2 { assert(old.count((q, b)) > 0); assert(b == m); assert(new.count((q, b)) == 0) by { assert(old.remove((p, m)).count((p, m)) == 0); } }
                if m2 != m { assert(old.count((p, m2)) == 0) by { if old.count((p, m2)) > 0 { assert(m2 == m); } } }
            } else {
                assert(old.count((q, a)) > 0 && old.count((q, b)) > 0);
            }
        }
    } else {
        let nl = (p, Map::<String, V>::empty().insert(id, v));
        assert forall|q: Seq<char>, a: Map<String, V>, b: Map<String, V>| #[trigger] new.count((q, a)) > 0 && #[trigger] new.count((q, b)) > 0 implies a == b && new.count((q, a)) == 1 by {
            if q == p {
                if (q, a) != nl { assert(old.count((p, a)) > 0); }
                if (q, b) != nl { assert(old.count((p, b)) > 0); }
                assert(old.count(nl) == 0) by { if old.count(nl) > 0 { assert(old.count((p, nl.1)) > 0); } }
            } else {
                assert(old.count((q, a)) > 0 && old.count((q, b)) > 0);
            }
        }
    }
}
pub proof fn lemma_uniq_sub<V>(a: Multiset<LeafV<V>>, b: Multiset<LeafV<V>>)
    requires uniq_pats(a.add(b)),
    ensures uniq_pats(a), uniq_pats(b), forall|p: Seq<char>| !(has_pat(a, p) && has_pat(b, p)),
{
    let t = a.add(b);
    assert forall|p: Seq<char>, m1: Map<String, V>, m2: Map<String, V>| #[trigger] a.count((p, m1)) > 0 && #[trigger] a.count((p, m2)) > 0 implies m1 == m2 && a.count((p, m1)) == 1 by { assert(t.count((p, m1)) > 0 && t.count((p, m2)) > 0); }
    assert forall|p: Seq<char>, m1: Map<String, V>, m2: Map<String, V>| #[trigger] b.count((p, m1)) > 0 && #[trigger] b.count((p, m2)) > 0 implies m1 == m2 && b.count((p, m1)) == 1 by { assert(t.count((p, m1)) > 0 && t.count((p, m2)) > 0); }
    assert forall|p: Seq<char>| !(has_pat(a, p) && has_pat(b, p)) by {
        if has_pat(a, p) && has_pat(b, p) {
            let m1 = choose|m: Map<String, V>| #[trigger] a.count((p, m)) > 0; let m2 = choose|m: Map<String, V>| #[trigger] b.count((p, m)) > 0;
            assert(t.count((p, m1)) > 0 && t.count((p, m2)) > 0);
            assert(m1 == m2 && t.count((p, m1)) == 1);
        }
    }
}
pub proof fn lemma_ins_law2_lift<V>(rest: Multiset<LeafV<V>>, c0: Multiset<LeafV<V>>, c1: Multiset<LeafV<V>>, p: Seq<char>, id: String, v: V)
    requires ins_law2(c0, c1, p, id, v), !has_pat(rest, p),
    ensures ins_law2(rest.add(c0), rest.add(c1), p, id, v),
{
    if exists|m: Map<String, V>| #[trigger] c0.count((p, m)) > 0 && c1 == c0.remove((p, m)).insert((p, m.insert(id, v))) {
        let m = choose|m: Map<String, V>| #[trigger] c0.count((p, m)) > 0 && c1 == c0.remove((p, m)).insert((p, m.insert(id, v)));
        assert(rest.add(c0).count((p, m)) > 0);
        assert(rest.add(c1) =~= rest.add(c0).remove((p, m)).insert((p, m.insert(id, v))));
    } else {
        assert(rest.add(c1) =~= rest.add(c0).insert((p, Map::<String, V>::empty().insert(id, v))));
        assert(!has_pat(rest.add(c0), p)) by {
            if has_pat(rest.add(c0), p) { let m = choose|m: Map<String, V>| #[trigger] rest.add(c0).count((p, m)) > 0; assert(rest.count((p, m)) > 0 || c0.count((p, m)) > 0); }
        }
    }
}
// a leaf found among the first k children sits below one of them
pub proof fn lemma_children_has<V>(cs: Seq<Item<V>>, k: int, lf: LeafV<V>)
    requires 0 <= k <= cs.len(), leaves_children(cs, k).count(lf) > 0,
    ensures exists|j: int| 0 <= j < k && leaves_ms(#[trigger] cs[j]).count(lf) > 0,
    decreases k,
{
    if k > 0 {
        if leaves_ms(cs[k - 1]).count(lf) > 0 { } else { lemma_children_has(cs, k - 1, lf); let j = choose|j: int| 0 <= j < k - 1 && leaves_ms(#[trigger] cs[j]).count(lf) > 0; assert(0 <= j < k); }
    }
}
pub proof fn lemma_children_count_ge<V>(cs: Seq<Item<V>>, k: int, j: int, lf: LeafV<V>)
    requires 0 <= j < k <= cs.len(),
    ensures leaves_children(cs, k).count(lf) >= leaves_ms(cs[j]).count(lf),
    decreases k,
{ if j < k - 1 { lemma_children_count_ge(cs, k - 1, j, lf); } }
pub proof fn lemma_children_count_ge2<V>(cs: Seq<Item<V>>, k: int, i: int, j: int, lf: LeafV<V>)
    requires 0 <= i < j < k <= cs.len(),
    ensures leaves_children(cs, k).count(lf) >= leaves_ms(cs[i]).count(lf) + leaves_ms(cs[j]).count(lf),
    decreases k,
{ if j < k - 1 { lemma_children_count_ge2(cs, k - 1, i, j, lf); } else { lemma_children_count_ge(cs, k - 1, i, lf); } }
// every leaf below an item extends the item's pattern
pub proof fn lemma_leaves_prefix<V>(it: Item<V>, lf: LeafV<V>)
    requires wf(it), leaves_ms(it).count(lf) > 0,
    ensures pre_or_eq(item_pat(it), lf.0), it is Leaf ==> lf.0 == item_pat(it), it is Node ==> bprefix(item_pat(it), lf.0),
    decreases it,
{
    match it {
        Item::Node(n) => {
            lemma_children_has(n.children@, n.children@.len() as int, lf);
            let j = choose|j: int| 0 <= j < n.children@.len() && leaves_ms(#[trigger] n.children@[j]).count(lf) > 0;
            let c = n.children@[j];
            assert(wf(c) && bprefix(n.regex.original@, item_pat(c)));
            lemma_leaves_prefix(c, lf);
            if item_pat(c) != lf.0 { lemma_bprefix_trans(n.regex.original@, item_pat(c), lf.0); }
        }
        _ => {}
    }
}
// a boundary prefix of p, cut to a shorter boundary of p, is a boundary prefix of anything sharing that much of p
pub proof fn lemma_bprefix_share(p: Seq<char>, c: Seq<char>, m: int, k: int)
    requires 0 <= k <= m <= p.len(), m <= c.len(), p.take(m) == c.take(m), boundary(p, k),
    ensures bprefix(p.take(k), c), bprefix(p.take(k), p),
{
    assert(p.take(k) =~= p.take(m).take(k)); assert(c.take(k) =~= c.take(m).take(k));
    lemma_scan_prefix(p, c, k);
}
pub open spec fn shares(p: Seq<char>, c: Seq<char>, mm: int) -> bool { 0 <= mm <= p.len() && mm <= c.len() && p.take(mm) == c.take(mm) && boundary(p, mm) }
pub open spec fn eqsel<V>(sel: Option<usize>, cs: Seq<Item<V>>, p: Seq<char>) -> bool { match sel { Some(k) => k < cs.len() && item_pat(cs[k as int]) == p, None => false } }
pub open spec fn none_eq<V>(cs: Seq<Item<V>>, n: int, p: Seq<char>) -> bool { forall|j: int| 0 <= j < n ==> item_pat(#[trigger] cs[j]) != p }
pub open spec fn caps<V>(cs: Seq<Item<V>>, n: int, p: Seq<char>, mm: int) -> bool {
    forall|j: int, q: Seq<char>| 0 <= j < n && bprefix(q, p) && #[trigger] bprefix(q, item_pat(cs[j])) ==> q.len() <= mm
}
// one more child examined: its common boundary prefix with p is at most `sz` (postcondition of common_prefix_char_size), the maximum only grows
pub proof fn lemma_caps_step<V>(cs: Seq<Item<V>>, n: int, p: Seq<char>, m0: int, m1: int, sz: int)
    requires caps(cs, n, p, m0), m0 <= m1, sz <= m1, 0 <= n < cs.len(),
        forall|m: int| 0 <= m <= p.len() && m <= item_pat(cs[n]).len() && p.take(m) == item_pat(cs[n]).take(m) && boundary(p, m) ==> m <= sz,
    ensures caps(cs, n + 1, p, m1),
{
    assert forall|j: int, q: Seq<char>| 0 <= j < n + 1 && bprefix(q, p) && #[trigger] bprefix(q, item_pat(cs[j])) implies q.len() <= m1 by {
        if j == n { assert(p.take(q.len() as int) == item_pat(cs[n]).take(q.len() as int)); }
    }
}
// R8 outlined expression: number of characters of a String (assumed: chars() yields the characters of the view)
#[verifier::external_body]
pub fn outl_char_count(s: &String) -> (r: usize)
    ensures r == s@.len(),
{ /* verbatim: self.regex.original.chars().count() */ s.chars().count() }
// NONE CASE of Node::insert: no child shares more than the node's prefix with p and none carries p itself => no leaf below carries p
pub proof fn lemma_none_case<V>(n: Node<V>, p: Seq<char>)
    requires wf(Item::Node(n)), tight(Item::Node(n)),
        forall|j: int| 0 <= j < n.children@.len() ==> item_pat(#[trigger] n.children@[j]) != p,
        forall|j: int, q: Seq<char>| 0 <= j < n.children@.len() && bprefix(q, p) && #[trigger] bprefix(q, item_pat(n.children@[j])) ==> q.len() <= n.regex.original@.len(),
    ensures !has_pat(leaves_ms(Item::Node(n)), p),
{
    let cs = n.children@; let o = n.regex.original@;
    if has_pat(leaves_ms(Item::Node(n)), p) {
        let m = choose|m: Map<String, V>| #[trigger] leaves_ms(Item::Node(n)).count((p, m)) > 0;
        lemma_children_has(cs, cs.len() as int, (p, m));
        let j = choose|j: int| 0 <= j < cs.len() && leaves_ms(#[trigger] cs[j]).count((p, m)) > 0;
        let c = cs[j];
        assert(wf(c) && tight(c));
        lemma_leaves_prefix(c, (p, m));
        assert(item_pat(c) != p);
        assert(c is Node);
        // I0: the child node's prefix is a boundary prefix of itself, hence a common boundary prefix of p and of the child
        assert(item_pat(c).take(item_pat(c).len() as int) =~= item_pat(c));
        assert(bprefix(item_pat(c), item_pat(c)));
        assert(item_pat(c).len() <= o.len());
        assert(false);
    }
}
// SOME CASE: the chosen child k either carries p itself, or shares M > |prefix| characters with p while no child carries p itself
pub open spec fn chosen_ok<V>(cs: Seq<Item<V>>, o: Seq<char>, p: Seq<char>, k: int, mm: int) -> bool {
    0 <= k < cs.len() && (item_pat(cs[k]) == p
        || (mm > o.len() && mm <= p.len() && mm <= item_pat(cs[k]).len() && p.take(mm) == item_pat(cs[k]).take(mm) && boundary(p, mm)
            && forall|j: int| 0 <= j < cs.len() ==> item_pat(#[trigger] cs[j]) != p))
}
pub proof fn lemma_some_case<V>(n: Node<V>, p: Seq<char>, k: int, mm: int)
    requires wf(Item::Node(n)), good(Item::Node(n)), chosen_ok(n.children@, n.regex.original@, p, k, mm),
    ensures !has_pat(leaves_children(n.children@.remove(k), n.children@.len() - 1), p),
{
    let cs = n.children@; let o = n.regex.original@; let rest = cs.remove(k);
    if has_pat(leaves_children(rest, cs.len() - 1), p) {
        let m = choose|m: Map<String, V>| #[trigger] leaves_children(rest, cs.len() - 1).count((p, m)) > 0;
        lemma_children_has(rest, cs.len() - 1, (p, m));
        let jr = choose|j: int| 0 <= j < rest.len() && leaves_ms(#[trigger] rest[j]).count((p, m)) > 0;
        let j = if jr < k { jr } else { jr + 1 };
        let c = cs[j]; let ck = cs[k];
        assert(rest[jr] == c && j != k);
        assert(wf(c) && tight(c) && wf(ck) && tight(ck));
        assert(bprefix(o, item_pat(c)) && bprefix(o, item_pat(ck)));
        lemma_leaves_prefix(c, (p, m));
        let pc = item_pat(c); let lc = pc.len() as int;
        if item_pat(ck) == p {
            // c's prefix is a prefix of p == ck's pattern
            if pc == p {
                // two children with pattern p: both are leaves (I1 + I3 exclude nodes) holding a leaf (p, .) each
                assert(c is Leaf) by { if c is Node { assert(pc.take(lc) =~= pc); assert(bprefix(pc, pc) && bprefix(pc, item_pat(ck))); } }
                assert(ck is Leaf) by { if ck is Node { assert(p.take(p.len() as int) =~= p); assert(bprefix(p, item_pat(ck)) && bprefix(p, pc)); } }
                let mk = ck->Leaf_0.values@;
                assert(leaves_ms(ck).count((p, mk)) > 0);
                if j < k { lemma_children_count_ge2(cs, cs.len() as int, j, k, (p, m)); lemma_children_count_ge(cs, cs.len() as int, k, (p, mk)); }
                else { lemma_children_count_ge2(cs, cs.len() as int, k, j, (p, m)); lemma_children_count_ge(cs, cs.len() as int, k, (p, mk)); }
                lemma_children_count_ge(cs, cs.len() as int, j, (p, m));
                let t = leaves_ms(Item::Node(n));
                assert(t.count((p, m)) > 0 && t.count((p, mk)) > 0);
                assert(m == mk && t.count((p, m)) == 1);
                assert(false);
            } else {
                assert(bprefix(pc, p));
                assert(c is Node);
                assert(pc.take(lc) =~= pc);
                assert(boundary(pc, lc));
                assert(bprefix(pc, pc) && bprefix(pc, item_pat(ck)));
                assert(lc <= o.len());
                assert(false);
            }
        } else {
            assert(pc != p);
            assert(bprefix(pc, p) && c is Node);
            let l = if lc <= mm { lc } else { mm };
            assert(boundary(p, lc));
            lemma_bprefix_share(p, item_pat(ck), mm, l);
            assert(pc == p.take(lc));
            if lc <= mm {
                assert(p.take(l) == pc);
                assert(pc.take(lc) =~= pc);
                assert(boundary(pc, lc));
                assert(bprefix(pc, pc));
                assert(bprefix(p.take(l), pc) && bprefix(p.take(l), item_pat(ck)));
                assert(lc <= o.len());
            } else {
                assert(pc.take(mm) =~= p.take(lc).take(mm)); assert(p.take(lc).take(mm) =~= p.take(mm));
                lemma_scan_prefix(p, pc, mm);
                assert(bprefix(p.take(mm), pc) && bprefix(p.take(mm), item_pat(ck)));
                assert(p.take(mm).len() <= o.len());
            }
            assert(false);
        }
    }
}
// the shape invariant after re-attaching the modified child at the end
pub proof fn lemma_tight_replace<V>(n: Node<V>, k: int, c1: Item<V>, n2: Node<V>)
    requires wf(Item::Node(n)), tight(Item::Node(n)), 0 <= k < n.children@.len(), n2.regex.original@ == n.regex.original@, n2.children@ == n.children@.remove(k).push(c1),
        tight(c1), pre_or_eq(item_pat(c1), item_pat(n.children@[k])), c1 is Node ==> item_pat(c1).len() > n.regex.original@.len(),
    ensures tight(Item::Node(n2)),
{
    let cs = n.children@; let o = n.regex.original@; let cs2 = n2.children@; let rest = cs.remove(k);
    assert forall|i: int| 0 <= i < cs2.len() implies tight(#[trigger] cs2[i]) && (cs2[i] is Node ==> item_pat(cs2[i]).len() > o.len()) by {
        if i < rest.len() { if i < k { assert(cs2[i] == cs[i]); } else { assert(cs2[i] == cs[i + 1]); } }
    }
    assert forall|i: int, j: int, q: Seq<char>| 0 <= i < cs2.len() && 0 <= j < cs2.len() && i != j && #[trigger] bprefix(q, item_pat(cs2[i])) && #[trigger] bprefix(q, item_pat(cs2[j])) implies q.len() <= o.len() by {
        let oi = if i == rest.len() { k } else if i < k { i } else { i + 1 };
        let oj = if j == rest.len() { k } else if j < k { j } else { j + 1 };
        assert(oi != oj);
        if i == rest.len() { if item_pat(c1) != item_pat(cs[k]) { lemma_bprefix_trans(q, item_pat(c1), item_pat(cs[k])); } } else { assert(cs2[i] == cs[oi]); }
        if j == rest.len() { if item_pat(c1) != item_pat(cs[k]) { lemma_bprefix_trans(q, item_pat(c1), item_pat(cs[k])); } } else { assert(cs2[j] == cs[oj]); }
        assert(bprefix(q, item_pat(cs[oi])) && bprefix(q, item_pat(cs[oj])));
    }
}
// ... and after appending a new leaf that shares no more than the node's prefix with any child
pub proof fn lemma_tight_push<V>(n: Node<V>, leaf: Item<V>, n2: Node<V>)
    requires tight(Item::Node(n)), leaf is Leaf, n2.regex.original@ == n.regex.original@, n2.children@ == n.children@.push(leaf),
        forall|j: int, q: Seq<char>| 0 <= j < n.children@.len() && bprefix(q, item_pat(leaf)) && #[trigger] bprefix(q, item_pat(n.children@[j])) ==> q.len() <= n.regex.original@.len(),
    ensures tight(Item::Node(n2)),
{
    let cs = n.children@; let o = n.regex.original@; let cs2 = n2.children@;
    assert forall|i: int| 0 <= i < cs2.len() implies tight(#[trigger] cs2[i]) && (cs2[i] is Node ==> item_pat(cs2[i]).len() > o.len()) by {
        if i < cs.len() { assert(cs2[i] == cs[i]); }
    }
    assert forall|i: int, j: int, q: Seq<char>| 0 <= i < cs2.len() && 0 <= j < cs2.len() && i != j && #[trigger] bprefix(q, item_pat(cs2[i])) && #[trigger] bprefix(q, item_pat(cs2[j])) implies q.len() <= o.len() by {
        if i < cs.len() { assert(cs2[i] == cs[i]); }
        if j < cs.len() { assert(cs2[j] == cs[j]); }
    }
}
// the two-child node built by a split: tight when the two patterns share no boundary prefix longer than `prefix`
pub proof fn lemma_pair_tight<V>(a: Item<V>, b: Item<V>, prefix: Seq<char>, ic: bool)
    requires tight(a), tight(b), boundary(prefix, prefix.len() as int),
        a is Node ==> item_pat(a).len() > prefix.len(), b is Node ==> item_pat(b).len() > prefix.len(),
        forall|q: Seq<char>| bprefix(q, item_pat(a)) && bprefix(q, item_pat(b)) ==> q.len() <= prefix.len(),
    ensures forall|n: Node<V>| #![trigger tight(Item::Node(n))] is_pair_node(n, a, b, prefix, ic) ==> tight(Item::Node(n)),
{
    assert forall|n: Node<V>| is_pair_node(n, a, b, prefix, ic) implies #[trigger] tight(Item::Node(n)) by {
        let cs = n.children@;
        assert forall|i: int| 0 <= i < cs.len() implies tight(#[trigger] cs[i]) && (cs[i] is Node ==> item_pat(cs[i]).len() > prefix.len()) by { if i == 0 {} else { assert(i == 1); } }
        assert forall|i: int, j: int, q: Seq<char>| 0 <= i < cs.len() && 0 <= j < cs.len() && i != j && #[trigger] bprefix(q, item_pat(cs[i])) && #[trigger] bprefix(q, item_pat(cs[j])) implies q.len() <= prefix.len() by {
            if i == 0 { assert(j == 1); } else { assert(i == 1 && j == 0); }
        }
    }
}
pub open spec fn ins_post<V>(old: Item<V>, r: Item<V>, p: Seq<char>, id: String, v: V) -> bool {
    &&& wf(r) && !(r is Empty) && item_ic(r) == item_ic(old)
    &&& ins_law(leaves_ms(old), leaves_ms(r), p, id, v)
    &&& count(r) <= count(old) + 1
    // any common boundary prefix of the old item and of the new pattern is still a boundary prefix of the result's pattern
    &&& forall|q: Seq<char>| (old is Empty || bprefix(q, item_pat(old))) && bprefix(q, p) ==> #[trigger] bprefix(q, item_pat(r))
    // the result's pattern is the old one or a boundary prefix of it; a leaf carrying exactly p stays that leaf
    &&& old is Empty || pre_or_eq(item_pat(r), item_pat(old))
    &&& (old is Leaf && item_pat(old) == p) ==> r is Leaf
    // ONE LEAF PER PATTERN is preserved, and then the value goes into the existing leaf of that pattern whenever there is one
    &&& good(old) ==> good(r) && ins_law2(leaves_ms(old), leaves_ms(r), p, id, v)
}
pub assume_specification [std::string::String::len] (s: &std::string::String) -> (r: usize) ensures r == vstd::utf8::encode_utf8(s@).len();
pub assume_specification [<str as PartialEq>::eq] (a: &str, b: &str) -> (r: bool) ensures r == (a@ == b@);

impl<V> Leaf<V> {
    //@@ fn src/regex_radix_tree/leaf.rs :: impl <V>Leaf<V> / fn new -> r
    //@| requires regex@.len() > 0, pat_ok(regex@),
    //@| ensures wf(Item::Leaf(r)), r.regex.original@ == regex@, r.regex.ignore_case == ignore_case, r.values@ == Map::<String, V>::empty().insert(id, item),
    //@| entry broadcast use vstd::std_specs::hash::group_hash_axioms; broadcast use axiom_string_key_model;

    //@@ fn src/regex_radix_tree/leaf.rs :: impl <V>Leaf<V> / fn insert -> r
    //@| requires wf(Item::Leaf(self)), regex@.len() > 0, pat_ok(regex@),
    //@| ensures ins_post(Item::Leaf(self), r, regex@, id, item),
    //@| entry broadcast use vstd::std_specs::hash::group_hash_axioms; broadcast use axiom_string_key_model;
    //@|     let ghost old_it = Item::Leaf(self); let ghost p0 = self.regex.original@; let ghost m0 = self.values@; let ghost p = regex@;
    //@|     proof { lemma_chars_le_bytes(p0); lemma_chars_le_bytes(p); }
    //@| before `return Item::Leaf(self);`: proof {
    //@|     let ms0 = leaves_ms(old_it); let ms1 = leaves_ms(Item::Leaf(this));
    //@|     assert(ms0.count((p, m0)) > 0);
    //@|     assert(ms1 =~= ms0.remove((p, m0)).insert((p, m0.insert(id, item))));
    //@|     lemma_map_insert_len_le(m0, id, item);
    //@|     assert(ins_law2(ms0, ms1, p, id, item));
    //@|     if good(old_it) { lemma_uniq_ins(ms0, ms1, p, id, item); }
    //@|     assert(p.take(p.len() as int) =~= p);
    //@| }
    //@| before `Item::Node(Node {`: proof {
    //@|     let n = prefix@.len() as int;
    //@|     lemma_scan_prefix(p0, p, n);
    //@|     lemma_prefix_bytes_le(p0, n);
    //@|     assert(bprefix(prefix@, p0) && bprefix(prefix@, p));
    //@|     lemma_map_insert_len_le(Map::<String, V>::empty(), id, item);
    //@|     assert(wf(leaf) && wf(old_it));
    //@|     lemma_pair_node(old_it, leaf, prefix@, this.regex.ignore_case);
    //@|     assert(leaves_ms(leaf) == Multiset::singleton((p, Map::<String, V>::empty().insert(id, item))));
    //@|     assert(leaves_ms(old_it).add(leaves_ms(leaf)) =~= leaves_ms(old_it).insert((p, Map::<String, V>::empty().insert(id, item))));
    //@|     // maximality of the common prefix: a common boundary prefix of both patterns is not longer than `prefix`
    //@|     assert forall|q: Seq<char>| bprefix(q, p0) && bprefix(q, p) implies q.len() <= prefix@.len() by { assert(p0.take(q.len() as int) == p.take(q.len() as int)); }
    //@|     // one leaf per pattern: the old leaf carries another pattern, the pair node is tight
    //@|     assert(prefix@.take(n) =~= prefix@); lemma_scan_prefix(prefix@, p0, n);
    //@|     lemma_pair_tight(old_it, leaf, prefix@, this.regex.ignore_case);
    //@|     assert(!has_pat(leaves_ms(old_it), p)) by { if has_pat(leaves_ms(old_it), p) { let m = choose|m: Map<String, V>| #[trigger] leaves_ms(old_it).count((p, m)) > 0; assert((p, m) == (p0, m0)); } }
    //@|     assert(ins_law2(leaves_ms(old_it), leaves_ms(old_it).insert((p, Map::<String, V>::empty().insert(id, item))), p, id, item));
    //@|     if good(old_it) { lemma_uniq_ins(leaves_ms(old_it), leaves_ms(old_it).insert((p, Map::<String, V>::empty().insert(id, item))), p, id, item); }
    //@| }
}
pub proof fn lemma_map_insert_len_le<K, V>(m: Map<K, V>, k: K, v: V)
    requires m.dom().finite(),
    ensures m.insert(k, v).len() <= m.len() + 1, m.insert(k, v).len() >= 1, m.insert(k, v).dom().finite(),
{
    assert(m.insert(k, v).dom() =~= m.dom().insert(k));
}
// everything about the two-child node built when a leaf is split (Leaf::insert) or a node gets a new parent (Node::insert)
pub open spec fn is_pair_node<V>(n: Node<V>, a: Item<V>, b: Item<V>, prefix: Seq<char>, ic: bool) -> bool {
    n.children@.len() == 2 && n.children@[0] == a && n.children@[1] == b && lr_ok(*n.regex) && n.regex.regex@ == node_re(prefix)
        && n.regex.original@ == prefix && n.regex.ignore_case == ic
}
pub proof fn lemma_pair_node<V>(a: Item<V>, b: Item<V>, prefix: Seq<char>, ic: bool)
    requires wf(a), wf(b), !(a is Empty), !(b is Empty), item_ic(a) == ic, item_ic(b) == ic,
        bprefix(prefix, item_pat(a)), bprefix(prefix, item_pat(b)), pat_ok(prefix),
    ensures
        forall|n: Node<V>| #![trigger wf(Item::Node(n))] #![trigger leaves_ms(Item::Node(n))] #![trigger count(Item::Node(n))]
            is_pair_node(n, a, b, prefix, ic) ==> wf(Item::Node(n)) && leaves_ms(Item::Node(n)) == leaves_ms(a).add(leaves_ms(b))
            && count(Item::Node(n)) == count(a) + count(b),
        // any common boundary prefix q of both patterns that is not longer than `prefix` is a boundary prefix of `prefix`
        forall|q: Seq<char>| bprefix(q, item_pat(a)) && bprefix(q, item_pat(b)) && q.len() <= prefix.len() ==> #[trigger] bprefix(q, prefix),
{
    assert forall|n: Node<V>| is_pair_node(n, a, b, prefix, ic) implies #[trigger] wf(Item::Node(n)) && leaves_ms(Item::Node(n)) == leaves_ms(a).add(leaves_ms(b))
            && count(Item::Node(n)) == count(a) + count(b) by {
        let cs = n.children@;
        assert(leaves_children(cs, 2) == leaves_children(cs, 1).add(leaves_ms(cs[1])));
        assert(leaves_children(cs, 1) == leaves_children(cs, 0).add(leaves_ms(cs[0])));
        assert(leaves_children(cs, 0) =~= Multiset::<LeafV<V>>::empty());
        assert(Multiset::<LeafV<V>>::empty().add(leaves_ms(a)) =~= leaves_ms(a));
        assert(count_children(cs, 2) == count_children(cs, 1) + count(cs[1]));
        assert(count_children(cs, 1) == count_children(cs, 0) + count(cs[0]));
        assert forall|i: int| 0 <= i < cs.len() implies wf(#[trigger] cs[i]) && !(cs[i] is Empty) && item_ic(cs[i]) == ic && bprefix(prefix, item_pat(cs[i])) by { if i == 0 {} else { assert(i == 1); } }
    }
    assert forall|q: Seq<char>| bprefix(q, item_pat(a)) && bprefix(q, item_pat(b)) && q.len() <= prefix.len() implies #[trigger] bprefix(q, prefix) by {
        let k = q.len() as int;
        let pa = item_pat(a);
        assert(prefix.take(k) =~= pa.take(prefix.len() as int).take(k));
        assert(pa.take(prefix.len() as int).take(k) =~= pa.take(k));
        lemma_scan_prefix(prefix, pa, k);
    }
}
// leaves / count of a child sequence after `remove(i)` then `push(c)` (Node::insert re-attaches the modified child at the end)
pub proof fn lemma_children_remove<V>(cs: Seq<Item<V>>, i: int)
    requires 0 <= i < cs.len(),
    ensures leaves_children(cs, cs.len() as int) == leaves_children(cs.remove(i), cs.len() - 1).add(leaves_ms(cs[i])),
        count_children(cs, cs.len() as int) == count_children(cs.remove(i), cs.len() - 1) + count(cs[i]),
    decreases cs.len(),
{
    let n = cs.len() as int;
    if i == n - 1 {
        assert(cs.remove(i) =~= cs.drop_last());
        lemma_children_prefix(cs, cs.drop_last(), n - 1);
    } else {
        let d = cs.drop_last();
        lemma_children_remove(d, i);
        lemma_children_prefix(cs, d, n - 1);
        assert(cs.remove(i).drop_last() =~= d.remove(i));
        lemma_children_prefix(cs.remove(i), d.remove(i), n - 2);
        assert(cs.remove(i)[n - 2] == cs[n - 1]);
        assert(leaves_children(d.remove(i), n - 2).add(leaves_ms(cs[i])).add(leaves_ms(cs[n - 1])) =~= leaves_children(d.remove(i), n - 2).add(leaves_ms(cs[n - 1])).add(leaves_ms(cs[i])));
    }
}
// the fold over the first k children only looks at those children
pub proof fn lemma_children_prefix<V>(a: Seq<Item<V>>, b: Seq<Item<V>>, k: int)
    requires 0 <= k <= a.len(), k <= b.len(), forall|j: int| 0 <= j < k ==> a[j] == b[j],
    ensures leaves_children(a, k) == leaves_children(b, k), count_children(a, k) == count_children(b, k),
    decreases k,
{ if k > 0 { lemma_children_prefix(a, b, k - 1); } }
pub proof fn lemma_children_push<V>(cs: Seq<Item<V>>, c: Item<V>)
    ensures leaves_children(cs.push(c), cs.len() as int + 1) == leaves_children(cs, cs.len() as int).add(leaves_ms(c)),
        count_children(cs.push(c), cs.len() as int + 1) == count_children(cs, cs.len() as int) + count(c),
{
    lemma_children_prefix(cs.push(c), cs, cs.len() as int);
}
// the insertion law lifts from a child to its parent: parent' = parent - child + child'
pub proof fn lemma_ins_law_lift<V>(rest: Multiset<LeafV<V>>, c0: Multiset<LeafV<V>>, c1: Multiset<LeafV<V>>, p: Seq<char>, id: String, v: V)
    requires ins_law(c0, c1, p, id, v),
    ensures ins_law(rest.add(c0), rest.add(c1), p, id, v),
{
    if exists|m: Map<String, V>| #[trigger] c0.count((p, m)) > 0 && c1 == c0.remove((p, m)).insert((p, m.insert(id, v))) {
        let m = choose|m: Map<String, V>| #[trigger] c0.count((p, m)) > 0 && c1 == c0.remove((p, m)).insert((p, m.insert(id, v)));
        assert(rest.add(c0).count((p, m)) > 0);
        assert(rest.add(c1) =~= rest.add(c0).remove((p, m)).insert((p, m.insert(id, v))));
    } else {
        assert(rest.add(c1) =~= rest.add(c0).insert((p, Map::<String, V>::empty().insert(id, v))));
    }
}

impl<V> Node<V> {
    //@@ fn src/regex_radix_tree/node.rs :: impl <V>Node<V> / fn insert -> r
    //@| requires wf(Item::Node(self)), regex@.len() > 0, pat_ok(regex@),
    //@| ensures ins_post(Item::Node(self), r, regex@, id, item),
    //@| decreases self, 0int,
    //@| entry broadcast use vstd::std_specs::hash::group_hash_axioms; broadcast use axiom_string_key_model;
    //@|     let ghost old_it = Item::Node(self); let ghost p = regex@; let ghost o = self.regex.original@; let ghost ic = self.regex.ignore_case; let ghost cs0 = self.children@;
    //@|     let ghost newleaf = (p, Map::<String, V>::empty().insert(id, item));
    //@|     proof { lemma_chars_le_bytes(p); lemma_chars_le_bytes(o); lemma_map_insert_len_le(Map::<String, V>::empty(), id, item); }
    //@| before `return Item::Node(Node {`: proof {
    //@|     let n = prefix_size as int;
    //@|     assert(prefix@ == o.take(n));
    //@|     lemma_scan_prefix(p, o, n);
    //@|     lemma_prefix_bytes_le(o, n);
    //@|     assert(bprefix(prefix@, p) && bprefix(prefix@, o));
    //@|     assert(wf(left));
    //@|     lemma_pair_node(left, old_it, prefix@, ic);
    //@|     assert(leaves_ms(left) == Multiset::singleton(newleaf));
    //@|     assert(leaves_ms(left).add(leaves_ms(old_it)) =~= leaves_ms(old_it).insert(newleaf));
    //@|     assert forall|q: Seq<char>| bprefix(q, o) && bprefix(q, p) implies q.len() <= prefix@.len() by { assert(p.take(q.len() as int) == o.take(q.len() as int)); }
    //@|     // one leaf per pattern: the split happens strictly inside the node's prefix, so no leaf below carries p
    //@|     if good(old_it) {
    //@|         assert(n < o.len());
    //@|         assert(prefix@.take(n) =~= prefix@); lemma_scan_prefix(prefix@, p, n);
    //@|         lemma_pair_tight(left, old_it, prefix@, ic);
    //@|         assert(!has_pat(leaves_ms(old_it), p)) by {
    //@|             if has_pat(leaves_ms(old_it), p) {
    //@|                 let m = choose|m: Map<String, V>| #[trigger] leaves_ms(old_it).count((p, m)) > 0;
    //@|                 lemma_leaves_prefix(old_it, (p, m));
    //@|                 assert(p.take(o.len() as int) == o.take(o.len() as int)) by { assert(o.take(o.len() as int) =~= o); }
    //@|                 assert(o.len() <= n);
    //@|             }
    //@|         }
    //@|         assert(ins_law2(leaves_ms(old_it), leaves_ms(old_it).insert(newleaf), p, id, item));
    //@|         lemma_uniq_ins(leaves_ms(old_it), leaves_ms(old_it).insert(newleaf), p, id, item);
    //@|     }
    //@| }
    //@| outline `self.regex.original.chars().count()` => `outl_char_count(&this.regex.original)`
    //@| loop 0: invariant_except_break none_eq(cs0, i as int, p), caps(cs0, i as int, p, max_prefix_size as int),
    //@|     invariant this.children@ == cs0, *this.regex == *self.regex, wf(old_it), old_it == Item::Node(self), regex@ == p, p.len() < 0x7fff_ffff,
    //@|         forall|k: usize| max_prefix_item == Some(k) ==> k < cs0.len(),
    //@|         // the running maximum: at least the node's own prefix (which IS the maximum while no child is selected) ...
    //@|         o.len() <= max_prefix_size, max_prefix_item is None ==> max_prefix_size == o.len(),
    //@|         // ... a selected child carries p itself or shares max_prefix_size > |prefix| characters with p ...
    //@|         forall|k: usize| max_prefix_item == Some(k) ==> item_pat(cs0[k as int]) == p || (max_prefix_size > o.len() && shares(p, item_pat(cs0[k as int]), max_prefix_size as int)),
    //@|         // ... and (first line, until a child carrying p itself is selected) no child seen so far carries p or shares more than the maximum with it
    //@|     ensures eqsel(max_prefix_item, cs0, p) || (none_eq(cs0, cs0.len() as int, p) && caps(cs0, cs0.len() as int, p, max_prefix_size as int)),
    //@| loophead 0: let ghost m_old = max_prefix_size as int;
    //@| looptail 0: proof { lemma_caps_step(cs0, i as int, p, m_old, max_prefix_size as int, prefix_size as int); }
    //@| loopend 0: proof {
    //@|     // the node prefix is a boundary prefix of the new pattern (we are past the split test)
    //@|     assert(prefix_size as int == o.len());
    //@|     assert(p.take(o.len() as int) == o.take(o.len() as int));
    //@|     assert(o.take(o.len() as int) =~= o);
    //@|     assert(bprefix(o, p));
    //@| }
    //@| before `let mut children = self.children.remove(child_index);`: let ghost idx = child_index as int; let ghost c0 = cs0[idx]; let ghost mm = max_prefix_size as int;
    //@|     proof {
    //@|         assert(wf(c0));
    //@|         if good(old_it) {
    //@|             assert(chosen_ok(cs0, o, p, idx, mm));
    //@|             lemma_some_case(self, p, idx, mm);
    //@|             lemma_children_remove(cs0, idx);
    //@|             lemma_uniq_sub(leaves_children(cs0.remove(idx), cs0.len() - 1), leaves_ms(c0));
    //@|             assert(good(c0));
    //@|         }
    //@|     }
    //@| after `self.children.push(children);`: proof {
    //@|     let c1 = this.children@.last();
    //@|     let rest = cs0.remove(idx);
    //@|     assert(this.children@ =~= rest.push(c1));
    //@|     lemma_children_remove(cs0, idx);
    //@|     lemma_children_push(rest, c1);
    //@|     lemma_ins_law_lift(leaves_children(rest, rest.len() as int), leaves_ms(c0), leaves_ms(c1), p, id, item);
    //@|     assert(bprefix(o, item_pat(c1)));
    //@|     assert forall|i: int| 0 <= i < this.children@.len() implies wf(#[trigger] this.children@[i]) && !(this.children@[i] is Empty) && item_ic(this.children@[i]) == ic && bprefix(o, item_pat(this.children@[i])) by {
    //@|         if i < rest.len() { if i < idx { assert(rest[i] == cs0[i]); } else { assert(rest[i] == cs0[i + 1]); } }
    //@|     }
    //@|     if good(old_it) {
    //@|         let rl = leaves_children(rest, rest.len() as int);
    //@|         lemma_ins_law2_lift(rl, leaves_ms(c0), leaves_ms(c1), p, id, item);
    //@|         lemma_uniq_ins(rl.add(leaves_ms(c0)), rl.add(leaves_ms(c1)), p, id, item);
    //@|         // a node result of the descent still has a prefix longer than this node's
    //@|         if c1 is Node {
    //@|             if item_pat(c0) == p {
    //@|                 assert(c0 is Node);
    //@|                 assert(tight(c0));
    //@|                 assert(p.take(p.len() as int) =~= p);
    //@|                 assert(bprefix(p, item_pat(c0)) && bprefix(p, p));
    //@|                 assert(bprefix(p, item_pat(c1)));
    //@|             } else {
    //@|                 lemma_bprefix_share(p, item_pat(c0), mm, mm);
    //@|                 assert(bprefix(p.take(mm), item_pat(c1)));
    //@|             }
    //@|         }
    //@|         lemma_tight_replace(self, idx, c1, this);
    //@|     }
    //@| }
    //@| after `self.children.push(Item::Leaf(Leaf::new(regex, id, item, self.regex.ignore_case)));`: proof {
    //@|     let c1 = this.children@.last();
    //@|     assert(this.children@ =~= cs0.push(c1));
    //@|     lemma_children_push(cs0, c1);
    //@|     assert(leaves_ms(c1) == Multiset::singleton(newleaf));
    //@|     assert(leaves_children(cs0, cs0.len() as int).add(leaves_ms(c1)) =~= leaves_children(cs0, cs0.len() as int).insert(newleaf));
    //@|     assert forall|i: int| 0 <= i < this.children@.len() implies wf(#[trigger] this.children@[i]) && !(this.children@[i] is Empty) && item_ic(this.children@[i]) == ic && bprefix(o, item_pat(this.children@[i])) by {
    //@|         if i < cs0.len() { assert(this.children@[i] == cs0[i]); }
    //@|     }
    //@|     if good(old_it) {
    //@|         // no child was selected: none carries p, none shares more than this node's prefix with p => no leaf below carries p
    //@|         assert(!eqsel(max_prefix_item, cs0, p));
    //@|         lemma_none_case(self, p);
    //@|         let l0 = leaves_children(cs0, cs0.len() as int);
    //@|         assert(ins_law2(l0, l0.insert(newleaf), p, id, item));
    //@|         lemma_uniq_ins(l0, l0.insert(newleaf), p, id, item);
    //@|         lemma_tight_push(self, c1, this);
    //@|     }
    //@| }
}
impl<V> Item<V> {
    //@@ fn src/regex_radix_tree/item.rs :: impl <V>Item<V> / fn insert -> r
    //@| requires wf(self), regex@.len() > 0, pat_ok(regex@),
    //@| ensures ins_post(self, r, regex@, id, item),
    //@| decreases self, 1int,
    //@| entry proof {
    //@|     let newleaf = (regex@, Map::<String, V>::empty().insert(id, item));
    //@|     lemma_map_insert_len_le(Map::<String, V>::empty(), id, item);
    //@|     assert(Multiset::<LeafV<V>>::empty().insert(newleaf) =~= Multiset::singleton(newleaf));
    //@| }
}

// ---------------------------------------------------------------- remove
// ASSUMED (trusted, listed): a &str key designates the String key with the same characters (Borrow<str> for String); a String is
// determined by its characters
#[verifier::external_body] pub proof fn axiom_string_ext() ensures forall|a: String, b: String| #[trigger] a@ == #[trigger] b@ ==> a == b {}
#[verifier::external_body]
pub broadcast proof fn axiom_borrow_str_contains<V>(m: Map<String, V>, k: &str)
    ensures #[trigger] contains_borrowed_key::<String, V, str>(m, k) == (exists|key: String| key@ == k@ && m.contains_key(key)),
{}
#[verifier::external_body]
pub broadcast proof fn axiom_borrow_str_maps<V>(m: Map<String, V>, k: &str, v: V)
    ensures #[trigger] maps_borrowed_key_to_value::<String, V, str>(m, k, v) == (exists|key: String| key@ == k@ && m.contains_key(key) && m[key] == v),
{}
#[verifier::external_body]
pub broadcast proof fn axiom_borrow_str_removed<V>(m0: Map<String, V>, m1: Map<String, V>, k: &str)
    ensures #[trigger] borrowed_key_removed::<String, V, str>(m0, m1, k) == (exists|key: String| key@ == k@ && m1 == m0.remove(key)),
{}
pub open spec fn has_id<V>(m: Map<String, V>, id: Seq<char>) -> bool { exists|k: String| k@ == id && m.contains_key(k) }
pub open spec fn rem_law<V>(old: Multiset<LeafV<V>>, new: Multiset<LeafV<V>>, id: Seq<char>, rv: Option<V>) -> bool {
    match rv {
        // nothing stored under that id anywhere: nothing changes
        None => new == old && forall|l: LeafV<V>| old.count(l) > 0 ==> !has_id(#[trigger] l.1, id),
        // exactly one entry (the returned value) disappears from one leaf; a leaf that becomes empty is dropped
        Some(v) => exists|l: LeafV<V>, k: String| #[trigger] old.count(l) > 0 && k@ == id && #[trigger] l.1.contains_key(k) && l.1[k] == v
            && new == (if l.1.remove(k).len() > 0 { old.remove(l).insert((l.0, l.1.remove(k))) } else { old.remove(l) }),
    }
}
pub open spec fn rem_post<V>(old: Item<V>, r: Item<V>, id: Seq<char>, rv: Option<V>) -> bool {
    &&& wf(r) && item_ic(r) == item_ic(old)
    &&& rem_law(leaves_ms(old), leaves_ms(r), id, rv)
    &&& count(r) + (if rv is Some { 1nat } else { 0nat }) == count(old)
    &&& forall|q: Seq<char>| bprefix(q, item_pat(old)) ==> (r is Empty) || #[trigger] bprefix(q, item_pat(r))
}
pub proof fn lemma_bprefix_trans(a: Seq<char>, b: Seq<char>, c: Seq<char>)
    requires bprefix(a, b), bprefix(b, c),
    ensures bprefix(a, c),
{
    assert(c.take(a.len() as int) =~= c.take(b.len() as int).take(a.len() as int));
    lemma_scan_prefix(c, b, a.len() as int);
}

impl<V> Leaf<V> {
    //@@ fn src/regex_radix_tree/leaf.rs :: impl <V>Leaf<V> / fn remove -> r
    //@| requires wf(Item::Leaf(self)),
    //@| ensures rem_post(Item::Leaf(self), r.0, id@, r.1),
    //@| entry broadcast use vstd::std_specs::hash::group_hash_axioms; broadcast use axiom_string_key_model; broadcast use axiom_borrow_str_contains; broadcast use axiom_borrow_str_maps; broadcast use axiom_borrow_str_removed;
    //@|     let ghost old_it = Item::Leaf(self); let ghost p0 = self.regex.original@; let ghost m0 = self.values@;
    //@|     proof { axiom_string_ext(); }
    //@| after `let removed = self.values.remove(id);`: proof {
    //@|     let m1 = this.values@;
    //@|     let key = choose|key: String| key@ == id@ && m1 == m0.remove(key);
    //@|     let ms0 = leaves_ms(old_it);
    //@|     assert(ms0 == Multiset::singleton((p0, m0)));
    //@|     assert(m1.dom() =~= m0.dom().remove(key));
    //@|     if removed is None {
    //@|         assert(!m0.contains_key(key));
    //@|         assert(m1 =~= m0);
    //@|         assert forall|l: LeafV<V>| ms0.count(l) > 0 implies !has_id(#[trigger] l.1, id@) by { assert(l == (p0, m0)); }
    //@|     } else {
    //@|         assert(m0.contains_key(key) && m0[key] == removed.unwrap());
    //@|         assert(ms0.count((p0, m0)) > 0);
    //@|         assert(m1.len() + 1 == m0.len());
    //@|         let l = (p0, m0);
    //@|         assert(m0.remove(key) == m1);
    //@|         if m1.len() > 0 {
    //@|             assert(Multiset::singleton((p0, m1)) =~= ms0.remove(l).insert((l.0, l.1.remove(key))));
    //@|             assert(ms0.count(l) > 0 && l.1.contains_key(key) && l.1[key] == removed.unwrap());
    //@|             assert(rem_law(ms0, Multiset::singleton((p0, m1)), id@, removed));
    //@|         } else {
    //@|             assert(Multiset::<LeafV<V>>::empty() =~= ms0.remove(l));
    //@|             assert(ms0.count(l) > 0 && l.1.contains_key(key) && l.1[key] == removed.unwrap());
    //@|             assert(rem_law(ms0, Multiset::<LeafV<V>>::empty(), id@, removed));
    //@|         }
    //@|     }
    //@| }
}

// a well-formed item without stored values has no leaves (leaves are never empty)
pub proof fn lemma_count0_no_leaves<V>(it: Item<V>)
    requires wf(it), count(it) == 0,
    ensures leaves_ms(it) == Multiset::<LeafV<V>>::empty(),
    decreases it, 0int,
{
    match it {
        Item::Node(n) => { lemma_count0_children(n, n.children@.len() as int); }
        _ => {}
    }
}
pub proof fn lemma_count0_children<V>(n: Node<V>, k: int)
    requires wf(Item::Node(n)), 0 <= k <= n.children@.len(), count_children(n.children@, k) == 0,
    ensures leaves_children(n.children@, k) == Multiset::<LeafV<V>>::empty(),
    decreases n, k,
{
    if k > 0 {
        lemma_count0_children(n, k - 1);
        lemma_count0_no_leaves(n.children@[k - 1]);
        assert(Multiset::<LeafV<V>>::empty().add(Multiset::<LeafV<V>>::empty()) =~= Multiset::<LeafV<V>>::empty());
    }
}
// loop-step lemmas of Node::remove
pub proof fn lemma_rem_first<V>(l0: Multiset<LeafV<V>>, c0: Multiset<LeafV<V>>, x: Multiset<LeafV<V>>, x2: Multiset<LeafV<V>>, id: Seq<char>, rv: Option<V>)
    requires rem_law(l0, c0, id, None::<V>), rem_law(x, x2, id, rv),
    ensures rem_law(l0.add(x), c0.add(x2), id, rv),
{
    match rv {
        None => {
            assert forall|l: LeafV<V>| l0.add(x).count(l) > 0 implies !has_id(#[trigger] l.1, id) by { if l0.count(l) > 0 {} else { assert(x.count(l) > 0); } }
        }
        Some(v) => {
            let (l, k) = choose|l: LeafV<V>, k: String| #[trigger] x.count(l) > 0 && k@ == id && #[trigger] l.1.contains_key(k) && l.1[k] == v
                && x2 == (if l.1.remove(k).len() > 0 { x.remove(l).insert((l.0, l.1.remove(k))) } else { x.remove(l) });
            assert(l0.add(x).count(l) > 0);
            if l.1.remove(k).len() > 0 { assert(c0.add(x2) =~= l0.add(x).remove(l).insert((l.0, l.1.remove(k)))); } else { assert(c0.add(x2) =~= l0.add(x).remove(l)); }
            assert(l.1.contains_key(k));
        }
    }
}
pub proof fn lemma_rem_after<V>(l0: Multiset<LeafV<V>>, c0: Multiset<LeafV<V>>, x: Multiset<LeafV<V>>, id: Seq<char>, v: V)
    requires rem_law(l0, c0, id, Some(v)),
    ensures rem_law(l0.add(x), c0.add(x), id, Some(v)),
{
    let (l, k) = choose|l: LeafV<V>, k: String| #[trigger] l0.count(l) > 0 && k@ == id && #[trigger] l.1.contains_key(k) && l.1[k] == v
        && c0 == (if l.1.remove(k).len() > 0 { l0.remove(l).insert((l.0, l.1.remove(k))) } else { l0.remove(l) });
    assert(l0.add(x).count(l) > 0);
    if l.1.remove(k).len() > 0 { assert(c0.add(x) =~= l0.add(x).remove(l).insert((l.0, l.1.remove(k)))); } else { assert(c0.add(x) =~= l0.add(x).remove(l)); }
    assert(l.1.contains_key(k));
}

impl<V> Node<V> {
    //@@ fn src/regex_radix_tree/node.rs :: impl <V>Node<V> / fn remove -> r
    //@| requires wf(Item::Node(self)),
    //@| ensures rem_post(Item::Node(self), r.0, id@, r.1),
    //@| decreases self, 0int,
    //@| entry let ghost old_it = Item::Node(self); let ghost o = self.regex.original@; let ghost ic = self.regex.ignore_case; let ghost cs0 = self.children@;
    //@| forlabel 0: it
    //@| loop 0: invariant iter_ok(it.history@, it.index@, it.snapshot@.remaining(), cs0), wf(old_it), old_it == Item::Node(self), cs0 == self.children@, ic == self.regex.ignore_case, o == self.regex.original@,
    //@|         forall|j: int| 0 <= j < children@.len() ==> wf(#[trigger] children@[j]) && !(children@[j] is Empty) && item_ic(children@[j]) == ic && bprefix(o, item_pat(children@[j])),
    //@|         rem_law(leaves_children(cs0, it.index@), leaves_children(children@, children@.len() as int), id@, removed),
    //@|         count_children(children@, children@.len() as int) + (if removed is Some { 1nat } else { 0nat }) == count_children(cs0, it.index@),
    //@| loophead 0: let ghost k = it.index@; let ghost ch0 = children@; let ghost rm0 = removed;
    //@|     proof { assert(child == cs0[k]); assert(self.children@[k] == child); assert(wf(child) && !(child is Empty) && item_ic(child) == ic && bprefix(o, item_pat(child)));
    //@|             assert(leaves_children(cs0, k + 1) == leaves_children(cs0, k).add(leaves_ms(cs0[k]))); assert(count_children(cs0, k + 1) == count_children(cs0, k) + count(cs0[k])); }
    //@| after `children.push(child);`#0: proof {
    //@|     lemma_children_push(ch0, cs0[k]);
    //@|     assert(children@ =~= ch0.push(cs0[k]));
    //@|     lemma_rem_after(leaves_children(cs0, k), leaves_children(ch0, ch0.len() as int), leaves_ms(cs0[k]), id@, rm0.unwrap());
    //@| }
    //@| after `if !child.is_empty() { children.push(child); }`: proof {
    //@|     let c1 = child;
    //@|     assert(rem_post(cs0[k], c1, id@, value));
    //@|     assert(rm0 is None);
    //@|     assert(removed == value);
    //@|     lemma_rem_first(leaves_children(cs0, k), leaves_children(ch0, ch0.len() as int), leaves_ms(cs0[k]), leaves_ms(c1), id@, value);
    //@|     if count(c1) == 0 {
    //@|         lemma_count0_no_leaves(c1);
    //@|         assert(children@ == ch0);
    //@|         assert(leaves_children(ch0, ch0.len() as int).add(Multiset::<LeafV<V>>::empty()) =~= leaves_children(ch0, ch0.len() as int));
    //@|     } else {
    //@|         lemma_children_push(ch0, c1);
    //@|         assert(children@ =~= ch0.push(c1));
    //@|         assert(!(c1 is Empty));
    //@|         assert(bprefix(o, item_pat(c1)));
    //@|     }
    //@| }
    //@| before `if children.len() == 1 {`: proof {
    //@|     assert(rem_law(leaves_children(cs0, cs0.len() as int), leaves_children(children@, children@.len() as int), id@, removed));
    //@|     if children@.len() == 1 {
    //@|         let c = children@[0];
    //@|         assert(leaves_children(children@, 1) == leaves_children(children@, 0).add(leaves_ms(c)));
    //@|         assert(Multiset::<LeafV<V>>::empty().add(leaves_ms(c)) =~= leaves_ms(c));
    //@|         assert(count_children(children@, 1) == count_children(children@, 0) + count(c));
    //@|         assert forall|q: Seq<char>| bprefix(q, o) implies #[trigger] bprefix(q, item_pat(c)) by { lemma_bprefix_trans(q, o, item_pat(c)); }
    //@|     }
    //@| }
}
impl<V> Item<V> {
    //@@ fn src/regex_radix_tree/item.rs :: impl <V>Item<V> / fn remove -> r
    //@| requires wf(self),
    //@| ensures rem_post(self, r.0, id@, r.1),
    //@| decreases self, 1int,
}

// ---------------------------------------------------------------- lookup by pattern
pub open spec fn get_ms<V>(it: Item<V>, p: Seq<char>) -> Multiset<V>
    decreases it
{
    match it {
        Item::Empty(_) => Multiset::empty(),
        Item::Leaf(l) => if l.regex.original@ == p { vals_ms(l.values@) } else { Multiset::empty() },
        Item::Node(n) => get_children(n.children@, p, n.children@.len() as int),
    }
}
pub open spec fn get_children<V>(cs: Seq<Item<V>>, p: Seq<char>, k: int) -> Multiset<V>
    decreases cs, k
{ if k <= 0 || k > cs.len() { Multiset::empty() } else { get_children(cs, p, k - 1).add(get_ms(cs[k - 1], p)) } }
pub open spec fn is_prefix(q: Seq<char>, p: Seq<char>) -> bool { q.len() <= p.len() && q == p.take(q.len() as int) }
// R8 outlined expression: str::starts_with(&str) (generic Pattern API; assumed: string prefix test)
#[verifier::external_body]
pub fn outl_starts_with(a: &str, b: &str) -> (r: bool) ensures r == is_prefix(b@, a@) { /* verbatim: regex.starts_with(self.regex.original.as_str()) */ a.starts_with(b) }
// below an item whose own pattern is not a string prefix of p (node) / not p (leaf), nothing is stored under p
pub proof fn lemma_get_prune<V>(it: Item<V>, p: Seq<char>)
    requires wf(it), !is_prefix(item_pat(it), p),
    ensures get_ms(it, p) == Multiset::<V>::empty(),
    decreases it, 0int,
{
    assert(p.take(p.len() as int) =~= p);
    match it { Item::Node(n) => { lemma_get_prune_children(n, p, n.children@.len() as int); } _ => {} }
}
pub proof fn lemma_get_prune_children<V>(n: Node<V>, p: Seq<char>, k: int)
    requires wf(Item::Node(n)), !is_prefix(n.regex.original@, p), 0 <= k <= n.children@.len(),
    ensures get_children(n.children@, p, k) == Multiset::<V>::empty(),
    decreases n, k,
{
    if k > 0 {
        lemma_get_prune_children(n, p, k - 1);
        let c = n.children@[k - 1];
        assert(bprefix(n.regex.original@, item_pat(c)));
        // if the child's pattern were a prefix of p, so would the node's
        if is_prefix(item_pat(c), p) {
            assert(p.take(n.regex.original@.len() as int) =~= p.take(item_pat(c).len() as int).take(n.regex.original@.len() as int));
        }
        lemma_get_prune(c, p);
        assert(Multiset::<V>::empty().add(Multiset::<V>::empty()) =~= Multiset::<V>::empty());
    }
}
impl<V> Leaf<V> {
    //@@ fn src/regex_radix_tree/leaf.rs :: impl <V>Leaf<V> / fn get -> r
    //@| ensures refs_ms(r@) == get_ms(Item::Leaf(*self), regex@),
    //@| entry proof { lemma_refs_ms_empty::<V>(); }
    //@| outline `self.values.values().collect()` => `outl_values(&self.values)`
}
impl<V> Node<V> {
    //@@ fn src/regex_radix_tree/node.rs :: impl <V>Node<V> / fn get -> r
    //@| requires wf(Item::Node(*self)),
    //@| ensures refs_ms(r@) == get_ms(Item::Node(*self), regex@),
    //@| decreases self, 0int,
    //@| entry proof { lemma_refs_ms_empty::<V>(); if !is_prefix(self.regex.original@, regex@) { lemma_get_prune(Item::Node(*self), regex@); } }
    //@| forlabel 0: it
    //@| loop 0: invariant wf(Item::Node(*self)), iter_ref_ok(it.history@, it.index@, it.snapshot@.remaining(), self.children@),
    //@|         refs_ms(values@) == get_children(self.children@, regex@, it.index@),
    //@| loophead 0: proof { assert(*child == self.children@[it.index@ as int]); }
    //@| outline `regex.starts_with(self.regex.original.as_str())` => `outl_starts_with(regex, self.regex.original.as_str())`
    //@| outline `values.extend(child.get(regex));` => `outl_extend(&mut values, child.get(regex));`
}
impl<V> Item<V> {
    //@@ fn src/regex_radix_tree/item.rs :: impl <V>Item<V> / fn get -> r
    //@| requires wf(*self),
    //@| ensures refs_ms(r@) == get_ms(*self, regex@),
    //@| decreases self, 1int,
    //@| entry proof { lemma_refs_ms_empty::<V>(); }
}

// ---------------------------------------------------------------- retain (batch removal; C02)
// STRUCTURAL contract only: whatever the predicate does to the stored values, the result is a well-formed tree with the same case flag,
// no new patterns, no new ids, not more values, and the prefix discipline of the parent kept — so lookup == linear scan keeps holding
// afterwards and later inserts inherit the right case flag. WHICH values are kept (f's verdict per value) is NOT part of this contract.
// ASSUMED (trusted, listed): HashMap::retain only removes keys (values may be updated through the &mut the predicate receives)
pub assume_specification<K, V, S, A: std::alloc::Allocator, F: FnMut(&K, &mut V) -> bool> [HashMap::<K, V, S, A>::retain] (m: &mut HashMap<K, V, S, A>, f: F)
    requires forall|k: &K, v: &mut V| #[trigger] f.requires((k, v)),
    ensures final(m)@.dom().subset_of(old(m)@.dom());
pub open spec fn sub_leaves<V>(new: Multiset<LeafV<V>>, old: Multiset<LeafV<V>>) -> bool {
    forall|l: LeafV<V>| #[trigger] new.count(l) > 0 ==> exists|l0: LeafV<V>| #[trigger] old.count(l0) > 0 && l0.0 == l.0 && l.1.dom().subset_of(l0.1.dom())
}
pub open spec fn ret_post<V>(old: Item<V>, r: Item<V>) -> bool {
    &&& wf(r) && item_ic(r) == item_ic(old)
    &&& count(r) <= count(old)
    &&& sub_leaves(leaves_ms(r), leaves_ms(old))
    &&& forall|q: Seq<char>| bprefix(q, item_pat(old)) ==> (r is Empty) || #[trigger] bprefix(q, item_pat(r))
}
pub proof fn lemma_sub_leaves_add<V>(a: Multiset<LeafV<V>>, a0: Multiset<LeafV<V>>, b: Multiset<LeafV<V>>, b0: Multiset<LeafV<V>>)
    requires sub_leaves(a, a0), sub_leaves(b, b0),
    ensures sub_leaves(a.add(b), a0.add(b0)),
{
    assert forall|l: LeafV<V>| #[trigger] a.add(b).count(l) > 0 implies exists|l0: LeafV<V>| #[trigger] a0.add(b0).count(l0) > 0 && l0.0 == l.0 && l.1.dom().subset_of(l0.1.dom()) by {
        if a.count(l) > 0 {
            let l0 = choose|l0: LeafV<V>| #[trigger] a0.count(l0) > 0 && l0.0 == l.0 && l.1.dom().subset_of(l0.1.dom());
            assert(a0.add(b0).count(l0) > 0);
        } else {
            assert(b.count(l) > 0);
            let l0 = choose|l0: LeafV<V>| #[trigger] b0.count(l0) > 0 && l0.0 == l.0 && l.1.dom().subset_of(l0.1.dom());
            assert(a0.add(b0).count(l0) > 0);
        }
    }
}
impl<V> Leaf<V> {
    //@@ fn src/regex_radix_tree/leaf.rs :: impl <V>Leaf<V> / fn retain -> r
    //@| requires wf(Item::Leaf(self)), forall|k: &str, v: &mut V| #[trigger] f.requires((k, v)),
    //@| ensures ret_post(Item::Leaf(self), r),
    //@| entry broadcast use vstd::std_specs::hash::group_hash_axioms; broadcast use axiom_string_key_model; let ghost m0 = self.values@; let ghost p0 = self.regex.original@;
    //@| after `self.values.retain(|k, v| f(k, v));`: proof {
    //@|     let m1 = this.values@;
    //@|     vstd::set_lib::lemma_len_subset(m1.dom(), m0.dom());
    //@|     assert(m1.dom().finite());
    //@|     assert(Multiset::singleton((p0, m0)).count((p0, m0)) > 0);
    //@|     assert forall|l: LeafV<V>| #[trigger] Multiset::singleton((p0, m1)).count(l) > 0 implies exists|l0: LeafV<V>| #[trigger] Multiset::singleton((p0, m0)).count(l0) > 0 && l0.0 == l.0 && l.1.dom().subset_of(l0.1.dom()) by { assert(l == (p0, m1)); }
    //@| }
}
impl<V> Node<V> {
    //@@ fn src/regex_radix_tree/node.rs :: impl <V>Node<V> / fn retain -> r
    //@| requires wf(Item::Node(self)), forall|k: &str, v: &mut V| #[trigger] f.requires((k, v)),
    //@| ensures ret_post(Item::Node(self), r),
    //@| decreases self, 0int,
    //@| entry let ghost old_it = Item::Node(self); let ghost o = self.regex.original@; let ghost ic = self.regex.ignore_case; let ghost cs0 = self.children@;
    //@| forlabel 0: it
    //@| loop 0: invariant iter_ok(it.history@, it.index@, it.snapshot@.remaining(), cs0), wf(old_it), old_it == Item::Node(self), cs0 == self.children@, ic == self.regex.ignore_case, o == self.regex.original@,
    //@|         forall|k: &str, v: &mut V| #[trigger] f.requires((k, v)),
    //@|         forall|j: int| 0 <= j < children@.len() ==> wf(#[trigger] children@[j]) && !(children@[j] is Empty) && item_ic(children@[j]) == ic && bprefix(o, item_pat(children@[j])),
    //@|         sub_leaves(leaves_children(children@, children@.len() as int), leaves_children(cs0, it.index@)),
    //@|         count_children(children@, children@.len() as int) <= count_children(cs0, it.index@),
    //@| loophead 0: let ghost k = it.index@; let ghost ch0 = children@; let ghost c_old = cs0[k];
    //@|     proof { assert(child == cs0[k]); assert(self.children@[k] == child); assert(wf(child) && !(child is Empty) && item_ic(child) == ic && bprefix(o, item_pat(child)));
    //@|             assert(leaves_children(cs0, k + 1) == leaves_children(cs0, k).add(leaves_ms(cs0[k]))); assert(count_children(cs0, k + 1) == count_children(cs0, k) + count(cs0[k])); }
    //@| looptail 0: proof {
    //@|     let c1 = child;
    //@|     assert(ret_post(c_old, c1));
    //@|     if count(c1) == 0 {
    //@|         assert(children@ == ch0);
    //@|         lemma_sub_leaves_add(leaves_children(ch0, ch0.len() as int), leaves_children(cs0, k), Multiset::<LeafV<V>>::empty(), leaves_ms(c_old));
    //@|         assert(leaves_children(ch0, ch0.len() as int).add(Multiset::<LeafV<V>>::empty()) =~= leaves_children(ch0, ch0.len() as int));
    //@|     } else {
    //@|         lemma_children_push(ch0, c1);
    //@|         assert(children@ =~= ch0.push(c1));
    //@|         assert(!(c1 is Empty));
    //@|         assert(bprefix(o, item_pat(c1)));
    //@|         lemma_sub_leaves_add(leaves_children(ch0, ch0.len() as int), leaves_children(cs0, k), leaves_ms(c1), leaves_ms(c_old));
    //@|     }
    //@| }
    //@| before `if children.len() == 1 {`: proof {
    //@|     if children@.len() == 1 {
    //@|         let c = children@[0];
    //@|         assert(leaves_children(children@, 1) == leaves_children(children@, 0).add(leaves_ms(c)));
    //@|         assert(Multiset::<LeafV<V>>::empty().add(leaves_ms(c)) =~= leaves_ms(c));
    //@|         assert(count_children(children@, 1) == count_children(children@, 0) + count(c));
    //@|         assert forall|q: Seq<char>| bprefix(q, o) implies #[trigger] bprefix(q, item_pat(c)) by { lemma_bprefix_trans(q, o, item_pat(c)); }
    //@|     }
    //@| }
}
impl<V> Item<V> {
    //@@ fn src/regex_radix_tree/item.rs :: impl <V>Item<V> / fn retain -> r
    //@| requires wf(self), forall|k: &str, v: &mut V| #[trigger] f.requires((k, v)),
    //@| ensures ret_post(self, r),
    //@| decreases self, 1int,
}

// ================================================================ the public maps (src/regex_radix_tree/tree.rs)
//@@ item src/regex_radix_tree/tree.rs :: struct RegexTreeMap
//@@ item src/regex_radix_tree/tree.rs :: struct UniqueRegexTreeMap
impl<V> RegexTreeMap<V> {
    pub open spec fn wf(&self) -> bool { wf(self.root) }
    pub open spec fn content(&self) -> Multiset<LeafV<V>> { leaves_ms(self.root) }

    //@@ fn src/regex_radix_tree/tree.rs :: impl <V>RegexTreeMap<V> / fn new -> r
    //@| ensures r.wf(), r.content() == Multiset::<LeafV<V>>::empty(), item_ic(r.root) == ignore_case, count(r.root) == 0, good(r.root),

    //@@ fn src/regex_radix_tree/tree.rs :: impl <V>RegexTreeMap<V> / fn insert
    //@| requires old(self).wf(), regex@.len() > 0, pat_ok(regex@),
    //@| ensures final(self).wf(), item_ic(final(self).root) == item_ic(old(self).root), count(final(self).root) <= count(old(self).root) + 1,
    //@|     exists|k: String| k@ == id@ && ins_law(old(self).content(), final(self).content(), regex@, k, item),
    //@|     // one leaf per pattern is kept, and then storing under an existing pattern goes into ITS leaf (same id: the value is replaced)
    //@|     good(old(self).root) ==> good(final(self).root) && exists|k: String| k@ == id@ && ins_law2(old(self).content(), final(self).content(), regex@, k, item),

    //@@ fn src/regex_radix_tree/tree.rs :: impl <V>RegexTreeMap<V> / fn remove -> r
    //@| requires old(self).wf(),
    //@| ensures rem_post(old(self).root, final(self).root, id@, r),

    //@@ fn src/regex_radix_tree/tree.rs :: impl <V>RegexTreeMap<V> / fn retain
    //@| requires old(self).wf(), forall|k: &str, v: &mut V| #[trigger] f.requires((k, v)),
    //@| ensures ret_post(old(self).root, final(self).root),

    //@@ fn src/regex_radix_tree/tree.rs :: impl <V>RegexTreeMap<V> / fn len -> r
    //@| requires count(self.root) <= usize::MAX,
    //@| ensures r == count(self.root),

    //@@ fn src/regex_radix_tree/tree.rs :: impl <V>RegexTreeMap<V> / fn is_empty -> r
    //@| ensures r == (count(self.root) == 0),

    //@@ fn src/regex_radix_tree/tree.rs :: impl <V>RegexTreeMap<V> / fn find -> r
    //@| requires self.wf(),
    //@| ensures refs_ms(r@) == scan_match(self.root, haystack@),

    //@@ fn src/regex_radix_tree/tree.rs :: impl <V>RegexTreeMap<V> / fn get -> r
    //@| requires self.wf(),
    //@| ensures refs_ms(r@) == get_ms(self.root, regex@),

    // warm-up with any limit / level: observationally the same tree (same_obs), well-formed, budget never grows, terminates
    //@@ fn src/regex_radix_tree/tree.rs :: impl <V>RegexTreeMap<V> / fn cache -> r
    //@| requires old(self).wf(), level matches Some(l) ==> l < u64::MAX,
    //@| ensures final(self).wf(), same_obs(final(self).root, old(self).root), r <= limit,
    //@| entry proof { lemma_same_obs_refl(self.root); }
    //@| loop 0: invariant wf(self.root), same_obs(self.root, old(self).root), left <= limit, cache_level <= limit - left,
    //@|     decreases left,
    //@| loophead 0: let ghost r0 = self.root;
    //@| looptail 0: proof { lemma_same_obs_trans(self.root, r0, old(self).root); }
    //@| before `break;`: proof { lemma_same_obs_trans(self.root, r0, old(self).root); }
}
pub proof fn lemma_same_obs_trans<V>(a: Item<V>, b: Item<V>, c: Item<V>)
    requires same_obs(a, b), same_obs(b, c),
    ensures same_obs(a, c),
    decreases a,
{
    match (a, b, c) {
        (Item::Node(x), Item::Node(y), Item::Node(z)) => {
            assert forall|i: int| 0 <= i < x.children@.len() implies same_obs(#[trigger] x.children@[i], z.children@[i]) by { lemma_same_obs_trans(x.children@[i], y.children@[i], z.children@[i]); }
        }
        _ => {}
    }
}
//@@ rename Trace TreeTrace
impl<V> RegexTreeMap<V> {
    //@@ fn src/regex_radix_tree/tree.rs :: impl <V>RegexTreeMap<V> / fn trace -> r
    //@| requires self.wf(), count(self.root) <= usize::MAX,
    //@| ensures tt_ms(r) == scan_match(self.root, haystack@),
}
impl<V> UniqueRegexTreeMap<V> {
    //@@ fn src/regex_radix_tree/tree.rs :: impl <V>UniqueRegexTreeMap<V> / fn trace -> r
    //@| requires self.tree.wf(), count(self.tree.root) <= usize::MAX,
    //@| ensures tt_ms(r) == scan_match(self.tree.root, haystack@),
}
//@@ unrename Trace
impl<V> UniqueRegexTreeMap<V> {
    //@@ fn src/regex_radix_tree/tree.rs :: impl <V>UniqueRegexTreeMap<V> / fn new -> r
    //@| ensures r.tree.wf(), r.tree.content() == Multiset::<LeafV<V>>::empty(), item_ic(r.tree.root) == ignore_case, good(r.tree.root),

    //@@ fn src/regex_radix_tree/tree.rs :: impl <V>UniqueRegexTreeMap<V> / fn insert
    //@| requires old(self).tree.wf(), regex@.len() > 0, pat_ok(regex@),
    //@| ensures final(self).tree.wf(), item_ic(final(self).tree.root) == item_ic(old(self).tree.root),
    //@|     exists|k: String| k@ == regex@ && ins_law(old(self).tree.content(), final(self).tree.content(), regex@, k, item),
    //@|     good(old(self).tree.root) ==> good(final(self).tree.root) && exists|k: String| k@ == regex@ && ins_law2(old(self).tree.content(), final(self).tree.content(), regex@, k, item),

    //@@ fn src/regex_radix_tree/tree.rs :: impl <V>UniqueRegexTreeMap<V> / fn remove -> r
    //@| requires old(self).tree.wf(),
    //@| ensures rem_post(old(self).tree.root, final(self).tree.root, regex@, r),

    //@@ fn src/regex_radix_tree/tree.rs :: impl <V>UniqueRegexTreeMap<V> / fn retain
    //@| requires old(self).tree.wf(), forall|k: &str, v: &mut V| #[trigger] f.requires((k, v)),
    //@| ensures ret_post(old(self).tree.root, final(self).tree.root),

    //@@ fn src/regex_radix_tree/tree.rs :: impl <V>UniqueRegexTreeMap<V> / fn find -> r
    //@| requires self.tree.wf(),
    //@| ensures refs_ms(r@) == scan_match(self.tree.root, haystack@),

    //@@ fn src/regex_radix_tree/tree.rs :: impl <V>UniqueRegexTreeMap<V> / fn len -> r
    //@| requires count(self.tree.root) <= usize::MAX,
    //@| ensures r == count(self.tree.root),

    //@@ fn src/regex_radix_tree/tree.rs :: impl <V>UniqueRegexTreeMap<V> / fn is_empty -> r
    //@| ensures r == (count(self.tree.root) == 0),

    //@@ fn src/regex_radix_tree/tree.rs :: impl <V>UniqueRegexTreeMap<V> / fn cache -> r
    //@| requires old(self).tree.wf(), level matches Some(l) ==> l < u64::MAX,
    //@| ensures final(self).tree.wf(), same_obs(final(self).tree.root, old(self).tree.root), r <= limit,
}

//@@ strlits
} // verus!
fn main() {}

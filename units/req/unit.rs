//@@ include ../common/prelude.rs
// Unit `req` — construction and re-normalisation of http::Request (src/http/request.rs): C09 clauses "re-normalising a request changes
// nothing" and "ASCII letter case when case-insensitivity is configured" (host / header values), C07 (no panic in from_example)
use http::Error;
verus! {

//@@ include ../common/vec_specs.rs
pub uninterp spec fn lower(s: Seq<char>) -> Seq<char>;
pub assume_specification [str::to_lowercase] (s: &str) -> (r: std::string::String) ensures r@ == lower(s@);
// ASSUMED (trusted, listed): str::to_lowercase is idempotent (Unicode lower-case mappings only produce characters that map to themselves)
#[verifier::external_body] pub broadcast proof fn axiom_lower_idem(s: Seq<char>) ensures #[trigger] lower(lower(s)) == lower(s) {}
#[verifier::external_body] pub proof fn axiom_string_ext() ensures forall|a: String, b: String| #[trigger] a@ == #[trigger] b@ ==> a == b {}

pub assume_specification<T: std::ops::Deref> [std::option::Option::<T>::as_deref] (o: &std::option::Option<T>) -> (r: std::option::Option<&<T as std::ops::Deref>::Target>) ensures r.is_some() == o.is_some();
// ---- SHIMS for foreign types (opaque; results unconstrained unless a spec function is named)
#[verifier::external_body] pub struct IpAddr { x: u8 }
#[verifier::external_body] #[derive(Debug)] pub struct AddrParseError { x: u8 }
#[verifier::external_body] pub struct Utc { x: u8 }
#[verifier::external_body] #[verifier::accept_recursive_types(Tz)] pub struct DateTime<Tz> { x: std::marker::PhantomData<Tz> }
impl Clone for IpAddr { #[verifier::external_body] fn clone(&self) -> (r: Self) ensures r == *self { unimplemented!() } }
impl Copy for IpAddr {}
impl<Tz> Clone for DateTime<Tz> { #[verifier::external_body] fn clone(&self) -> (r: Self) ensures r == *self { unimplemented!() } }
impl<Tz> Copy for DateTime<Tz> {}
impl IpAddr {
    // std::net::IpAddr::from_str fails on anything that is not an IPv4/IPv6 literal: result unconstrained
    #[verifier::external_body] pub fn from_str(s: &str) -> std::result::Result<IpAddr, AddrParseError> { unimplemented!() }
}
impl Utc { #[verifier::external_body] pub fn now() -> DateTime<Utc> { unimplemented!() } }
pub mod http {
    use super::*;
    #[verifier::external_body] pub struct Error { x: u8 }
    #[verifier::external_body] #[verifier::accept_recursive_types(T)] pub struct Request<T> { h: std::marker::PhantomData<T> }
    #[verifier::external_body] pub struct Builder { x: u8 }
    #[verifier::external_body] pub struct Uri { x: u8 }
    #[verifier::external_body] pub struct PathAndQuery { x: u8 }
    #[verifier::external_body] pub struct Authority { x: u8 }
    impl<T> Request<T> {
        #[verifier::external_body] pub fn builder() -> Builder { unimplemented!() }
        #[verifier::external_body] pub fn uri(&self) -> &Uri { unimplemented!() }
    }
    impl Builder {
        #[verifier::external_body] pub fn uri(self, u: &str) -> Builder { unimplemented!() }
        #[verifier::external_body] pub fn method(self, m: &str) -> Builder { unimplemented!() }
        #[verifier::external_body] pub fn body<T>(self, b: T) -> std::result::Result<Request<T>, Error> { unimplemented!() }
    }
    impl Uri {
        #[verifier::external_body] pub fn path_and_query(&self) -> Option<&PathAndQuery> { unimplemented!() }
        #[verifier::external_body] pub fn authority(&self) -> Option<&Authority> { unimplemented!() }
        #[verifier::external_body] pub fn scheme_str(&self) -> Option<&str> { unimplemented!() }
    }
    impl PathAndQuery { #[verifier::external_body] pub fn as_str(&self) -> &str { unimplemented!() } }
    impl Authority { #[verifier::external_body] pub fn to_string(&self) -> String { unimplemented!() } }
}
//@@ item src/router_config.rs :: struct RouterConfig
//@@ item src/http/header.rs :: struct Header
//@@ item src/http/query.rs :: struct PathAndQueryWithSkipped
//@@ item src/http/request.rs :: struct Request
//@@ item src/api/examples.rs :: struct ExampleHeader
//@@ item src/api/examples.rs :: struct Example
impl Clone for PathAndQueryWithSkipped { #[verifier::external_body] fn clone(&self) -> (r: Self) ensures r == *self { unimplemented!() } }
// the URL normaliser itself (percent-encoding, query sorting, marketing parameters) is NOT under contract: an uninterpreted function of
// (config, original url)
pub uninterp spec fn pq_from_config(config: RouterConfig, s: Seq<char>) -> PathAndQueryWithSkipped;
pub uninterp spec fn sanitized(s: Seq<char>) -> Seq<char>;
#[verifier::external_body] pub fn sanitize_url(path_and_query_str: &str) -> (r: String) ensures r@ == sanitized(path_and_query_str@) { unimplemented!() }
impl PathAndQueryWithSkipped {
    #[verifier::external_body] pub fn from_config(config: &RouterConfig, path_and_query_str: &str) -> (r: Self) ensures r == pq_from_config(*config, path_and_query_str@), r.original@ == path_and_query_str@ { unimplemented!() }
    //@@ fn src/http/query.rs :: impl PathAndQueryWithSkipped / fn from_static -> r
    //@| ensures r.path_and_query@ == sanitized(path_and_query_str@), r.original@ == path_and_query_str@, r.skipped_query_params is None,
    //@|         r.path_and_query_matching matches Some(m) && m@ == path_and_query_str@,
}

pub open spec fn opt_lower(flag: bool, o: Option<String>, r: Option<String>) -> bool {
    match o { None => r is None, Some(h) => r matches Some(x) && x@ == (if flag { lower(h@) } else { h@ }) }
}
pub open spec fn hdr_norm(flag: bool, h: Header, r: Header) -> bool { r.name@ == h.name@ && r.value@ == (if flag { lower(h.value@) } else { h.value@ }) }
pub open spec fn hdrs_norm(flag: bool, hs: Seq<Header>, rs: Seq<Header>) -> bool {
    rs.len() == hs.len() && forall|i: int| 0 <= i < hs.len() ==> hdr_norm(flag, #[trigger] hs[i], rs[i])
}
pub open spec fn original_url(q: Request) -> Seq<char> {
    match q.path_and_query { Some(s) => s@, None => q.path_and_query_skipped.original@ }
}
// reference "re-normalisation" relation of the statement: r is q rebuilt under config c
pub open spec fn rebuilt(c: RouterConfig, q: Request, r: Request) -> bool {
    &&& r.path_and_query_skipped == pq_from_config(c, original_url(q))
    &&& original_url(r) == original_url(q)
    &&& opt_lower(c.ignore_host_case, q.host, r.host)
    &&& hdrs_norm(c.ignore_header_case, q.headers@, r.headers@)
    &&& r.scheme == q.scheme && r.method == q.method && r.remote_addr == q.remote_addr && r.created_at == q.created_at
    &&& r.sampling_override == q.sampling_override
}
// observational equality of requests: every field the matchers / variables read (Strings compared by content) and the URL any further
// re-normalisation starts from; the raw `path_and_query` (v2) field is only read through original_url
pub open spec fn same_request(a: Request, b: Request) -> bool {
    &&& a.path_and_query_skipped == b.path_and_query_skipped
    &&& original_url(a) == original_url(b) && opt_lower(false, a.host, b.host)
    &&& hdrs_norm(false, a.headers@, b.headers@)
    &&& a.scheme == b.scheme && a.method == b.method && a.remote_addr == b.remote_addr && a.created_at == b.created_at
    &&& a.sampling_override == b.sampling_override
}
// C09 "re-normalising a request changes nothing": any rebuild of a rebuilt request is observationally the rebuilt request
pub proof fn c09_rebuild_idempotent(c: RouterConfig, q: Request, r1: Request, r2: Request)
    requires rebuilt(c, q, r1), rebuilt(c, r1, r2),
    ensures same_request(r1, r2),
{
    broadcast use axiom_lower_idem;
    assert forall|i: int| 0 <= i < r1.headers@.len() implies hdr_norm(false, #[trigger] r1.headers@[i], r2.headers@[i]) by {
        assert(hdr_norm(c.ignore_header_case, q.headers@[i], r1.headers@[i]));
        assert(hdr_norm(c.ignore_header_case, r1.headers@[i], r2.headers@[i]));
    }
}

impl Request {
    //@@ fn src/http/request.rs :: impl Request / fn add_header
    //@| ensures final(self).headers@.len() == old(self).headers@.len() + 1, final(self).headers@.drop_last() == old(self).headers@,
    //@|   final(self).headers@.last().name == name, final(self).headers@.last().value@ == (if ignore_case { lower(value@) } else { value@ }),
    //@|   final(self).path_and_query_skipped == old(self).path_and_query_skipped, final(self).path_and_query == old(self).path_and_query,
    //@|   final(self).host == old(self).host, final(self).scheme == old(self).scheme, final(self).method == old(self).method,
    //@|   final(self).remote_addr == old(self).remote_addr, final(self).created_at == old(self).created_at, final(self).sampling_override == old(self).sampling_override,
    // ASSUMED frame (chrono parsing is not under contract): only created_at is touched
    #[verifier::external_body] pub fn set_created_at(&mut self, created_at: Option<String>)
        ensures final(self).headers == old(self).headers, final(self).path_and_query_skipped == old(self).path_and_query_skipped, final(self).path_and_query == old(self).path_and_query,
            final(self).host == old(self).host, final(self).scheme == old(self).scheme, final(self).method == old(self).method, final(self).remote_addr == old(self).remote_addr,
            final(self).sampling_override == old(self).sampling_override,
    { unimplemented!() }
    //@@ fn src/http/request.rs :: impl Request / fn from_config -> r
    //@| ensures r.path_and_query_skipped == pq_from_config(*config, path_and_query@), r.path_and_query == Some(path_and_query),
    //@|   opt_lower(config.ignore_host_case, host, r.host), r.scheme == scheme, r.method == method, r.remote_addr == remote_addr,
    //@|   r.headers@.len() == 0, r.sampling_override == sampling_override,
    //@| closure `|s|` => `|s: String| -> (vf_r: String) ensures vf_r@ == (if config.ignore_host_case { lower(s@) } else { s@ })`
    //@@ fn src/http/request.rs :: impl Request / fn rebuild_with_config -> r
    //@| ensures rebuilt(*config, *request, r),
    //@| opt r6:0
    //@| forlabel 0: it
    //@| loop 0: invariant iter_ref_ok(it.history@, it.index@, it.snapshot@.remaining(), request.headers@),
    //@|     hdrs_norm(config.ignore_header_case, request.headers@.take(it.index@), headers@),
    //@| loophead 0: let ghost h0 = headers@; proof { assert(*header == request.headers@[it.index@ as int]); }
    //@| looptail 0: proof { let k = it.index@ as int; assert(headers@ =~= h0.push(headers@.last())); assert(request.headers@.take(k + 1) =~= request.headers@.take(k).push(request.headers@[k])); }
    //@| loopend 0: proof { assert(request.headers@.take(request.headers@.len() as int) =~= request.headers@); }
    // C19 / C09: the request an analysis builds from an example is ALREADY normalised under the router configuration, as the live pipeline's
    // request is after the router rebuilt it: rebuilding it changes nothing the matchers read (path and query, host case, header value case)
    //@@ fn src/http/request.rs :: impl Request / fn from_example -> r
    //@| ensures r matches Ok(q) ==> forall|q2: Request| #[trigger] rebuilt(*router_config, q, q2) ==> same_request(q, q2),
    //@| opt r6i:0
    //@| forlabel 0: it
    //@| attr #[verifier::loop_isolation(false)]
    //@| entry broadcast use axiom_lower_idem;
    //@| loopbefore 0: let ghost q0 = request; let ghost flag = router_config.ignore_header_case;
    //@| loop 0: invariant request.path_and_query_skipped == q0.path_and_query_skipped, request.path_and_query == q0.path_and_query, request.host == q0.host, request.scheme == q0.scheme,
    //@|         request.method == q0.method, request.remote_addr == q0.remote_addr, request.created_at == q0.created_at, request.sampling_override == q0.sampling_override,
    //@|         forall|i: int| 0 <= i < request.headers@.len() ==> (flag ==> lower((#[trigger] request.headers@[i]).value@) == request.headers@[i].value@),
    //@| loophead 0: let ghost h0 = request.headers@;
    //@| looptail 0: proof { assert forall|i: int| 0 <= i < request.headers@.len() implies (flag ==> lower((#[trigger] request.headers@[i]).value@) == request.headers@[i].value@) by { if i < h0.len() { assert(request.headers@[i] == request.headers@.drop_last()[i]); } } }
    //@| exit proof {
    //@|     if vf_ret is Ok { let q = vf_ret->Ok_0;
    //@|         assert forall|q2: Request| #[trigger] rebuilt(*router_config, q, q2) implies same_request(q, q2) by {
    //@|             assert forall|i: int| 0 <= i < q.headers@.len() implies hdr_norm(false, #[trigger] q.headers@[i], q2.headers@[i]) by { assert(hdr_norm(router_config.ignore_header_case, q.headers@[i], q2.headers@[i])); }
    //@|         }
    //@|     }
    //@| }
    //@| closure `|s|`#0 => `|s: &http::Authority| -> (vf_r: String)`
    //@| closure `|s|`#1 => `|s: &str| -> (vf_r: String)`
}

// ---- PINS: functions of /repo this unit (or the property it serves) only ASSUMES something about — a hand-written shim stands for them, or nothing at
// all does. The assumption was made for one text of each; the token hash ties it to that text: a change makes the unit UNDECIDED (exit 2), never OK.
//@@ pin src/http/request.rs :: impl Request / fn set_created_at = ee0caa8f4197
//@@ pin src/http/query.rs :: fn sanitize_url = f2a1c8f1c44a
//@@ strlits
} // verus!
fn main() {}

//@@ include ../common/prelude.rs
// Unit `hdr` — property C13 (header filters implement add/remove/replace/override/default exactly)
verus! {

// ---------------------------------------------------------------- assumed std specs (trusted, listed)
pub assume_specification [str::to_lowercase] (s: &str) -> (r: std::string::String)
    ensures r@ == spec_lower(s@);
pub assume_specification<T: std::ops::DerefMut> [std::option::Option::<T>::as_deref_mut] (o: &mut std::option::Option<T>) -> std::option::Option<&mut <T as std::ops::Deref>::Target>;

pub assume_specification<'b> [<std::string::String as PartialEq<&str>>::eq] (a: &std::string::String, b: &&str) -> (r: bool)
    ensures r == (a@ == b@);

// ---------------------------------------------------------------- foreign to this unit: UnitTrace (src/action/unit_trace), assumed to return
pub struct UnitTrace { x: u8 }
impl UnitTrace {
    #[verifier::external_body]
    pub fn add_value_computed_by_unit(&mut self, key: &str, value: &str) {}
    #[verifier::external_body]
    pub fn override_unit_id_with_target(&mut self, target: &str, unit_id: &str) {}
    #[verifier::external_body]
    pub fn add_unit_id_with_target(&mut self, target: &str, unit_id: &str) {}
}

//@@ item src/http/header.rs :: struct Header
//@@ item src/api/header_filter.rs :: struct HeaderFilter

//@@ include ../common/hdr_spec.rs

pub proof fn lemma_hsview_push(s: Seq<Header>, x: Header)
    ensures hsview(s.push(x)) == hsview(s).push(hview(x)),
{
    assert(hsview(s.push(x)) =~= hsview(s).push(hview(x)));
}
pub proof fn lemma_remove_push(hs: HV, x: H, n: Seq<char>)
    ensures ref_remove(hs.push(x), n) == (if ci(x.0, n) { ref_remove(hs, n) } else { ref_remove(hs, n).push(x) }),
{
    assert(hs.push(x).drop_last() =~= hs);
}
pub proof fn lemma_replace_push(hs: HV, x: H, n: Seq<char>, v: Seq<char>)
    ensures ref_replace(hs.push(x), n, v) == ref_replace(hs, n, v).push(if ci(x.0, n) { (n, v) } else { x }),
{
    assert(ref_replace(hs.push(x), n, v) =~= ref_replace(hs, n, v).push(if ci(x.0, n) { (n, v) } else { x }));
}
pub proof fn lemma_has_push(hs: HV, x: H, n: Seq<char>)
    ensures has(hs.push(x), n) == (has(hs, n) || ci(x.0, n)),
{
    let p = hs.push(x);
    if has(hs, n) {
        let i = choose|i: int| 0 <= i < hs.len() && ci(#[trigger] hs[i].0, n);
        assert(ci(p[i].0, n));
    }
    if ci(x.0, n) {
        assert(ci(p[hs.len() as int].0, n));
    }
    if has(p, n) {
        let i = choose|i: int| 0 <= i < p.len() && ci(#[trigger] p[i].0, n);
        if i < hs.len() { assert(ci(hs[i].0, n)); }
    }
}

pub trait HeaderAction {
    spec fn op(&self, hs: HV) -> HV;
    //@@ sig src/filter/header_action/mod.rs :: trait HeaderAction / fn filter -> r
    //@| ensures hsview(r@) == self.op(hsview(headers@)),
}

//@@ item src/filter/header_action/header_add.rs :: struct HeaderAddAction
//@@ item src/filter/header_action/header_remove.rs :: struct HeaderRemoveAction
//@@ item src/filter/header_action/header_replace.rs :: struct HeaderReplaceAction
//@@ item src/filter/header_action/header_override.rs :: struct HeaderOverrideAction
//@@ item src/filter/header_action/header_default.rs :: struct HeaderDefaultAction

impl HeaderAction for HeaderAddAction {
    open spec fn op(&self, hs: HV) -> HV { ref_add(hs, self.name@, self.value@) }
    //@@ fn src/filter/header_action/header_add.rs :: impl HeaderAction for HeaderAddAction / fn filter
}

impl HeaderAction for HeaderRemoveAction {
    open spec fn op(&self, hs: HV) -> HV { ref_remove(hs, self.name@) }
    //@@ fn src/filter/header_action/header_remove.rs :: impl HeaderAction for HeaderRemoveAction / fn filter
    //@| forlabel 0: it
    //@| loopbefore 0: let ghost h0 = headers@;
    //@| loop 0: invariant iter_ok(it.history@, it.index@, it.snapshot@.remaining(), h0),
    //@|     hsview(new_headers@) == ref_remove(hsview(it.history@), self.name@),
    //@| loophead 0: proof { lemma_hsview_push(it.history@, header); lemma_hsview_push(new_headers@, header); lemma_remove_push(hsview(it.history@), hview(header), self.name@); }
    //@| loopend 0: proof { assert(h0.take(h0.len() as int) =~= h0); }
}

impl HeaderAction for HeaderReplaceAction {
    open spec fn op(&self, hs: HV) -> HV { ref_replace(hs, self.name@, self.value@) }
    //@@ fn src/filter/header_action/header_replace.rs :: impl HeaderAction for HeaderReplaceAction / fn filter
    //@| forlabel 0: it
    //@| loopbefore 0: let ghost h0 = headers@;
    //@| loop 0: invariant iter_ok(it.history@, it.index@, it.snapshot@.remaining(), h0),
    //@|     hsview(new_headers@) == ref_replace(hsview(it.history@), self.name@, self.value@),
    //@| loophead 0: proof { lemma_hsview_push(it.history@, header); lemma_hsview_push(new_headers@, header); lemma_replace_push(hsview(it.history@), hview(header), self.name@, self.value@); }
    //@| loopend 0: proof { assert(h0.take(h0.len() as int) =~= h0); }
}

impl HeaderAction for HeaderOverrideAction {
    open spec fn op(&self, hs: HV) -> HV { ref_override(hs, self.name@, self.value@) }
    //@@ fn src/filter/header_action/header_override.rs :: impl HeaderAction for HeaderOverrideAction / fn filter
    //@| forlabel 0: it
    //@| loopbefore 0: let ghost h0 = headers@;
    //@| loop 0: invariant iter_ok(it.history@, it.index@, it.snapshot@.remaining(), h0),
    //@|     hsview(new_headers@) == ref_replace(hsview(it.history@), self.name@, self.value@),
    //@|     found == has(hsview(it.history@), self.name@),
    //@| before `if !found {`: let ghost nh = new_headers@;
    //@| before `if let (Some(trace), Some(id)) = (unit_trace, &self.id) {`: proof { if !found { lemma_hsview_push(nh, new_headers@.last()); assert(new_headers@ =~= nh.push(new_headers@.last())); } }
    //@| loophead 0: proof { lemma_hsview_push(it.history@, header); lemma_hsview_push(new_headers@, header); lemma_replace_push(hsview(it.history@), hview(header), self.name@, self.value@); lemma_has_push(hsview(it.history@), hview(header), self.name@); }
    //@| loopend 0: proof { assert(h0.take(h0.len() as int) =~= h0); }
}

impl HeaderAction for HeaderDefaultAction {
    open spec fn op(&self, hs: HV) -> HV { ref_default(hs, self.name@, self.value@) }
    //@@ fn src/filter/header_action/header_default.rs :: impl HeaderAction for HeaderDefaultAction / fn filter
    //@| forlabel 0: it
    //@| loopbefore 0: let ghost h0 = headers@;
    //@| loop 0: invariant headers@ == h0, iter_ref_ok(it.history@, it.index@, it.snapshot@.remaining(), h0),
    //@|         found ==> has(hsview(h0), self.name@),
    //@|         !found ==> forall|i: int| 0 <= i < it.index@ ==> !ci(#[trigger] hsview(h0)[i].0, self.name@),
    //@|     ensures found == has(hsview(h0), self.name@), headers@ == h0,
    //@| before `found = true;`: proof { assert(hsview(h0)[it.index@ as int].0 == header.name@); }
    //@| before `if let (Some(trace), Some(id)) = (unit_trace, &self.id) {`: proof { lemma_hsview_push(h0, headers@.last()); assert(headers@ =~= h0.push(headers@.last())); }
}


//@@ strip-path header_add::
//@@ strip-path header_remove::
//@@ strip-path header_replace::
//@@ strip-path header_override::
//@@ strip-path header_default::
//@@ strip-path header_action::
//@@ fn src/filter/header_action/mod.rs :: fn create_header_action -> r
//@| entry proof { reveal_strlit("add"); reveal_strlit("remove"); reveal_strlit("replace"); reveal_strlit("override"); reveal_strlit("default"); }
//@| ensures r.is_some() == filter_known(*header_filter),
//@|     r.is_some() ==> forall|hs: HV| #[trigger] r.unwrap().op(hs) == filter_op(*header_filter, hs),

//@@ item src/filter/filter_header.rs :: struct FilterHeaderAction

pub open spec fn fold_ops(actions: Seq<Box<dyn HeaderAction>>, hs: HV) -> HV
    decreases actions.len()
{
    if actions.len() == 0 { hs } else { actions.last().op(fold_ops(actions.drop_last(), hs)) }
}
pub proof fn lemma_any_known_push(fs: Seq<HeaderFilter>, f: HeaderFilter)
    ensures any_known(fs.push(f)) == (any_known(fs) || filter_known(f)),
{
    let p = fs.push(f);
    if any_known(fs) {
        let i = choose|i: int| 0 <= i < fs.len() && filter_known(#[trigger] fs[i]);
        assert(filter_known(p[i]));
    }
    if filter_known(f) { assert(filter_known(p[fs.len() as int])); }
    if any_known(p) {
        let i = choose|i: int| 0 <= i < p.len() && filter_known(#[trigger] p[i]);
        if i < fs.len() { assert(filter_known(fs[i])); }
    }
}
pub proof fn lemma_fold_some(actions: Seq<Box<dyn HeaderAction>>, fs: Seq<HeaderFilter>, f: HeaderFilter, a: Box<dyn HeaderAction>)
    requires
        forall|hs: HV| #[trigger] fold_ops(actions, hs) == fold_filters(fs, hs),
        forall|hs: HV| #[trigger] a.op(hs) == filter_op(f, hs),
    ensures
        forall|hs: HV| #[trigger] fold_ops(actions.push(a), hs) == fold_filters(fs.push(f), hs),
{
    assert(fs.push(f).drop_last() =~= fs);
    assert(actions.push(a).drop_last() =~= actions);
    assert forall|hs: HV| #[trigger] fold_ops(actions.push(a), hs) == fold_filters(fs.push(f), hs) by {
        assert(fold_ops(actions, hs) == fold_filters(fs, hs));
        assert(a.op(fold_ops(actions, hs)) == filter_op(f, fold_ops(actions, hs)));
    }
}
pub proof fn lemma_fold_none(actions: Seq<Box<dyn HeaderAction>>, fs: Seq<HeaderFilter>, f: HeaderFilter)
    requires
        forall|hs: HV| #[trigger] fold_ops(actions, hs) == fold_filters(fs, hs),
        !filter_known(f),
    ensures
        forall|hs: HV| #[trigger] fold_ops(actions, hs) == fold_filters(fs.push(f), hs),
{
    assert(fs.push(f).drop_last() =~= fs);
    assert forall|hs: HV| #[trigger] fold_ops(actions, hs) == fold_filters(fs.push(f), hs) by {
        assert(fold_ops(actions, hs) == fold_filters(fs, hs));
    }
}

impl FilterHeaderAction {
    //@@ fn src/filter/filter_header.rs :: impl FilterHeaderAction / fn new -> r
    //@| ensures r.is_some() == any_known(filters@),
    //@|     r.is_some() ==> forall|hs: HV| #[trigger] fold_ops(r.unwrap().actions@, hs) == fold_filters(filters@, hs),
    //@| forlabel 0: it
    //@| loop 0: invariant iter_ref_ok(it.history@, it.index@, it.snapshot@.remaining(), filters@),
    //@|     forall|hs: HV| #[trigger] fold_ops(actions@, hs) == fold_filters(filters@.take(it.index@), hs),
    //@|     (actions@.len() > 0) == any_known(filters@.take(it.index@)),
    //@| loophead 0: let ghost k = it.index@; let ghost acts0 = actions@;
    //@|     proof { assert(filters@.take(k + 1) =~= filters@.take(k).push(*filter)); lemma_any_known_push(filters@.take(k), *filter); }
    //@| after `if let Some(action_filter) = header_action::create_header_action(filter) {`: proof { lemma_fold_some(acts0, filters@.take(k), *filter, action_filter); }
    //@| looptail 0: proof { if !filter_known(*filter) { lemma_fold_none(acts0, filters@.take(k), *filter); } }
    //@| loopend 0: proof { assert(filters@.take(filters@.len() as int) =~= filters@); }

    //@@ fn src/filter/filter_header.rs :: impl FilterHeaderAction / fn filter -> r
    //@| ensures hsview(r@) == fold_ops(self.actions@, hsview(headers@)),
    //@| forlabel 0: it
    //@| loopbefore 0: let ghost h0 = hsview(headers@);
    //@| loop 0: invariant hsview(headers@) == fold_ops(self.actions@.take(it.index@), h0),
    //@|     0 <= it.index@ <= self.actions@.len(), it.history@.len() == it.index@,
    //@|     forall|i: int| 0 <= i < it.index@ ==> *it.history@[i] == self.actions@[i],
    //@| loophead 0: proof { let k = it.index@; assert(self.actions@.take(k + 1).drop_last() == self.actions@.take(k)); assert(self.actions@.take(k + 1).last() == self.actions@[k]); }
    //@| loopend 0: proof { assert(self.actions@.take(self.actions@.len() as int) == self.actions@); }
}

} // verus!
fn main() {}

//@@ include ../common/prelude.rs
// Unit `mrk` — marker / variable substitution (C10): transformer chains applied in order, the substitution list is ordered longest
// name first, substitution folds over that list in order. Regex capture itself (regex crate) is NOT under contract.
verus! {

//@@ include ../common/vec_specs.rs
use vstd::std_specs::hash::*;
#[verifier::external_body] pub proof fn axiom_string_ext() ensures forall|a: String, b: String| #[trigger] a@ == #[trigger] b@ ==> a == b {}
#[verifier::external_body] pub broadcast proof fn axiom_string_key_model() ensures #[trigger] obeys_key_model::<String>() {}
// ASSUMED (trusted, listed): a &str key finds exactly the String key with the same characters (Borrow<str> for String)
#[verifier::external_body]
pub broadcast proof fn axiom_borrow_str_contains<V>(m: Map<String, V>, k: &str)
    ensures #[trigger] contains_borrowed_key::<String, V, str>(m, k) == (exists|key: String| key@ == k@ && m.contains_key(key)),
{}
#[verifier::external_body]
pub broadcast proof fn axiom_borrow_str_maps<V>(m: Map<String, V>, k: &str, v: V)
    ensures #[trigger] maps_borrowed_key_to_value::<String, V, str>(m, k, v) == (exists|key: String| key@ == k@ && m.contains_key(key) && m[key] == v),
{}

// ---- SHIMS (opaque foreign / out-of-unit types; results unconstrained unless a spec function is named)
#[verifier::external_body] pub struct IpAddr { x: u8 }
#[verifier::external_body] pub struct Utc { x: u8 }
#[verifier::external_body] #[verifier::accept_recursive_types(Tz)] pub struct DateTime<Tz> { x: std::marker::PhantomData<Tz> }
impl Clone for IpAddr { #[verifier::external_body] fn clone(&self) -> (r: Self) ensures r == *self { unimplemented!() } }
impl Copy for IpAddr {}
impl<Tz> Clone for DateTime<Tz> { #[verifier::external_body] fn clone(&self) -> (r: Self) ensures r == *self { unimplemented!() } }
impl<Tz> Copy for DateTime<Tz> {}
impl IpAddr { #[verifier::external_body] pub fn to_string(&self) -> String { unimplemented!() } }
impl<Tz> DateTime<Tz> { #[verifier::external_body] pub fn to_rfc2822(&self) -> String { unimplemented!() } }
//@@ item src/http/header.rs :: struct Header
//@@ item src/http/query.rs :: struct PathAndQueryWithSkipped
//@@ item src/http/request.rs :: struct Request
impl Request {
    #[verifier::external_body] pub fn header_value(&self, name: &str) -> Option<String> { unimplemented!() }
}

// `trait Transform` with a specification function naming what each implementation computes (trait-level spec; the individual
// transformers' bodies are extracted below; Slice::transform is verified in unit misc)
pub trait Transform {
    spec fn tr(&self, s: Seq<char>) -> Seq<char>;
    fn transform(&self, str: String) -> (r: String) ensures r@ == self.tr(str@);
}
//@@ item src/api/transformer.rs :: struct Transformer
// the individual transformers: the library functions they wrap (heck / std) are uninterpreted functions of the input; Replace / Slice carry
// their parameters
pub uninterp spec fn camel(s: Seq<char>) -> Seq<char>;
pub uninterp spec fn kebab(s: Seq<char>) -> Seq<char>;
pub uninterp spec fn snake(s: Seq<char>) -> Seq<char>;
pub uninterp spec fn lowerc(s: Seq<char>) -> Seq<char>;
pub uninterp spec fn upperc(s: Seq<char>) -> Seq<char>;
pub uninterp spec fn replaced(s: Seq<char>, something: Seq<char>, with: Seq<char>) -> Seq<char>;
pub uninterp spec fn sliced(s: Seq<char>, from: usize, to: Option<usize>) -> Seq<char>;
//@@ item src/marker/transformer/camelize.rs :: struct Camelize
//@@ item src/marker/transformer/dasherize.rs :: struct Dasherize
//@@ item src/marker/transformer/lowercase.rs :: struct Lowercase
//@@ item src/marker/transformer/underscorize.rs :: struct Underscorize
//@@ item src/marker/transformer/uppercase.rs :: struct Uppercase
//@@ item src/marker/transformer/replace.rs :: struct Replace
//@@ item src/marker/transformer/slice.rs :: struct Slice
// std / heck case functions: ASSUMED specifications, one uninterpreted function per library function (so two different library functions
// are never taken for the same mapping); the transformers' own bodies are extracted and verified against the mapping their name states
pub uninterp spec fn ascii_lowerc(s: Seq<char>) -> Seq<char>;
pub uninterp spec fn ascii_upperc(s: Seq<char>) -> Seq<char>;
pub uninterp spec fn upper_camel(s: Seq<char>) -> Seq<char>;
pub uninterp spec fn shouty_snake(s: Seq<char>) -> Seq<char>;
pub uninterp spec fn title_case(s: Seq<char>) -> Seq<char>;
pub assume_specification [str::to_lowercase] (s: &str) -> (r: std::string::String) ensures r@ == lowerc(s@);
pub assume_specification [str::to_uppercase] (s: &str) -> (r: std::string::String) ensures r@ == upperc(s@);
pub assume_specification [str::to_ascii_lowercase] (s: &str) -> (r: std::string::String) ensures r@ == ascii_lowerc(s@);
pub assume_specification [str::to_ascii_uppercase] (s: &str) -> (r: std::string::String) ensures r@ == ascii_upperc(s@);
// R8 outline (str::replace is generic over the unstable Pattern trait; no assume_specification can name it): ASSUMED summary
#[verifier::external_body] pub fn outl_replace_tr(s: &String, from: &str, to: &str) -> (r: String) ensures r@ == replaced(s@, from@, to@) { /* verbatim: str.replace(self.something.as_str(), self.with.as_str()) */ s.replace(from, to) }
// SHIM of the heck case-conversion traits (ToLowerCamelCase, ToKebabCase, ToSnakeCase, ...), implemented for String
pub trait HeckCase {
    spec fn hv(&self) -> Seq<char>;
    fn to_lower_camel_case(&self) -> (r: String) ensures r@ == camel(self.hv());
    fn to_upper_camel_case(&self) -> (r: String) ensures r@ == upper_camel(self.hv());
    fn to_kebab_case(&self) -> (r: String) ensures r@ == kebab(self.hv());
    fn to_snake_case(&self) -> (r: String) ensures r@ == snake(self.hv());
    fn to_shouty_snake_case(&self) -> (r: String) ensures r@ == shouty_snake(self.hv());
    fn to_title_case(&self) -> (r: String) ensures r@ == title_case(self.hv());
}
impl HeckCase for String {
    open spec fn hv(&self) -> Seq<char> { self@ }
    #[verifier::external_body] fn to_lower_camel_case(&self) -> (r: String) { unimplemented!() }
    #[verifier::external_body] fn to_upper_camel_case(&self) -> (r: String) { unimplemented!() }
    #[verifier::external_body] fn to_kebab_case(&self) -> (r: String) { unimplemented!() }
    #[verifier::external_body] fn to_snake_case(&self) -> (r: String) { unimplemented!() }
    #[verifier::external_body] fn to_shouty_snake_case(&self) -> (r: String) { unimplemented!() }
    #[verifier::external_body] fn to_title_case(&self) -> (r: String) { unimplemented!() }
}
// each transformer computes the mapping its name states (trait-level contract: r@ == self.tr(str@))
impl Transform for Camelize {
    open spec fn tr(&self, s: Seq<char>) -> Seq<char> { camel(s) }
    //@@ fn src/marker/transformer/camelize.rs :: impl Transform for Camelize / fn transform
}
impl Transform for Dasherize {
    open spec fn tr(&self, s: Seq<char>) -> Seq<char> { kebab(s) }
    //@@ fn src/marker/transformer/dasherize.rs :: impl Transform for Dasherize / fn transform
}
impl Transform for Lowercase {
    open spec fn tr(&self, s: Seq<char>) -> Seq<char> { lowerc(s) }
    //@@ fn src/marker/transformer/lowercase.rs :: impl Transform for Lowercase / fn transform
}
impl Transform for Underscorize {
    open spec fn tr(&self, s: Seq<char>) -> Seq<char> { snake(s) }
    //@@ fn src/marker/transformer/underscorize.rs :: impl Transform for Underscorize / fn transform
}
impl Transform for Uppercase {
    open spec fn tr(&self, s: Seq<char>) -> Seq<char> { upperc(s) }
    //@@ fn src/marker/transformer/uppercase.rs :: impl Transform for Uppercase / fn transform
}
impl Transform for Replace {
    open spec fn tr(&self, s: Seq<char>) -> Seq<char> { replaced(s, self.something@, self.with@) }
    //@@ fn src/marker/transformer/replace.rs :: impl Transform for Replace / fn transform
    //@| outline `str.replace(self.something.as_str(), self.with.as_str())` => `outl_replace_tr(&str, self.something.as_str(), self.with.as_str())`
}
impl Transform for Slice { open spec fn tr(&self, s: Seq<char>) -> Seq<char> { sliced(s, self.from, self.to) } #[verifier::external_body] fn transform(&self, str: String) -> (r: String) { unimplemented!() } }
impl Replace {
    //@@ fn src/marker/transformer/replace.rs :: impl Replace / fn new -> r
    //@| ensures r.something == something, r.with == with,
}
impl Slice {
    //@@ fn src/marker/transformer/slice.rs :: impl Slice / fn new -> r
    //@| ensures r.from == from, r.to == to,
}
#[verifier::external_type_specification] #[verifier::external_body] pub struct ExParseIntError(std::num::ParseIntError);
pub assume_specification<T, E> [std::result::Result::<T, E>::unwrap_or] (r: std::result::Result<T, E>, d: T) -> (o: T) ensures o == (match r { Ok(v) => v, Err(_) => d });
// usize::from_str: an uninterpreted partial function of the text (ASSUMED: returns, deterministic)
pub uninterp spec fn parse_usize(s: Seq<char>) -> Option<usize>;
#[verifier::external_body] pub fn outl_usize_from_str(s: &str) -> (r: std::result::Result<usize, std::num::ParseIntError>)
    ensures match r { Ok(v) => parse_usize(s@) == Some(v), Err(_) => parse_usize(s@) is None },
{ /* verbatim: usize::from_str */ <usize as std::str::FromStr>::from_str(s) }
pub open spec fn opt_has(t: Transformer, k: Seq<char>) -> bool {
    t.options matches Some(o) && exists|key: String| key@ == k && o@.contains_key(key)
}
pub open spec fn opt_val(t: Transformer, k: Seq<char>) -> Seq<char> {
    let o = t.options.unwrap(); let key = choose|key: String| key@ == k && o@.contains_key(key); o@[key]@
}
// which transformer descriptions denote a transformer (statement: "applying the marker's transformers in order"; unknown kinds and
// incomplete option maps are skipped)
pub open spec fn tf_some(t: Transformer) -> bool {
    match t.kind {
        None => false,
        Some(k) => k@ == "camelize"@ || k@ == "dasherize"@ || k@ == "lowercase"@ || k@ == "underscorize"@ || k@ == "uppercase"@
            || (k@ == "replace"@ && opt_has(t, "something"@) && opt_has(t, "with"@))
            || (k@ == "slice"@ && opt_has(t, "from"@) && opt_has(t, "to"@)),
    }
}
// ... and what the denoted transformer computes
pub open spec fn tf_apply(t: Transformer, s: Seq<char>) -> Seq<char> {
    let k = t.kind.unwrap()@;
    if k == "camelize"@ { camel(s) } else if k == "dasherize"@ { kebab(s) } else if k == "lowercase"@ { lowerc(s) }
    else if k == "underscorize"@ { snake(s) } else if k == "uppercase"@ { upperc(s) }
    else if k == "replace"@ { replaced(s, opt_val(t, "something"@), opt_val(t, "with"@)) }
    else { sliced(s, match parse_usize(opt_val(t, "from"@)) { Some(v) => v, None => 0 }, parse_usize(opt_val(t, "to"@))) }
}
impl Transformer {
    //@@ fn src/api/transformer.rs :: impl Transformer / fn to_transform -> r
    //@| ensures r is Some == tf_some(*self), r matches Some(b) ==> forall|s: Seq<char>| #[trigger] b.tr(s) == tf_apply(*self, s),
    //@| entry broadcast use vstd::std_specs::hash::group_hash_axioms; broadcast use axiom_string_key_model; broadcast use axiom_borrow_str_contains; broadcast use axiom_borrow_str_maps;
    //@|     proof { axiom_string_ext(); axiom_str_ext(); reveal_strlit("camelize"); reveal_strlit("dasherize"); reveal_strlit("lowercase"); reveal_strlit("replace"); reveal_strlit("slice"); reveal_strlit("underscorize"); reveal_strlit("uppercase"); reveal_strlit("something"); reveal_strlit("with"); reveal_strlit("from"); reveal_strlit("to"); }
    //@| replace `usize::from_str(`#0 => `outl_usize_from_str(` :: usize::from_str has no Verus spec; named uninterpreted function
    //@| replace `usize::from_str(`#1 => `outl_usize_from_str(` :: usize::from_str has no Verus spec; named uninterpreted function
}
// reference: transformers applied left to right, unknown ones skipped
pub open spec fn chain(ts: Seq<Transformer>, s: Seq<char>) -> Seq<char>
    decreases ts.len()
{ if ts.len() == 0 { s } else { let p = chain(ts.drop_last(), s); if tf_some(ts.last()) { tf_apply(ts.last(), p) } else { p } } }

//@@ item src/api/marker.rs :: struct Marker
impl Marker {
    // R7: `impl Transform for Marker` verified as an inherent method
    //@@ fn src/api/marker.rs :: impl Transform for Marker / fn transform -> r
    //@| ensures r@ == chain(self.transformers@, value@),
    //@| opt r6:0
    //@| forlabel 0: it
    //@| loopbefore 0: let ghost v0 = value@;
    //@| loop 0: invariant iter_ref_ok(it.history@, it.index@, it.snapshot@.remaining(), self.transformers@),
    //@|     value@ == chain(self.transformers@.take(it.index@), v0),
    //@| loophead 0: proof { let k = it.index@ as int; assert(*transformer == self.transformers@[k]); assert(self.transformers@.take(k + 1).drop_last() =~= self.transformers@.take(k)); assert(self.transformers@.take(k + 1).last() == self.transformers@[k]); }
    //@| loopend 0: proof { assert(self.transformers@.take(self.transformers@.len() as int) =~= self.transformers@); }
}

//@@ item src/api/variable.rs :: enum VariableKind
//@@ item src/api/variable.rs :: struct Variable
pub open spec fn captured_or_empty(m: Map<String, String>, n: Seq<char>) -> Seq<char> {
    if exists|k: String| k@ == n && m.contains_key(k) { let k = choose|k: String| k@ == n && m.contains_key(k); m[k]@ } else { Seq::empty() }
}
impl Variable {
    //@@ fn src/api/variable.rs :: impl Variable / fn get_value -> r
    //@| ensures exists|v0: Seq<char>| r@ == chain(self.transformers@, v0) && (self.kind matches VariableKind::Marker(n) ==> v0 == captured_or_empty(markers_captured@, n@)),
    //@| closure `||` => `|| -> (vf_r: String)`
    //@| closure `|addr|` => `|addr: IpAddr| -> (vf_r: String)`
    //@| closure `|d|` => `|d: DateTime<Utc>| -> (vf_r: String)`
    //@| opt r6:0
    //@| forlabel 0: it
    //@| loopbefore 0: let ghost v0 = value@;
    //@| loop 0: invariant iter_ref_ok(it.history@, it.index@, it.snapshot@.remaining(), self.transformers@),
    //@|     value@ == chain(self.transformers@.take(it.index@), v0),
    //@| loophead 0: proof { let k = it.index@ as int; assert(*transformer == self.transformers@[k]); assert(self.transformers@.take(k + 1).drop_last() =~= self.transformers@.take(k)); assert(self.transformers@.take(k + 1).last() == self.transformers@[k]); }
    //@| entry broadcast use vstd::std_specs::hash::group_hash_axioms; broadcast use axiom_string_key_model; broadcast use axiom_borrow_str_contains; broadcast use axiom_borrow_str_maps; proof { axiom_string_ext(); }
    //@| loopend 0: proof { assert(self.transformers@.take(self.transformers@.len() as int) =~= self.transformers@); assert(value@ == chain(self.transformers@, v0)); }
}

// ================================================================ Rule::variables: the substitution list (C10 "longer names first")
// SHIM: only the two fields of api::Rule this function reads
pub struct Rule { pub markers: Vec<Marker>, pub variables: Vec<Variable> }
pub open spec fn name_len(p: (String, String)) -> nat { vstd::utf8::encode_utf8(p.0@).len() }
// longest name first: name lengths (in bytes, as String::len) never increase along the list
pub open spec fn longest_first(s: Seq<(String, String)>) -> bool {
    forall|i: int, j: int| 0 <= i < j < s.len() ==> name_len(#[trigger] s[i]) >= name_len(#[trigger] s[j])
}
// R8 outline (ASSUMED contract, trusted, listed): slice::sort_by with the comparator `key_b.len().cmp(&key_a.len())` is a stable sort by
// descending name length: the result is a permutation of the input in which name lengths never increase. Verus has no specification
// for sort_by and rejects `_` closure parameters; the comparator text is part of the anchor, so a changed comparator loses the outline.
#[verifier::external_body]
pub fn outl_sort_longest_name_first(variables: &mut Vec<(String, String)>)
    ensures longest_first(final(variables)@), final(variables)@.to_multiset() == old(variables)@.to_multiset(),
{ /* verbatim: variables.sort_by(|(key_a, _), (key_b, _)| key_b.len().cmp(&key_a.len())); */ variables.sort_by(|(key_a, _), (key_b, _)| key_b.len().cmp(&key_a.len())); }
impl Rule {
    #[verifier::external_body] pub fn get_marker(&self, name: &str) -> Option<&Marker> { unimplemented!() }
    //@@ fn src/api/rule.rs :: impl Rule / fn variables -> r
    //@| ensures longest_first(r@),
    //@|   self.variables@.len() > 0 ==> r@.len() == self.variables@.len(),
    //@| outline `variables.sort_by(|(key_a, _), (key_b, _)| key_b.len().cmp(&key_a.len()));` => `outl_sort_longest_name_first(&mut variables);`
    //@| entry broadcast use vstd::std_specs::hash::group_hash_axioms; broadcast use axiom_string_key_model; broadcast use vstd::seq_lib::group_to_multiset_ensures;
    //@| opt r6i:0
    //@| opt r6:1
    //@| opt r6:2
    //@| forlabel 2: it2
    //@| loop 2: invariant iter_ref_ok(it2.history@, it2.index@, it2.snapshot@.remaining(), self.variables@), variables@.len() == it2.index@,
    //@| before `variables.sort_by(`: let ghost vf_pre = variables@;
    //@| after `variables.sort_by(|(key_a, _), (key_b, _)| key_b.len().cmp(&key_a.len()));`: proof { assert(variables@.to_multiset().len() == vf_pre.to_multiset().len()); }
}

// ================================================================ StaticOrDynamic::replace: substitution folds over the list in order
pub uninterp spec fn subst(s: Seq<char>, name: Seq<char>, value: Seq<char>) -> Seq<char>;
// R8 outline (ASSUMED contract): `str.replace("@" + name, value)` is the uninterpreted substitution subst(str, name, value)
#[verifier::external_body]
pub fn outl_replace_var(s: &String, name: &String, value: &String) -> (r: String)
    ensures r@ == subst(s@, name@, value@),
{ /* verbatim: str.replace(format!("@{name}").as_str(), value.as_str()) */ s.replace(format!("@{name}").as_str(), value.as_str()) }
pub open spec fn subst_all(s: Seq<char>, vars: Seq<(String, String)>) -> Seq<char>
    decreases vars.len()
{ if vars.len() == 0 { s } else { subst(subst_all(s, vars.drop_last()), vars.last().0@, vars.last().1@) } }
//@@ item src/marker/mod.rs :: enum StaticOrDynamic
impl StaticOrDynamic {
    //@@ fn src/marker/mod.rs :: impl StaticOrDynamic / fn replace -> r
    //@| ensures r@ == subst_all(str@, variables@),
    //@| outline `str.replace(format!("@{name}").as_str(), value.as_str())` => `outl_replace_var(&str, name, value)`
    //@| forlabel 0: it
    //@| loopbefore 0: let ghost s0 = str@;
    //@| loop 0: invariant iter_ref_ok(it.history@, it.index@, it.snapshot@.remaining(), variables@), str@ == subst_all(s0, variables@.take(it.index@)),
    //@| loophead 0: proof { let k = it.index@ as int; assert(variables@.take(k + 1).drop_last() =~= variables@.take(k)); assert(variables@.take(k + 1).last() == variables@[k]); }
    //@| loopend 0: proof { assert(variables@.take(variables@.len() as int) =~= variables@); }
}

// ================================================================ MarkerString::new: marker patterns are substituted longest NAME first (C10)
use std::cmp::Ordering;
use std::sync::Arc;
// SHIMS (opaque): the lazily compiled capture regex behind Arc<RwLock<_>>
#[verifier::external_body] pub struct LazyRegex { x: u8 }
#[verifier::external_body] #[verifier::accept_recursive_types(V)] pub struct RwLock<V> { h: std::marker::PhantomData<V> }
impl LazyRegex { #[verifier::external_body] pub fn new_leaf(regex: &str, ignore_case: bool) -> LazyRegex { unimplemented!() } }
impl<V> RwLock<V> { #[verifier::external_body] pub fn new(v: V) -> RwLock<V> { unimplemented!() } }
//@@ rename Marker RouteMarker
//@@ item src/marker/mod.rs :: struct Marker
//@@ item src/marker/mod.rs :: struct MarkerString
pub open spec fn blen(s: Seq<char>) -> nat { vstd::utf8::encode_utf8(s).len() }
pub open spec fn at_name(m: RouteMarker) -> Seq<char> { seq!['@'] + m.name@ }
// foreign string functions (regex::escape, str::contains, str::replace, format!): uninterpreted / outlined with assumed contracts
pub uninterp spec fn escaped(s: Seq<char>) -> Seq<char>;
pub uninterp spec fn scontains(s: Seq<char>, pat: Seq<char>) -> bool;
pub uninterp spec fn sreplace(s: Seq<char>, pat: Seq<char>, with: Seq<char>) -> Seq<char>;
pub open spec fn grp_plain(m: RouteMarker) -> Seq<char> { "(?:"@ + m.regex@ + ")"@ }
pub open spec fn grp_named(m: RouteMarker) -> Seq<char> { "(?P<"@ + m.name@ + ">"@ + m.regex@ + ")"@ }
#[verifier::external_body] pub fn outl_regex_escape(s: &str) -> (r: String) ensures r@ == escaped(s@) { /* verbatim: regex::escape(str) */ unimplemented!() }
#[verifier::external_body] pub fn outl_fmt_plain(m: &RouteMarker) -> (r: String) ensures r@ == grp_plain(*m) { /* verbatim: format!("(?:{})", marker.regex) */ unimplemented!() }
#[verifier::external_body] pub fn outl_fmt_named(m: &RouteMarker) -> (r: String) ensures r@ == grp_named(*m) { /* verbatim: format!("(?P<{}>{})", marker.name, marker.regex) */ unimplemented!() }
#[verifier::external_body] pub fn outl_contains(s: &String, pat: &str) -> (r: bool) ensures r == scontains(s@, pat@) { /* verbatim: regex.contains(marker.format().as_str()) */ unimplemented!() }
#[verifier::external_body] pub fn outl_sreplace(s: &String, pat: &str, with: &str) -> (r: String) ensures r@ == sreplace(s@, pat@, with@) { /* verbatim: regex.replace(marker.format().as_str(), marker_regex.as_str()) | capture.replace(marker.format().as_str(), marker_capture.as_str()) */ unimplemented!() }
impl RouteMarker {
    #[verifier::external_body] pub fn format(&self) -> (r: String) ensures r@ == at_name(*self) { unimplemented!() }
}
// ASSUMED specification of slice::sort_by (vstd has none): the result is a permutation in which no element is Greater than a later one
// according to the comparator — the comparator itself is the REAL closure, verified in place against its annotated contract
pub assume_specification<T, F: FnMut(&T, &T) -> Ordering> [<[T]>::sort_by] (v: &mut [T], f: F)
    requires forall|a: &T, b: &T| #[trigger] f.requires((a, b)),
    ensures final(v)@.to_multiset() == old(v)@.to_multiset(), final(v)@.len() == old(v)@.len(),
        forall|i: int, j: int| #![trigger final(v)@[i], final(v)@[j]] 0 <= i < j < final(v)@.len() ==> exists|o: Ordering| #[trigger] f.ensures((&final(v)@[i], &final(v)@[j]), o) && !(o is Greater);
pub open spec fn len_order(a: RouteMarker, b: RouteMarker) -> Ordering {
    // "longer names first": a goes before b when its name is longer
    if blen(b.name@) < blen(a.name@) { Ordering::Less } else if blen(b.name@) == blen(a.name@) { Ordering::Equal } else { Ordering::Greater }
}
pub open spec fn longest_name_first(ms: Seq<RouteMarker>) -> bool { forall|i: int, j: int| 0 <= i < j < ms.len() ==> blen(#[trigger] ms[i].name@) >= blen(#[trigger] ms[j].name@) }
// reference: substitute the markers in list order, each only if its reference still occurs
pub open spec fn fold_plain(s: Seq<char>, ms: Seq<RouteMarker>) -> Seq<char>
    decreases ms.len()
{ if ms.len() == 0 { s } else { let p = fold_plain(s, ms.drop_last()); let m = ms.last(); if scontains(p, at_name(m)) { sreplace(p, at_name(m), grp_plain(m)) } else { p } } }
pub open spec fn fold_named(s: Seq<char>, c: Seq<char>, ms: Seq<RouteMarker>) -> Seq<char>
    decreases ms.len()
{ if ms.len() == 0 { c } else { let m = ms.last(); if scontains(fold_plain(s, ms.drop_last()), at_name(m)) { sreplace(fold_named(s, c, ms.drop_last()), at_name(m), grp_named(m)) } else { fold_named(s, c, ms.drop_last()) } } }
impl MarkerString {
    //@@ fn src/marker/mod.rs :: impl MarkerString / fn new -> r
    //@| ensures exists|sorted: Seq<RouteMarker>| #[trigger] longest_name_first(sorted) && sorted.to_multiset() == markers@.to_multiset()
    //@|     && (r matches Some(ms) ==> ms.regex@ == fold_plain(escaped(str@), sorted) && ms.capture@ == fold_named(escaped(str@), escaped(str@), sorted) && ms.ignore_case == ignore_case),
    //@| outline `regex::escape(str)` => `outl_regex_escape(str)`
    //@| outline `format!("(?:{})", marker.regex)` => `outl_fmt_plain(marker)`
    //@| outline `format!("(?P<{}>{})", marker.name, marker.regex)` => `outl_fmt_named(marker)`
    //@| outline `regex.contains(marker.format().as_str())` => `outl_contains(&regex, marker.format().as_str())`
    //@| outline `regex.replace(marker.format().as_str(), marker_regex.as_str())` => `outl_sreplace(&regex, marker.format().as_str(), marker_regex.as_str())`
    //@| outline `capture.replace(marker.format().as_str(), marker_capture.as_str())` => `outl_sreplace(&capture, marker.format().as_str(), marker_capture.as_str())`
    //@| closure `|a, b|` => `|a: &RouteMarker, b: &RouteMarker| -> (o: Ordering) ensures o == len_order(*a, *b)`
    //@| opt r6:0
    //@| attr #[verifier::loop_isolation(false)]
    //@| entry broadcast use vstd::std_specs::hash::group_hash_axioms; broadcast use axiom_string_key_model; broadcast use vstd::laws_cmp::group_laws_cmp;
    //@|     let ghost e0 = escaped(str@);
    //@| forlabel 0: it
    //@| loopbefore 0: let ghost sorted = markers@; proof { assert(longest_name_first(sorted)) by {
    //@|     assert forall|i: int, j: int| 0 <= i < j < sorted.len() implies blen(#[trigger] sorted[i].name@) >= blen(#[trigger] sorted[j].name@) by {
    //@|         assert(!(len_order(sorted[i], sorted[j]) is Greater)); } } }
    //@| loop 0: invariant iter_ref_ok(it.history@, it.index@, it.snapshot@.remaining(), sorted), markers@ == sorted,
    //@|     regex@ == fold_plain(e0, sorted.take(it.index@)), capture@ == fold_named(e0, e0, sorted.take(it.index@)),
    //@| loophead 0: let ghost k = it.index@ as int; proof { assert(*marker == sorted[k]); assert(sorted.take(k + 1).drop_last() =~= sorted.take(k)); assert(sorted.take(k + 1).last() == sorted[k]); }
    //@| loopend 0: proof { assert(sorted.take(sorted.len() as int) =~= sorted); }
}
impl StaticOrDynamic {
    // C09 (rule side): the static form of a rule's path / host is the text itself, lower-cased exactly when case-insensitivity is configured —
    // whether or not the rule declares markers (a rule whose markers do not occur in this text is static too); without markers the form is static
    //@@ fn src/marker/mod.rs :: impl StaticOrDynamic / fn new_with_markers -> r
    //@| ensures r matches StaticOrDynamic::Static(s) ==> s@ == (if ignore_case { lowerc(str@) } else { str@ }),
    //@|     markers@.len() == 0 ==> r is Static,
}
//@@ unrename Marker

// ---- PINS: functions of /repo this unit (or the property it serves) only ASSUMES something about — a hand-written shim stands for them, or nothing at
// all does. The assumption was made for one text of each; the token hash ties it to that text: a change makes the unit UNDECIDED (exit 2), never OK.
//@@ pin src/api/rule.rs :: impl Rule / fn get_marker = e3f1be81f83d
//@@ strlits
} // verus!
fn main() {}

//@@ include ../common/prelude.rs
// Unit `tok` — property C16 (HTML tokenizer lossless and total), feeds C07 (no panic / termination)
use std::result;
use crate::TokenType::{CommentToken, DoctypeToken, EndTagToken, ErrorToken, SelfClosingTagToken, StartTagToken, TextToken};
verus! {

#[verifier::external_type_specification]
#[verifier::external_body]
pub struct ExIoError(std::io::Error);
#[verifier::external_type_specification]
#[verifier::external_body]
pub struct ExFromUtf8Error(std::string::FromUtf8Error);

// ---------------------------------------------------------------- assumed std specs (trusted, listed)
pub open spec fn ascii_alpha(c: char) -> bool { ('a' <= c && c <= 'z') || ('A' <= c && c <= 'Z') }
pub assume_specification [char::is_ascii_alphabetic] (c: &char) -> (r: bool)
    ensures r == ascii_alpha(*c);
pub assume_specification [u8::is_ascii_uppercase] (c: &u8) -> (r: bool)
    ensures r == (65 <= *c <= 90);
pub assume_specification<'b> [<std::string::String as PartialEq<&str>>::eq] (a: &std::string::String, b: &&str) -> (r: bool)
    ensures r == (a@ == b@);
// text(): NUL replacement is specified only as "returns" (no panic); results unconstrained
pub assume_specification<P: std::str::pattern::Pattern> [str::contains] (s: &str, p: P) -> bool;
pub assume_specification<P: std::str::pattern::Pattern> [str::replace] (s: &str, p: P, to: &str) -> std::string::String;
pub assume_specification [std::string::String::len] (s: &std::string::String) -> (r: usize)
    ensures r == vstd::utf8::encode_utf8(s@).len();
pub assume_specification [std::string::String::as_bytes] (s: &std::string::String) -> (r: &[u8])
    ensures r@ == vstd::utf8::encode_utf8(s@);
pub open spec fn vec_cloned<T: Clone>(a: Seq<T>, b: Seq<T>) -> bool {
    a.len() == b.len() && forall|i: int| 0 <= i < a.len() ==> cloned::<T>(#[trigger] a[i], b[i])
}
pub assume_specification<T: Clone> [<[T]>::to_vec] (s: &[T]) -> (r: std::vec::Vec<T>)
    ensures vec_cloned(s@, r@);
pub broadcast proof fn lemma_vec_cloned_u8(a: Seq<u8>, b: Seq<u8>)
    requires #[trigger] vec_cloned(a, b),
    ensures a == b,
{
    assert(a =~= b);
}

//@@ item src/html/error.rs :: enum HtmlParseError
//@@ item src/html/error.rs :: type Result
impl vstd::std_specs::convert::FromSpecImpl<std::string::FromUtf8Error> for HtmlParseError {
    open spec fn obeys_from_spec() -> bool { false }
    open spec fn from_spec(v: std::string::FromUtf8Error) -> Self { HtmlParseError::FromUtf8Error(v) }
}
impl From<std::string::FromUtf8Error> for HtmlParseError {
    //@@ fn src/html/error.rs :: impl From<std::string::FromUtf8Error> for HtmlParseError / fn from
}
//@@ item src/html/mod.rs :: enum TokenType
//@| opt keepattrs
//@@ item src/html/mod.rs :: struct Error
//@@ item src/html/mod.rs :: enum ErrorKind
//@@ item src/html/mod.rs :: struct Attribute
//@@ item src/html/mod.rs :: struct Token
//@@ item src/html/mod.rs :: struct Span
// R1: #[derive(Clone)] on Span is dropped (Verus cannot see derive output); the derive expansion is the
// field-wise clone below (structural stand-in for the derived impl, verified, listed in the trusted base as such)
impl Clone for Span {
    fn clone(&self) -> (r: Span) ensures r == *self { Span { start: self.start, end: self.end } }
}
//@@ item src/html/mod.rs :: struct Tokenizer

pub open spec fn is_ws(b: u8) -> bool { b == 32 || b == 10 || b == 13 || b == 9 || b == 12 }
pub open spec fn span_ok(s: Span, n: int) -> bool { s.start <= s.end <= n }
// ASCII bytes at which attribute keys / values / tag names end (each is a character boundary of valid UTF-8)
pub open spec fn is_val_delim(b: u8) -> bool { is_ws(b) || b == 62 || b == 34 || b == 39 }
pub open spec fn is_name_delim(b: u8) -> bool { is_ws(b) || b == 47 || b == 62 }
pub open spec fn is_key_delim(b: u8) -> bool { is_ws(b) || b == 47 || b == 61 || b == 62 }

pub open spec fn lower_byte(b: u8) -> u8 { if 65 <= b <= 90 { (b + 32) as u8 } else { b } }
// the byte span equals the (lower-case) name modulo ASCII case
pub open spec fn ci_match(b: Seq<u8>, t: Seq<u8>) -> bool {
    b.len() == t.len() && forall|i: int| 0 <= i < b.len() ==> lower_byte(#[trigger] b[i]) == t[i]
}

#[verifier::opaque]
pub open spec fn raw_name(t: Seq<u8>) -> bool { t.len() <= 9 && forall|i: int| 0 <= i < t.len() ==> 97 <= #[trigger] t[i] <= 122 }
pub open spec fn raw_span(b: Seq<u8>) -> bool { b.len() <= 9 && forall|i: int| 0 <= i < b.len() ==> 97 <= lower_byte(#[trigger] b[i]) <= 122 }

// ---- assumed facts about std (trusted, listed)
pub uninterp spec fn spec_lower(s: Seq<char>) -> Seq<char>;
pub assume_specification [str::to_lowercase] (s: &str) -> (r: std::string::String)
    ensures r@ == spec_lower(s@);
pub assume_specification [std::string::String::from_utf8] (v: std::vec::Vec<u8>) -> (r: std::result::Result<std::string::String, std::string::FromUtf8Error>)
    ensures r.is_ok() == vstd::utf8::valid_utf8(v@), r matches Ok(s) ==> vstd::utf8::encode_utf8(s@) == v@;
// AXIOM (str::to_lowercase on ASCII letters): if the UTF-8 bytes of s are ASCII letters, the UTF-8 bytes of
// s.to_lowercase() are those bytes lower-cased
pub open spec fn lower_bytes(b: Seq<u8>) -> Seq<u8> { b.map_values(|x: u8| lower_byte(x)) }
#[verifier::external_body]
pub proof fn axiom_to_lowercase_ascii_letters()
    ensures forall|s: Seq<char>| raw_span(vstd::utf8::encode_utf8(s)) ==> vstd::utf8::encode_utf8(#[trigger] spec_lower(s)) == lower_bytes(vstd::utf8::encode_utf8(s)),
{}
pub proof fn lemma_names_ok()
    ensures raw_name(vstd::utf8::encode_utf8("iframe"@)), raw_name(vstd::utf8::encode_utf8("noembed"@)), raw_name(vstd::utf8::encode_utf8("noframes"@)),
        raw_name(vstd::utf8::encode_utf8("noscript"@)), raw_name(vstd::utf8::encode_utf8("plaintext"@)), raw_name(vstd::utf8::encode_utf8("script"@)),
        raw_name(vstd::utf8::encode_utf8("style"@)), raw_name(vstd::utf8::encode_utf8("textarea"@)), raw_name(vstd::utf8::encode_utf8("title"@)),
        raw_name(vstd::utf8::encode_utf8("xmp"@)),
{
    reveal(raw_name);
    lit_iframe(); lit_noembed(); lit_noframes(); lit_noscript(); lit_plaintext(); lit_script(); lit_style(); lit_textarea(); lit_title(); lit_xmp();
}
pub proof fn lemma_raw_span_lower(b: Seq<u8>)
    requires raw_span(b),
    ensures lower_bytes(b).len() <= 9, forall|i: int| 0 <= i < lower_bytes(b).len() ==> 97 <= #[trigger] lower_bytes(b)[i] <= 122,
{}

// every saved attribute span lies inside the buffer (opaque: preserved by frame equalities, revealed where attributes change)
#[verifier::opaque]
pub open spec fn attrs_ok_f(a: Seq<[Span; 2]>, n: int) -> bool {
    forall|i: int| 0 <= i < a.len() ==> span_ok(#[trigger] a[i][0], n) && span_ok(a[i][1], n)
}
// the raw-text tag is empty or a lower-case ASCII name of at most 9 bytes
#[verifier::opaque]
pub open spec fn tag_ok_f(t: Seq<char>) -> bool {
    &&& vstd::utf8::encode_utf8(t).len() <= 9
    &&& forall|i: int| 0 <= i < vstd::utf8::encode_utf8(t).len() ==> 97 <= #[trigger] vstd::utf8::encode_utf8(t)[i] <= 122
}

impl Tokenizer {
    pub open spec fn data_bytes(&self) -> Seq<u8> { self.reader@.subrange(self.data.start as int, self.data.end as int) }
    pub open spec fn attrs_ok(&self) -> bool { attrs_ok_f(self.attribute@, self.reader.len() as int) }
    // invariant that holds at every call boundary inside the tokenizer
    pub open spec fn wf(&self) -> bool {
        &&& self.raw.start <= self.raw.end <= self.reader.len()
        &&& (self.err.is_some() ==> self.raw.end == self.reader.len())
        &&& self.attrs_ok()
        &&& self.number_attribute_returned <= self.attribute@.len()
        &&& self.tag_ok()
    }
    // invariant at the public API boundary (between calls of next / accessors)
    pub open spec fn pub_wf(&self) -> bool {
        &&& self.wf()
        &&& self.raw.start <= self.data.start <= self.data.end <= self.raw.end
    }
    pub open spec fn is_tag_token(&self) -> bool { self.token == StartTagToken || self.token == EndTagToken || self.token == SelfClosingTagToken }
    pub open spec fn tag_bytes(&self) -> Seq<u8> { vstd::utf8::encode_utf8(self.raw_tag@) }
    pub open spec fn tag_ok(&self) -> bool { tag_ok_f(self.raw_tag@) }
    pub open spec fn in_script(&self) -> bool { self.raw_tag@ == "script"@ }
    // everything except the read position, the error flag and the data span is unchanged
    pub open spec fn frame(&self, o: &Tokenizer) -> bool {
        &&& self.reader == o.reader
        &&& self.raw.start == o.raw.start
        &&& self.raw_tag == o.raw_tag
        &&& self.token == o.token
        &&& self.pending_attribute == o.pending_attribute
        &&& self.attribute == o.attribute
        &&& self.number_attribute_returned == o.number_attribute_returned
        &&& self.text_is_raw == o.text_is_raw
        &&& self.convert_null == o.convert_null
        &&& self.allow_cdata == o.allow_cdata
    }
    pub open spec fn left(&self) -> int { self.reader.len() - self.raw.end }

    //@@ fn src/html/mod.rs :: impl Tokenizer / fn read_byte -> b
    //@| requires old(self).wf(),
    //@| ensures final(self).wf(), final(self).frame(old(self)), final(self).data == old(self).data,
    //@|     old(self).raw.end < old(self).reader.len() ==> final(self).raw.end == old(self).raw.end + 1 && b == old(self).reader[old(self).raw.end as int] && (final(self).err.is_some() == old(self).err.is_some()),
    //@|     old(self).raw.end >= old(self).reader.len() ==> final(self).raw.end == old(self).raw.end && final(self).err.is_some() && b == 0,

    //@@ fn src/html/mod.rs :: impl Tokenizer / fn skip_white_space
    //@| requires old(self).wf(),
    //@| ensures final(self).wf(), final(self).frame(old(self)), final(self).data == old(self).data,
    //@|     final(self).raw.end >= old(self).raw.end,
    //@|     old(self).err.is_some() ==> final(self).raw.end == old(self).raw.end,
    //@|     forall|i: int| old(self).raw.end <= i < final(self).raw.end ==> is_ws(#[trigger] final(self).reader[i]),
    //@|     final(self).err.is_none() ==> final(self).raw.end < final(self).reader.len() && !is_ws(final(self).reader[final(self).raw.end as int]),
    //@| loop 0: invariant self.wf(), self.frame(old(self)), self.data == old(self).data, self.raw.end >= old(self).raw.end, self.err.is_none(), old(self).err.is_none(),
    //@|         forall|i: int| old(self).raw.end <= i < self.raw.end ==> is_ws(#[trigger] self.reader[i]),
    //@|     decreases self.left(),

    //@@ fn src/html/mod.rs :: impl Tokenizer / fn read_until_close_angle
    //@| requires old(self).wf(),
    //@| ensures final(self).wf(), final(self).frame(old(self)),
    //@|     final(self).raw.end >= old(self).raw.end,
    //@|     final(self).data.start == old(self).raw.end, final(self).data.start <= final(self).data.end <= final(self).raw.end,
    //@|     final(self).err.is_none() ==> final(self).raw.end > old(self).raw.end,
    //@| loop 0: invariant self.wf(), self.frame(old(self)), self.raw.end >= old(self).raw.end, self.data.start == old(self).raw.end,
    //@|         self.raw.end > old(self).raw.end ==> self.err.is_none(),
    //@|     decreases self.left() + (if self.err.is_none() { 1int } else { 0int }),

    //@@ fn src/html/mod.rs :: impl Tokenizer / fn read_tag_name
    //@| requires old(self).wf(), old(self).err.is_none(), old(self).raw.end >= 1,
    //@| ensures final(self).wf(), final(self).frame(old(self)),
    //@|     final(self).raw.end >= old(self).raw.end,
    //@|     final(self).data.start == old(self).raw.end - 1, final(self).data.start < final(self).data.end <= final(self).raw.end,
    //@|     // accessor clause: the name span ends at the end of input (error) or exactly at an ASCII delimiter, never inside a multi-byte character
    //@|     final(self).err.is_none() ==> final(self).data.end < final(self).reader.len() && is_name_delim(final(self).reader[final(self).data.end as int]),
    //@| loop 0: invariant self.wf(), self.frame(old(self)), self.raw.end >= old(self).raw.end, self.err.is_none(), self.data.start == old(self).raw.end - 1,
    //@|     decreases self.left(),

    //@@ fn src/html/mod.rs :: impl Tokenizer / fn read_tag_name_attr_key
    //@| requires old(self).wf(), old(self).err.is_none(),
    //@| ensures final(self).wf(), final(self).reader == old(self).reader, final(self).raw.start == old(self).raw.start, final(self).raw_tag == old(self).raw_tag,
    //@|     final(self).token == old(self).token, final(self).attribute == old(self).attribute, final(self).number_attribute_returned == old(self).number_attribute_returned,
    //@|     final(self).data == old(self).data, final(self).pending_attribute[1] == old(self).pending_attribute[1],
    //@|     final(self).raw.end >= old(self).raw.end,
    //@|     final(self).pending_attribute[0].start == old(self).raw.end, final(self).pending_attribute[0].start <= final(self).pending_attribute[0].end <= final(self).raw.end,
    //@|     final(self).err.is_some() || final(self).raw.end > old(self).raw.end || (final(self).raw.end < final(self).reader.len() && (final(self).reader[final(self).raw.end as int] == 61 || final(self).reader[final(self).raw.end as int] == 62)),
    //@|     // the key span ends exactly at an ASCII delimiter unless the input ended
    //@|     final(self).err.is_none() ==> final(self).pending_attribute[0].end < final(self).reader.len() && is_key_delim(final(self).reader[final(self).pending_attribute[0].end as int]),
    //@| loop 0: invariant self.wf(), self.err.is_none(), self.reader == old(self).reader, self.raw.start == old(self).raw.start, self.raw_tag == old(self).raw_tag,
    //@|         self.token == old(self).token, self.attribute == old(self).attribute, self.number_attribute_returned == old(self).number_attribute_returned,
    //@|         self.data == old(self).data, self.pending_attribute[1] == old(self).pending_attribute[1],
    //@|         self.raw.end >= old(self).raw.end, self.pending_attribute[0].start == old(self).raw.end,
    //@|     decreases self.left(),

    //@@ fn src/html/mod.rs :: impl Tokenizer / fn read_tag_name_attr_value
    //@| requires old(self).wf(),
    //@| ensures final(self).wf(), final(self).reader == old(self).reader, final(self).raw.start == old(self).raw.start, final(self).raw_tag == old(self).raw_tag,
    //@|     final(self).token == old(self).token, final(self).attribute == old(self).attribute, final(self).number_attribute_returned == old(self).number_attribute_returned,
    //@|     final(self).data == old(self).data, final(self).pending_attribute[0] == old(self).pending_attribute[0],
    //@|     final(self).raw.end >= old(self).raw.end,
    //@|     final(self).pending_attribute[1].start <= final(self).pending_attribute[1].end <= final(self).raw.end,
    //@|     old(self).raw.end < old(self).reader.len() && old(self).reader[old(self).raw.end as int] == 61 ==> final(self).err.is_some() || final(self).raw.end > old(self).raw.end,
    //@|     // a non-empty value span ends exactly at an ASCII delimiter (quote, white space or '>') unless the input ended
    //@|     final(self).err.is_none() && final(self).pending_attribute[1].start < final(self).pending_attribute[1].end ==> final(self).pending_attribute[1].end < final(self).reader.len() && is_val_delim(final(self).reader[final(self).pending_attribute[1].end as int]),
    //@| loop 0: invariant self.wf(), self.err.is_none(), self.reader == old(self).reader, self.raw.start == old(self).raw.start, self.raw_tag == old(self).raw_tag,
    //@|         self.token == old(self).token, self.attribute == old(self).attribute, self.number_attribute_returned == old(self).number_attribute_returned,
    //@|         self.data == old(self).data, self.pending_attribute[0] == old(self).pending_attribute[0],
    //@|         self.raw.end > old(self).raw.end, self.pending_attribute[1].start <= self.raw.end, quote == '\'' || quote == '"',
    //@|     decreases self.left(),
    //@| loop 1: invariant self.wf(), self.err.is_none(), self.reader == old(self).reader, self.raw.start == old(self).raw.start, self.raw_tag == old(self).raw_tag,
    //@|         self.token == old(self).token, self.attribute == old(self).attribute, self.number_attribute_returned == old(self).number_attribute_returned,
    //@|         self.data == old(self).data, self.pending_attribute[0] == old(self).pending_attribute[0],
    //@|         self.raw.end > old(self).raw.end, self.pending_attribute[1].start < self.raw.end,
    //@|     decreases self.left(),

    //@@ fn src/html/mod.rs :: impl Tokenizer / fn read_tag
    //@| requires old(self).wf(), old(self).err.is_none(), old(self).raw.end >= 1,
    //@| ensures final(self).wf(), final(self).reader == old(self).reader, final(self).raw.start == old(self).raw.start, final(self).raw_tag == old(self).raw_tag,
    //@|     final(self).token == old(self).token,
    //@|     final(self).raw.end >= old(self).raw.end,
    //@|     final(self).data.start == old(self).raw.end - 1, final(self).data.start < final(self).data.end <= final(self).raw.end,
    //@|     final(self).number_attribute_returned == 0,
    //@|     !save_attr ==> final(self).attribute@.len() == 0,
    //@| entry proof { reveal(attrs_ok_f); }
    //@| loophead 0: proof { reveal(attrs_ok_f); }
    //@| loop 0: invariant self.wf(), self.err.is_none(), self.reader == old(self).reader, self.raw.start == old(self).raw.start, self.raw_tag == old(self).raw_tag,
    //@|         self.token == old(self).token, self.raw.end >= old(self).raw.end,
    //@|         self.data.start == old(self).raw.end - 1, self.data.start < self.data.end <= self.raw.end,
    //@|         self.number_attribute_returned == 0, !save_attr ==> self.attribute@.len() == 0,
    //@|     decreases self.left(),

    //@@ fn src/html/mod.rs :: impl Tokenizer / fn read_comment
    //@| requires old(self).wf(), old(self).err.is_none(), old(self).raw.end >= 4,
    //@| ensures final(self).wf(), final(self).frame(old(self)),
    //@|     final(self).raw.end >= old(self).raw.end,
    //@|     final(self).data.start == old(self).raw.end, final(self).data.start <= final(self).data.end <= final(self).raw.end,
    //@| loop 0: invariant_except_break self.err.is_none(), dash_count <= self.raw.end - old(self).raw.end + 2,
    //@|     invariant self.wf(), self.frame(old(self)), self.raw.end >= old(self).raw.end, self.data.start == old(self).raw.end, old(self).raw.end >= 4,
    //@|     ensures self.wf(), self.frame(old(self)), self.raw.end >= old(self).raw.end, self.data.start == old(self).raw.end, self.data.end <= self.raw.end,
    //@|     decreases self.left(),

    //@@ fn src/html/mod.rs :: impl Tokenizer / fn read_doc_type -> r
    //@| requires old(self).wf(), old(self).raw.start <= old(self).data.start <= old(self).raw.end, old(self).err.is_none() ==> old(self).data.start == old(self).raw.end,
    //@| ensures final(self).wf(), final(self).frame(old(self)),
    //@|     final(self).raw.end >= old(self).raw.end,
    //@|     r ==> final(self).raw.end >= old(self).raw.end + 7 && old(self).data.start <= final(self).data.start <= final(self).data.end <= final(self).raw.end,
    //@|     !r ==> final(self).data.start == old(self).data.start,
    //@|     !r && final(self).err.is_none() ==> final(self).raw.end == old(self).raw.end,
    //@|     !r && final(self).err.is_some() ==> final(self).data.end == final(self).raw.end,
    //@| loop 0: invariant self.wf(), self.frame(old(self)), self.raw.end == old(self).raw.end + i, self.data.start == old(self).data.start,
    //@|         i > 0 ==> self.err.is_none(), self.err.is_none() ==> old(self).err.is_none(),
    //@|         old(self).raw.start <= old(self).data.start <= old(self).raw.end, old(self).err.is_none() ==> old(self).data.start == old(self).raw.end,
    //@|         doctype@ == "DOCTYPE"@,
    //@| loophead 0: proof { lit_DOCTYPE(); }
    //@| loopend 0: proof { lit_DOCTYPE(); }

    //@@ fn src/html/mod.rs :: impl Tokenizer / fn read_cdata -> r
    //@| requires old(self).wf(), old(self).raw.start <= old(self).data.start <= old(self).raw.end, old(self).err.is_none() ==> old(self).data.start == old(self).raw.end,
    //@| ensures final(self).wf(), final(self).frame(old(self)),
    //@|     final(self).raw.end >= old(self).raw.end,
    //@|     r ==> final(self).raw.end >= old(self).raw.end + 7 && old(self).data.start <= final(self).data.start <= final(self).data.end <= final(self).raw.end,
    //@|     !r ==> final(self).data.start == old(self).data.start,
    //@|     !r && final(self).err.is_none() ==> final(self).raw.end == old(self).raw.end,
    //@|     !r && final(self).err.is_some() ==> final(self).data.end == final(self).raw.end,
    //@| loop 0: invariant self.wf(), self.frame(old(self)), self.raw.end == old(self).raw.end + i, self.data.start == old(self).data.start,
    //@|         i > 0 ==> self.err.is_none(), self.err.is_none() ==> old(self).err.is_none(),
    //@|         old(self).raw.start <= old(self).data.start <= old(self).raw.end, old(self).err.is_none() ==> old(self).data.start == old(self).raw.end,
    //@|         cdata@ == "[CDATA["@,
    //@| loophead 0: proof { lit_x5b43444154415b(); }
    //@| loopend 0: proof { lit_x5b43444154415b(); }
    //@| loop 1: invariant self.wf(), self.frame(old(self)), self.err.is_none(), self.raw.end >= old(self).raw.end + 7, old(self).data.start <= self.data.start <= self.raw.end,
    //@|         brackets <= self.raw.end - self.data.start,
    //@|     decreases self.left(),

    //@@ fn src/html/mod.rs :: impl Tokenizer / fn read_markup_declaration -> r
    //@| requires old(self).wf(), old(self).err.is_none(), old(self).raw.end >= 2,
    //@| ensures final(self).wf(), final(self).reader == old(self).reader, final(self).raw.start == old(self).raw.start, final(self).raw_tag == old(self).raw_tag,
    //@|     final(self).attribute == old(self).attribute, final(self).number_attribute_returned == old(self).number_attribute_returned,
    //@|     final(self).raw.end >= old(self).raw.end,
    //@|     old(self).raw.end <= final(self).data.start <= final(self).data.end <= final(self).raw.end,
    //@|     r == CommentToken || r == DoctypeToken || r == TextToken,

    //@@ fn src/html/mod.rs :: impl Tokenizer / fn read_raw_end_tag -> r
    //@| requires old(self).wf(), old(self).err.is_none(), old(self).raw.end >= old(self).raw.start + 2,
    //@| ensures final(self).wf(), final(self).frame(old(self)), final(self).data == old(self).data,
    //@|     r ==> final(self).err.is_none() && final(self).raw.end == old(self).raw.end - 2 && old(self).raw.end + old(self).tag_bytes().len() + 1 <= old(self).reader.len(),
    //@|     !r ==> final(self).raw.end >= old(self).raw.end,
    //@| entry proof { reveal(tag_ok_f); }
    //@| loop 0: invariant self.wf(), self.frame(old(self)), self.data == old(self).data, self.err.is_none(), self.raw.end == old(self).raw.end + i,
    //@|         old(self).raw.end >= old(self).raw.start + 2,
    //@| loophead 0: proof { reveal(tag_ok_f); }
    //@| loopend 0: proof { reveal(tag_ok_f); }

    //@@ fn src/html/mod.rs :: impl Tokenizer / fn read_script_data
    //@| requires old(self).wf(), old(self).err.is_none(), old(self).in_script(),
    //@| ensures final(self).wf(), final(self).frame(old(self)), final(self).data == old(self).data,
    //@| decreases old(self).left(), 0int,

    //@@ fn src/html/mod.rs :: impl Tokenizer / fn read_script_data_less_than_sign
    //@| requires old(self).wf(), old(self).err.is_none(), old(self).in_script(), old(self).raw.end >= old(self).raw.start + 1,
    //@| ensures final(self).wf(), final(self).frame(old(self)), final(self).data == old(self).data,
    //@| decreases old(self).left(), 2int,

    //@@ fn src/html/mod.rs :: impl Tokenizer / fn read_script_data_end_tag_open
    //@| requires old(self).wf(), old(self).err.is_none(), old(self).in_script(), old(self).raw.end >= old(self).raw.start + 2,
    //@| ensures final(self).wf(), final(self).frame(old(self)), final(self).data == old(self).data,
    //@| decreases old(self).left(), 1int,

    //@@ fn src/html/mod.rs :: impl Tokenizer / fn read_script_data_escape_start
    //@| requires old(self).wf(), old(self).err.is_none(), old(self).in_script(),
    //@| ensures final(self).wf(), final(self).frame(old(self)), final(self).data == old(self).data,
    //@| decreases old(self).left(), 1int,

    //@@ fn src/html/mod.rs :: impl Tokenizer / fn read_script_data_escape_start_dash
    //@| requires old(self).wf(), old(self).err.is_none(), old(self).in_script(),
    //@| ensures final(self).wf(), final(self).frame(old(self)), final(self).data == old(self).data,
    //@| decreases old(self).left(), 1int,

    //@@ fn src/html/mod.rs :: impl Tokenizer / fn read_script_data_escaped
    //@| requires old(self).wf(), old(self).err.is_none(), old(self).in_script(),
    //@| ensures final(self).wf(), final(self).frame(old(self)), final(self).data == old(self).data,
    //@| decreases old(self).left(), 0int,

    //@@ fn src/html/mod.rs :: impl Tokenizer / fn read_script_data_escaped_dash
    //@| requires old(self).wf(), old(self).err.is_none(), old(self).in_script(),
    //@| ensures final(self).wf(), final(self).frame(old(self)), final(self).data == old(self).data,
    //@| decreases old(self).left(), 0int,

    //@@ fn src/html/mod.rs :: impl Tokenizer / fn read_script_data_escaped_dash_dash
    //@| requires old(self).wf(), old(self).err.is_none(), old(self).in_script(),
    //@| ensures final(self).wf(), final(self).frame(old(self)), final(self).data == old(self).data,
    //@| decreases old(self).left(), 0int,

    //@@ fn src/html/mod.rs :: impl Tokenizer / fn read_script_data_escaped_less_than_sign
    //@| requires old(self).wf(), old(self).err.is_none(), old(self).in_script(), old(self).raw.end >= old(self).raw.start + 1,
    //@| ensures final(self).wf(), final(self).frame(old(self)), final(self).data == old(self).data,
    //@| decreases old(self).left(), 3int,

    //@@ fn src/html/mod.rs :: impl Tokenizer / fn read_script_data_escaped_end_tag_open
    //@| requires old(self).wf(), old(self).err.is_none(), old(self).in_script(), old(self).raw.end >= old(self).raw.start + 2,
    //@| ensures final(self).wf(), final(self).frame(old(self)), final(self).data == old(self).data,
    //@| decreases old(self).left(), 1int,

    //@@ fn src/html/mod.rs :: impl Tokenizer / fn read_script_data_double_escape_start
    //@| requires old(self).wf(), old(self).err.is_none(), old(self).in_script(), old(self).raw.end >= old(self).raw.start + 1,
    //@| ensures final(self).wf(), final(self).frame(old(self)), final(self).data == old(self).data,
    //@| decreases old(self).left() + 1, 2int,
    //@| loop 0: invariant self.wf(), self.frame(old(self)), self.data == old(self).data, self.err.is_none(), self.in_script(), self.raw.end == old(self).raw.end - 1 + i,
    //@|         old(self).raw.end >= old(self).raw.start + 1,

    //@@ fn src/html/mod.rs :: impl Tokenizer / fn read_script_data_double_escaped
    //@| requires old(self).wf(), old(self).err.is_none(), old(self).in_script(),
    //@| ensures final(self).wf(), final(self).frame(old(self)), final(self).data == old(self).data,
    //@| decreases old(self).left(), 0int,

    //@@ fn src/html/mod.rs :: impl Tokenizer / fn read_script_data_double_escaped_dash
    //@| requires old(self).wf(), old(self).err.is_none(), old(self).in_script(),
    //@| ensures final(self).wf(), final(self).frame(old(self)), final(self).data == old(self).data,
    //@| decreases old(self).left(), 0int,

    //@@ fn src/html/mod.rs :: impl Tokenizer / fn read_script_data_double_escaped_dash_dash
    //@| requires old(self).wf(), old(self).err.is_none(), old(self).in_script(),
    //@| ensures final(self).wf(), final(self).frame(old(self)), final(self).data == old(self).data,
    //@| decreases old(self).left(), 0int,

    //@@ fn src/html/mod.rs :: impl Tokenizer / fn read_script_data_double_escaped_less_than_sign
    //@| requires old(self).wf(), old(self).err.is_none(), old(self).in_script(), old(self).raw.end >= old(self).raw.start + 1,
    //@| ensures final(self).wf(), final(self).frame(old(self)), final(self).data == old(self).data,
    //@| decreases old(self).left(), 2int,

    //@@ fn src/html/mod.rs :: impl Tokenizer / fn read_script_data_double_escaped_end
    //@| requires old(self).wf(), old(self).err.is_none(), old(self).in_script(), old(self).raw.end >= old(self).raw.start + 2,
    //@| ensures final(self).wf(), final(self).frame(old(self)), final(self).data == old(self).data,
    //@| decreases old(self).left(), 1int,
    //@| entry proof { lit_script(); }

    //@@ fn src/html/mod.rs :: impl Tokenizer / fn read_script
    //@| requires old(self).wf(), old(self).err.is_none(), old(self).in_script(),
    //@| ensures final(self).wf(), final(self).frame(old(self)), final(self).data.start == old(self).data.start, final(self).data.end == final(self).raw.end,

    //@@ fn src/html/mod.rs :: impl Tokenizer / fn read_raw_or_cdata
    //@| requires old(self).wf(), old(self).err.is_none(),
    //@| ensures final(self).wf(), final(self).reader == old(self).reader, final(self).raw.start == old(self).raw.start, final(self).token == old(self).token,
    //@|     final(self).attribute == old(self).attribute, final(self).number_attribute_returned == old(self).number_attribute_returned,
    //@|     final(self).data.start == old(self).data.start, final(self).data.end == final(self).raw.end,
    //@|     final(self).raw_tag@.len() == 0,
    //@| entry proof { lit_empty(); lit_script(); reveal(tag_ok_f); }
    //@| loopend 0: proof { reveal(tag_ok_f); lit_empty(); }
    //@| loop 0: invariant_except_break self.err.is_none(),
    //@|     invariant self.wf(), self.frame(old(self)), self.data == old(self).data,
    //@|     decreases self.left(),

    //@@ fn src/html/mod.rs :: impl Tokenizer / fn start_tag_in -> r
    //@| opt r5:0
    //@| attr #[verifier::loop_isolation(false)]
    //@| requires self.data.start <= self.data.end <= self.reader.len(),
    //@|     forall|k: int| 0 <= k < ss@.len() ==> raw_name(vstd::utf8::encode_utf8(#[trigger] ss@[k]@)),
    //@| ensures r ==> exists|k: int| 0 <= k < ss@.len() && ci_match(self.data_bytes(), vstd::utf8::encode_utf8(#[trigger] ss@[k]@)),
    //@|     r ==> raw_span(self.data_bytes()),
    //@| loopbefore 0: let ghost ss0 = ss@;
    //@| before `return true;`: proof { reveal(raw_name); }
    //@| loop 0: invariant 0 <= vf_it0_idx <= vf_it0_rem0.len(), vf_it0.remaining() == vf_it0_rem0.skip(vf_it0_idx), vf_it0_rem0 == ss0,
    //@|         self.data.start <= self.data.end <= self.reader.len(),
    //@|         forall|k: int| 0 <= k < ss0.len() ==> raw_name(vstd::utf8::encode_utf8(#[trigger] ss0[k]@)),
    //@|     decreases ss0.len() - vf_it0_idx,
    //@| loop 1: invariant self.data.start <= self.data.end <= self.reader.len(), self.data.end - self.data.start == vstd::utf8::encode_utf8(s@).len(),
    //@|         forall|j: int| 0 <= j < i ==> lower_byte(#[trigger] self.data_bytes()[j]) == vstd::utf8::encode_utf8(s@)[j],

    //@@ fn src/html/mod.rs :: impl Tokenizer / fn read_start_tag -> r
    //@| requires old(self).wf(), old(self).err.is_none(), old(self).raw.end >= old(self).raw.start + 2,
    //@| ensures final(self).wf(), final(self).reader == old(self).reader, final(self).raw.start == old(self).raw.start, final(self).token == old(self).token,
    //@|     final(self).raw.end >= old(self).raw.end,
    //@|     old(self).raw.end - 1 <= final(self).data.start < final(self).data.end <= final(self).raw.end,
    //@|     r matches Ok(t) ==> (t == ErrorToken || t == StartTagToken || t == SelfClosingTagToken),
    //@|     r matches Ok(t) ==> (t == ErrorToken ==> final(self).err.is_some()),
    //@| entry broadcast use lemma_vec_cloned_u8; proof { lemma_names_ok(); reveal(tag_ok_f); }
    //@| after `self.raw_tag = String::from_utf8(self.reader[self.data.start..self.data.end].to_vec())?.to_lowercase();`: proof { axiom_to_lowercase_ascii_letters(); lemma_raw_span_lower(self.data_bytes()); }

    //@@ fn src/html/mod.rs :: impl Tokenizer / fn next -> r
    //@| requires old(self).wf(),
    //@| ensures final(self).pub_wf(), final(self).reader == old(self).reader,
    //@|     final(self).raw.start == old(self).raw.end,
    //@|     r matches Ok(t) ==> t == final(self).token && t != TokenType::NoneToken,
    //@|     r matches Ok(t) ==> (t != ErrorToken ==> final(self).raw.start < final(self).raw.end),
    //@|     r matches Ok(t) ==> (t == ErrorToken ==> final(self).err.is_some()),
    //@|     r matches Ok(t) ==> (final(self).is_tag_token() ==> final(self).data.start < final(self).data.end),
    //@|     old(self).err.is_some() ==> r.is_ok() && final(self).raw.end == old(self).raw.end,
    //@| entry proof { lit_plaintext(); lit_empty(); }
    //@| loop 0: invariant self.wf(), self.reader == old(self).reader, self.raw.start == old(self).raw.end, self.data.start == self.raw.start, self.data.end == self.raw.start,
    //@|         old(self).err.is_none(),
    //@|     decreases self.left() + (if self.err.is_none() { 1int } else { 0int }),
    //@| loop 1: invariant self.wf(), self.reader == old(self).reader, self.raw.start == old(self).raw.end, self.data.start == self.raw.start, self.data.start <= self.data.end <= self.raw.end,
    //@|         old(self).err.is_none(),
    //@|     ensures self.err.is_some(),
    //@|     decreases self.left(),

    //@@ fn src/html/mod.rs :: impl Tokenizer / fn buffered -> r
    //@| requires self.wf(),
    //@| ensures r@ == self.reader@.subrange(self.raw.end as int, self.reader.len() as int),
    //@| entry broadcast use lemma_vec_cloned_u8;

    //@@ fn src/html/mod.rs :: impl Tokenizer / fn buffered_as_string -> r
    //@| requires self.wf(),
    //@| ensures r.is_ok() == vstd::utf8::valid_utf8(self.reader@.subrange(self.raw.end as int, self.reader.len() as int)),
    //@|     r matches Ok(s) ==> vstd::utf8::encode_utf8(s@) == self.reader@.subrange(self.raw.end as int, self.reader.len() as int),

    //@@ fn src/html/mod.rs :: impl Tokenizer / fn raw -> r
    //@| requires self.wf(),
    //@| ensures r@ == self.reader@.subrange(self.raw.start as int, self.raw.end as int),
    //@| entry broadcast use lemma_vec_cloned_u8;

    //@@ fn src/html/mod.rs :: impl Tokenizer / fn raw_as_string -> r
    //@| requires self.wf(),
    //@| ensures r.is_ok() == vstd::utf8::valid_utf8(self.reader@.subrange(self.raw.start as int, self.raw.end as int)),
    //@|     r matches Ok(s) ==> vstd::utf8::encode_utf8(s@) == self.reader@.subrange(self.raw.start as int, self.raw.end as int),

    //@@ fn src/html/mod.rs :: impl Tokenizer / fn tag_name -> r
    //@| requires old(self).pub_wf(),
    //@| ensures final(self).pub_wf(), final(self).reader == old(self).reader, final(self).raw == old(self).raw, final(self).token == old(self).token,
    //@|     final(self).attribute == old(self).attribute, final(self).number_attribute_returned == old(self).number_attribute_returned,
    //@|     vstd::utf8::valid_utf8(old(self).data_bytes()) ==> r.is_ok(),
    //@|     r matches Ok(p) ==> (p.0.is_some() == (old(self).data.start < old(self).data.end && old(self).is_tag_token())),
    //@|     r matches Ok(p) ==> p.1 == (p.0.is_some() && old(self).number_attribute_returned < old(self).attribute@.len()),
    //@| entry broadcast use lemma_vec_cloned_u8;

    //@@ fn src/html/mod.rs :: impl Tokenizer / fn tag_attr -> r
    //@| requires old(self).pub_wf(),
    //@| ensures final(self).pub_wf(), final(self).reader == old(self).reader, final(self).raw == old(self).raw, final(self).token == old(self).token,
    //@|     final(self).attribute == old(self).attribute, final(self).data == old(self).data,
    //@|     final(self).number_attribute_returned >= old(self).number_attribute_returned,
    //@|     r matches Ok(p) ==> (p.2 ==> final(self).number_attribute_returned == old(self).number_attribute_returned + 1 && final(self).number_attribute_returned < final(self).attribute@.len()),
    //@| entry broadcast use lemma_vec_cloned_u8; proof { reveal(attrs_ok_f); }

    //@@ fn src/html/mod.rs :: impl Tokenizer / fn text -> r
    //@| requires old(self).pub_wf(),
    //@| ensures final(self).pub_wf(), final(self).reader == old(self).reader, final(self).raw == old(self).raw, final(self).token == old(self).token,
    //@|     final(self).attribute == old(self).attribute, final(self).number_attribute_returned == old(self).number_attribute_returned,
    //@|     vstd::utf8::valid_utf8(old(self).data_bytes()) ==> r.is_ok(),
    //@| entry broadcast use lemma_vec_cloned_u8;

    //@@ fn src/html/mod.rs :: impl Tokenizer / fn token -> r
    //@| requires old(self).pub_wf(),
    //@| ensures final(self).pub_wf(), final(self).reader == old(self).reader, final(self).raw == old(self).raw,
    //@| loop 0: invariant self.pub_wf(), self.reader == old(self).reader, self.raw == old(self).raw, self.token == old(self).token,
    //@|         has_attr ==> self.number_attribute_returned < self.attribute@.len(),
    //@|     decreases (if has_attr { 1int } else { 0int }) + self.attribute@.len() - self.number_attribute_returned,

    //@@ fn src/html/mod.rs :: impl Tokenizer / fn err -> r
    //@| ensures r.is_some() == self.err.is_some(),

    //@@ fn src/html/mod.rs :: impl Tokenizer / fn allow_cdata
    //@| requires old(self).wf(),
    //@| ensures final(self).wf(), final(self).reader == old(self).reader, final(self).raw == old(self).raw, final(self).err.is_some() == old(self).err.is_some(),

    //@@ fn src/html/mod.rs :: impl Tokenizer / fn new -> r
    //@| ensures r.wf(), r.reader == reader, r.raw.start == 0, r.raw.end == 0, r.err.is_none(),
    //@| entry proof { lit_empty(); }

    // new_fragment is NOT under contract: `match` on str patterns and `String::clone_from` are outside Verus' subset.
    // Assumed contract (trusted, listed): it builds the initial state; only `Tokenizer::new` (empty context) calls it in /repo.
    //@@ fn src/html/mod.rs :: impl Tokenizer / fn new_fragment -> r
    //@| opt external_body
    //@| ensures r.wf(), r.reader == reader, r.raw.start == 0, r.raw.end == 0, r.err.is_none(),
}

// ---------------------------------------------------------------- property lemma of C16 (client proof; uses ONLY the contracts above)
// Tokenising any byte string: the raw spans in order, followed by the unread remainder, reproduce the input;
// at most one non-error token per input byte; the call sequence terminates.
pub fn c16_lossless_total(input: Vec<u8>) -> (out: (Vec<u8>, usize, usize))
    requires input.len() < usize::MAX,
    ensures
        out.0@ + input@.subrange(out.1 as int, input.len() as int) == input@,   // concat(raw spans) ++ remainder == input
        out.1 <= input.len(),
        out.2 <= input.len() + 1,                                                // #tokens (incl. the final error token) <= |b| + 1
{
    let ghost b = input@;
    let mut t = Tokenizer::new(input);
    let mut acc: Vec<u8> = Vec::new();
    let mut n: usize = 0;
    let mut done = false;
    while !done
        invariant t.wf(), t.reader@ == b, acc@ == b.subrange(0, t.raw.end as int), !done ==> n <= t.raw.end,
            done ==> n <= t.raw.end + 1, t.raw.end <= b.len(), b.len() < usize::MAX,
        decreases (b.len() - t.raw.end) + (if done { 0int } else { 1int }),
    {
        let ghost before = t.raw.end;
        let r = t.next();
        let mut raw = t.raw();
        proof { assert(b.subrange(0, before as int) + b.subrange(before as int, t.raw.end as int) =~= b.subrange(0, t.raw.end as int)); }
        acc.append(&mut raw);
        match r {
            Ok(tok) => {
                match tok {
                    ErrorToken => { done = true; }
                    _ => {}
                }
                n = n + 1;
            }
            Err(_) => { done = true; }
        }
    }
    proof { assert(b.subrange(0, t.raw.end as int) + b.subrange(t.raw.end as int, b.len() as int) =~= b); }
    (acc, t.raw.end, n)
}

// ---- PINS: functions of /repo this unit (or the property it serves) only ASSUMES something about — a hand-written shim stands for them, or nothing at
// all does. The assumption was made for one text of each; the token hash ties it to that text: a change makes the unit UNDECIDED (exit 2), never OK.
//@@ pin src/html/mod.rs :: impl Tokenizer / fn new_fragment = 9d6a8b571410
//@@ strlits

} // verus!
fn main() {}

//@@ include ../common/prelude.rs
// Unit `tok` — property C16 (HTML tokenizer lossless and total), feeds C07 (no panic / termination)
use crate::TokenType::{CommentToken, DoctypeToken, EndTagToken, ErrorToken, SelfClosingTagToken, StartTagToken, TextToken};
verus! {

#[verifier::external_type_specification]
#[verifier::external_body]
pub struct ExIoError(std::io::Error);

// ---------------------------------------------------------------- assumed std specs (trusted, listed)
pub open spec fn ascii_alpha(c: char) -> bool { ('a' <= c && c <= 'z') || ('A' <= c && c <= 'Z') }
pub assume_specification [char::is_ascii_alphabetic] (c: &char) -> (r: bool)
    ensures r == ascii_alpha(*c);
pub assume_specification [u8::is_ascii_uppercase] (c: &u8) -> (r: bool)
    ensures r == (65 <= *c <= 90);
pub assume_specification<'b> [<std::string::String as PartialEq<&str>>::eq] (a: &std::string::String, b: &&str) -> (r: bool)
    ensures r == (a@ == b@);
pub assume_specification [std::string::String::len] (s: &std::string::String) -> (r: usize)
    ensures r == vstd::utf8::encode_utf8(s@).len();
pub assume_specification [std::string::String::as_bytes] (s: &std::string::String) -> (r: &[u8])
    ensures r@ == vstd::utf8::encode_utf8(s@);
pub assume_specification<T: Clone> [<[T]>::to_vec] (s: &[T]) -> (r: std::vec::Vec<T>)
    ensures r@.len() == s@.len(), forall|i: int| 0 <= i < s@.len() ==> cloned::<T>(#[trigger] s@[i], r@[i]);

//@@ item src/html/mod.rs :: enum TokenType
//@| opt keepattrs
//@@ item src/html/mod.rs :: struct Error
//@@ item src/html/mod.rs :: enum ErrorKind
//@@ item src/html/mod.rs :: struct Attribute
//@@ item src/html/mod.rs :: struct Token
//@@ item src/html/mod.rs :: struct Span
// R1: #[derive(Clone)] on Span is dropped (Verus cannot see derive output); the derive expansion is the
// field-wise clone below (structural stand-in for the derived impl, verified, listed in the trusted base as such)
impl Clone for Span {
    fn clone(&self) -> (r: Span) ensures r == *self { Span { start: self.start, end: self.end } }
}
//@@ item src/html/mod.rs :: struct Tokenizer

pub open spec fn is_ws(b: u8) -> bool { b == 32 || b == 10 || b == 13 || b == 9 || b == 12 }
pub open spec fn span_ok(s: Span, n: int) -> bool { s.start <= s.end <= n }

impl Tokenizer {
    pub open spec fn attrs_ok(&self) -> bool {
        forall|i: int| 0 <= i < self.attribute@.len() ==> span_ok(#[trigger] self.attribute@[i][0], self.reader.len() as int) && span_ok(self.attribute@[i][1], self.reader.len() as int)
    }
    // invariant that holds at every call boundary inside the tokenizer
    pub open spec fn wf(&self) -> bool {
        &&& self.raw.start <= self.raw.end <= self.reader.len()
        &&& (self.err.is_some() ==> self.raw.end == self.reader.len())
        &&& self.attrs_ok()
        &&& self.number_attribute_returned <= self.attribute@.len()
        &&& self.tag_ok()
    }
    pub open spec fn tag_bytes(&self) -> Seq<u8> { vstd::utf8::encode_utf8(self.raw_tag@) }
    // the raw-text tag is empty or a lower-case ASCII name of at most 9 bytes
    pub open spec fn tag_ok(&self) -> bool {
        &&& self.tag_bytes().len() <= 9
        &&& forall|i: int| 0 <= i < self.tag_bytes().len() ==> 97 <= #[trigger] self.tag_bytes()[i] <= 122
    }
    pub open spec fn in_script(&self) -> bool { self.raw_tag@ == "script"@ }
    // everything except the read position, the error flag and the data span is unchanged
    pub open spec fn frame(&self, o: &Tokenizer) -> bool {
        &&& self.reader == o.reader
        &&& self.raw.start == o.raw.start
        &&& self.raw_tag == o.raw_tag
        &&& self.token == o.token
        &&& self.pending_attribute == o.pending_attribute
        &&& self.attribute == o.attribute
        &&& self.number_attribute_returned == o.number_attribute_returned
        &&& self.text_is_raw == o.text_is_raw
        &&& self.convert_null == o.convert_null
        &&& self.allow_cdata == o.allow_cdata
    }
    pub open spec fn left(&self) -> int { self.reader.len() - self.raw.end }

    //@@ fn src/html/mod.rs :: impl Tokenizer / fn read_byte -> b
    //@| requires old(self).wf(),
    //@| ensures final(self).wf(), final(self).frame(old(self)), final(self).data == old(self).data,
    //@|     old(self).raw.end < old(self).reader.len() ==> final(self).raw.end == old(self).raw.end + 1 && b == old(self).reader[old(self).raw.end as int] && (final(self).err.is_some() == old(self).err.is_some()),
    //@|     old(self).raw.end >= old(self).reader.len() ==> final(self).raw.end == old(self).raw.end && final(self).err.is_some() && b == 0,

    //@@ fn src/html/mod.rs :: impl Tokenizer / fn skip_white_space
    //@| requires old(self).wf(),
    //@| ensures final(self).wf(), final(self).frame(old(self)), final(self).data == old(self).data,
    //@|     final(self).raw.end >= old(self).raw.end,
    //@|     old(self).err.is_some() ==> final(self).raw.end == old(self).raw.end,
    //@|     forall|i: int| old(self).raw.end <= i < final(self).raw.end ==> is_ws(#[trigger] final(self).reader[i]),
    //@|     final(self).err.is_none() ==> final(self).raw.end < final(self).reader.len() && !is_ws(final(self).reader[final(self).raw.end as int]),
    //@| loop 0: invariant self.wf(), self.frame(old(self)), self.data == old(self).data, self.raw.end >= old(self).raw.end, self.err.is_none(), old(self).err.is_none(),
    //@|         forall|i: int| old(self).raw.end <= i < self.raw.end ==> is_ws(#[trigger] self.reader[i]),
    //@|     decreases self.left(),

    //@@ fn src/html/mod.rs :: impl Tokenizer / fn read_until_close_angle
    //@| requires old(self).wf(),
    //@| ensures final(self).wf(), final(self).frame(old(self)),
    //@|     final(self).raw.end >= old(self).raw.end,
    //@|     final(self).data.start == old(self).raw.end, final(self).data.start <= final(self).data.end <= final(self).raw.end,
    //@|     final(self).err.is_none() ==> final(self).raw.end > old(self).raw.end,
    //@| loop 0: invariant self.wf(), self.frame(old(self)), self.raw.end >= old(self).raw.end, self.data.start == old(self).raw.end,
    //@|         self.raw.end > old(self).raw.end ==> self.err.is_none(),
    //@|     decreases self.left() + (if self.err.is_none() { 1int } else { 0int }),

    //@@ fn src/html/mod.rs :: impl Tokenizer / fn read_tag_name
    //@| requires old(self).wf(), old(self).err.is_none(), old(self).raw.end >= 1,
    //@| ensures final(self).wf(), final(self).frame(old(self)),
    //@|     final(self).raw.end >= old(self).raw.end,
    //@|     final(self).data.start == old(self).raw.end - 1, final(self).data.start < final(self).data.end <= final(self).raw.end,
    //@| loop 0: invariant self.wf(), self.frame(old(self)), self.raw.end >= old(self).raw.end, self.err.is_none(), self.data.start == old(self).raw.end - 1,
    //@|     decreases self.left(),

    //@@ fn src/html/mod.rs :: impl Tokenizer / fn read_tag_name_attr_key
    //@| requires old(self).wf(), old(self).err.is_none(),
    //@| ensures final(self).wf(), final(self).reader == old(self).reader, final(self).raw.start == old(self).raw.start, final(self).raw_tag == old(self).raw_tag,
    //@|     final(self).token == old(self).token, final(self).attribute == old(self).attribute, final(self).number_attribute_returned == old(self).number_attribute_returned,
    //@|     final(self).data == old(self).data, final(self).pending_attribute[1] == old(self).pending_attribute[1],
    //@|     final(self).raw.end >= old(self).raw.end,
    //@|     final(self).pending_attribute[0].start == old(self).raw.end, final(self).pending_attribute[0].start <= final(self).pending_attribute[0].end <= final(self).raw.end,
    //@|     final(self).err.is_some() || final(self).raw.end > old(self).raw.end || (final(self).raw.end < final(self).reader.len() && (final(self).reader[final(self).raw.end as int] == 61 || final(self).reader[final(self).raw.end as int] == 62)),
    //@| loop 0: invariant self.wf(), self.err.is_none(), self.reader == old(self).reader, self.raw.start == old(self).raw.start, self.raw_tag == old(self).raw_tag,
    //@|         self.token == old(self).token, self.attribute == old(self).attribute, self.number_attribute_returned == old(self).number_attribute_returned,
    //@|         self.data == old(self).data, self.pending_attribute[1] == old(self).pending_attribute[1],
    //@|         self.raw.end >= old(self).raw.end, self.pending_attribute[0].start == old(self).raw.end,
    //@|     decreases self.left(),

    //@@ fn src/html/mod.rs :: impl Tokenizer / fn read_tag_name_attr_value
    //@| requires old(self).wf(),
    //@| ensures final(self).wf(), final(self).reader == old(self).reader, final(self).raw.start == old(self).raw.start, final(self).raw_tag == old(self).raw_tag,
    //@|     final(self).token == old(self).token, final(self).attribute == old(self).attribute, final(self).number_attribute_returned == old(self).number_attribute_returned,
    //@|     final(self).data == old(self).data, final(self).pending_attribute[0] == old(self).pending_attribute[0],
    //@|     final(self).raw.end >= old(self).raw.end,
    //@|     final(self).pending_attribute[1].start <= final(self).pending_attribute[1].end <= final(self).raw.end,
    //@|     old(self).raw.end < old(self).reader.len() && old(self).reader[old(self).raw.end as int] == 61 ==> final(self).err.is_some() || final(self).raw.end > old(self).raw.end,
    //@| loop 0: invariant self.wf(), self.err.is_none(), self.reader == old(self).reader, self.raw.start == old(self).raw.start, self.raw_tag == old(self).raw_tag,
    //@|         self.token == old(self).token, self.attribute == old(self).attribute, self.number_attribute_returned == old(self).number_attribute_returned,
    //@|         self.data == old(self).data, self.pending_attribute[0] == old(self).pending_attribute[0],
    //@|         self.raw.end > old(self).raw.end, self.pending_attribute[1].start <= self.raw.end,
    //@|     decreases self.left(),
    //@| loop 1: invariant self.wf(), self.err.is_none(), self.reader == old(self).reader, self.raw.start == old(self).raw.start, self.raw_tag == old(self).raw_tag,
    //@|         self.token == old(self).token, self.attribute == old(self).attribute, self.number_attribute_returned == old(self).number_attribute_returned,
    //@|         self.data == old(self).data, self.pending_attribute[0] == old(self).pending_attribute[0],
    //@|         self.raw.end > old(self).raw.end, self.pending_attribute[1].start < self.raw.end,
    //@|     decreases self.left(),

    //@@ fn src/html/mod.rs :: impl Tokenizer / fn read_tag
    //@| requires old(self).wf(), old(self).err.is_none(), old(self).raw.end >= 1,
    //@| ensures final(self).wf(), final(self).reader == old(self).reader, final(self).raw.start == old(self).raw.start, final(self).raw_tag == old(self).raw_tag,
    //@|     final(self).token == old(self).token,
    //@|     final(self).raw.end >= old(self).raw.end,
    //@|     final(self).data.start == old(self).raw.end - 1, final(self).data.start < final(self).data.end <= final(self).raw.end,
    //@|     final(self).number_attribute_returned == 0,
    //@|     !save_attr ==> final(self).attribute@.len() == 0,
    //@| loop 0: invariant self.wf(), self.err.is_none(), self.reader == old(self).reader, self.raw.start == old(self).raw.start, self.raw_tag == old(self).raw_tag,
    //@|         self.token == old(self).token, self.raw.end >= old(self).raw.end,
    //@|         self.data.start == old(self).raw.end - 1, self.data.start < self.data.end <= self.raw.end,
    //@|         self.number_attribute_returned == 0, !save_attr ==> self.attribute@.len() == 0,
    //@|     decreases self.left(),

    //@@ fn src/html/mod.rs :: impl Tokenizer / fn read_comment
    //@| requires old(self).wf(), old(self).err.is_none(), old(self).raw.end >= 4,
    //@| ensures final(self).wf(), final(self).frame(old(self)),
    //@|     final(self).raw.end >= old(self).raw.end,
    //@|     final(self).data.start == old(self).raw.end, final(self).data.start <= final(self).data.end <= final(self).raw.end,
    //@| loop 0: invariant_except_break self.err.is_none(), dash_count <= self.raw.end - old(self).raw.end + 2,
    //@|     invariant self.wf(), self.frame(old(self)), self.raw.end >= old(self).raw.end, self.data.start == old(self).raw.end, old(self).raw.end >= 4,
    //@|     ensures self.wf(), self.frame(old(self)), self.raw.end >= old(self).raw.end, self.data.start == old(self).raw.end, self.data.end <= self.raw.end,
    //@|     decreases self.left(),

    //@@ fn src/html/mod.rs :: impl Tokenizer / fn read_doc_type -> r
    //@| requires old(self).wf(), old(self).raw.start <= old(self).data.start <= old(self).raw.end, old(self).err.is_none() ==> old(self).data.start == old(self).raw.end,
    //@| ensures final(self).wf(), final(self).frame(old(self)),
    //@|     final(self).raw.end >= old(self).raw.end,
    //@|     r ==> final(self).raw.end >= old(self).raw.end + 7 && final(self).data.start <= final(self).data.end <= final(self).raw.end,
    //@|     !r ==> final(self).data.start == old(self).data.start,
    //@|     !r && final(self).err.is_none() ==> final(self).raw.end == old(self).raw.end,
    //@|     !r && final(self).err.is_some() ==> final(self).data.end == final(self).raw.end,
    //@| loop 0: invariant self.wf(), self.frame(old(self)), self.raw.end == old(self).raw.end + i, self.data.start == old(self).data.start,
    //@|         i > 0 ==> self.err.is_none(), self.err.is_none() ==> old(self).err.is_none(),
    //@|         old(self).raw.start <= old(self).data.start <= old(self).raw.end, old(self).err.is_none() ==> old(self).data.start == old(self).raw.end,
    //@|         doctype@ == "DOCTYPE"@,
    //@| loophead 0: proof { lit_DOCTYPE(); }
    //@| loopend 0: proof { lit_DOCTYPE(); }

    //@@ fn src/html/mod.rs :: impl Tokenizer / fn read_cdata -> r
    //@| requires old(self).wf(), old(self).raw.start <= old(self).data.start <= old(self).raw.end, old(self).err.is_none() ==> old(self).data.start == old(self).raw.end,
    //@| ensures final(self).wf(), final(self).frame(old(self)),
    //@|     final(self).raw.end >= old(self).raw.end,
    //@|     r ==> final(self).raw.end >= old(self).raw.end + 7 && final(self).data.start <= final(self).data.end <= final(self).raw.end,
    //@|     !r ==> final(self).data.start == old(self).data.start,
    //@|     !r && final(self).err.is_none() ==> final(self).raw.end == old(self).raw.end,
    //@|     !r && final(self).err.is_some() ==> final(self).data.end == final(self).raw.end,
    //@| loop 0: invariant self.wf(), self.frame(old(self)), self.raw.end == old(self).raw.end + i, self.data.start == old(self).data.start,
    //@|         i > 0 ==> self.err.is_none(), self.err.is_none() ==> old(self).err.is_none(),
    //@|         old(self).raw.start <= old(self).data.start <= old(self).raw.end, old(self).err.is_none() ==> old(self).data.start == old(self).raw.end,
    //@|         cdata@ == "[CDATA["@,
    //@| loophead 0: proof { lit_x5b43444154415b(); }
    //@| loopend 0: proof { lit_x5b43444154415b(); }
    //@| loop 1: invariant self.wf(), self.frame(old(self)), self.err.is_none(), self.raw.end >= old(self).raw.end + 7, self.data.start <= self.raw.end,
    //@|         brackets <= self.raw.end - self.data.start,
    //@|     decreases self.left(),

    //@@ fn src/html/mod.rs :: impl Tokenizer / fn read_markup_declaration -> r
    //@| requires old(self).wf(), old(self).err.is_none(), old(self).raw.end >= 2,
    //@| ensures final(self).wf(), final(self).reader == old(self).reader, final(self).raw.start == old(self).raw.start, final(self).raw_tag == old(self).raw_tag,
    //@|     final(self).attribute == old(self).attribute, final(self).number_attribute_returned == old(self).number_attribute_returned,
    //@|     final(self).raw.end >= old(self).raw.end,
    //@|     final(self).data.start <= final(self).data.end <= final(self).raw.end,
    //@|     r == CommentToken || r == DoctypeToken || r == TextToken,

    //@@ fn src/html/mod.rs :: impl Tokenizer / fn read_raw_end_tag -> r
    //@| requires old(self).wf(), old(self).err.is_none(), old(self).raw.end >= old(self).raw.start + 2,
    //@| ensures final(self).wf(), final(self).frame(old(self)), final(self).data == old(self).data,
    //@|     r ==> final(self).err.is_none() && final(self).raw.end == old(self).raw.end - 2 && old(self).raw.end + old(self).tag_bytes().len() + 1 <= old(self).reader.len(),
    //@|     !r ==> final(self).raw.end >= old(self).raw.end,
    //@| loop 0: invariant self.wf(), self.frame(old(self)), self.data == old(self).data, self.err.is_none(), self.raw.end == old(self).raw.end + i,
    //@|         old(self).raw.end >= old(self).raw.start + 2,

    //@@ fn src/html/mod.rs :: impl Tokenizer / fn read_script_data
    //@| requires old(self).wf(), old(self).err.is_none(), old(self).in_script(),
    //@| ensures final(self).wf(), final(self).frame(old(self)), final(self).data == old(self).data,
    //@| decreases old(self).left(), 0int,

    //@@ fn src/html/mod.rs :: impl Tokenizer / fn read_script_data_less_than_sign
    //@| requires old(self).wf(), old(self).err.is_none(), old(self).in_script(), old(self).raw.end >= old(self).raw.start + 1,
    //@| ensures final(self).wf(), final(self).frame(old(self)), final(self).data == old(self).data,
    //@| decreases old(self).left(), 2int,

    //@@ fn src/html/mod.rs :: impl Tokenizer / fn read_script_data_end_tag_open
    //@| requires old(self).wf(), old(self).err.is_none(), old(self).in_script(), old(self).raw.end >= old(self).raw.start + 2,
    //@| ensures final(self).wf(), final(self).frame(old(self)), final(self).data == old(self).data,
    //@| decreases old(self).left(), 1int,

    //@@ fn src/html/mod.rs :: impl Tokenizer / fn read_script_data_escape_start
    //@| requires old(self).wf(), old(self).err.is_none(), old(self).in_script(),
    //@| ensures final(self).wf(), final(self).frame(old(self)), final(self).data == old(self).data,
    //@| decreases old(self).left(), 1int,

    //@@ fn src/html/mod.rs :: impl Tokenizer / fn read_script_data_escape_start_dash
    //@| requires old(self).wf(), old(self).err.is_none(), old(self).in_script(),
    //@| ensures final(self).wf(), final(self).frame(old(self)), final(self).data == old(self).data,
    //@| decreases old(self).left(), 1int,

    //@@ fn src/html/mod.rs :: impl Tokenizer / fn read_script_data_escaped
    //@| requires old(self).wf(), old(self).err.is_none(), old(self).in_script(),
    //@| ensures final(self).wf(), final(self).frame(old(self)), final(self).data == old(self).data,
    //@| decreases old(self).left(), 0int,

    //@@ fn src/html/mod.rs :: impl Tokenizer / fn read_script_data_escaped_dash
    //@| requires old(self).wf(), old(self).err.is_none(), old(self).in_script(),
    //@| ensures final(self).wf(), final(self).frame(old(self)), final(self).data == old(self).data,
    //@| decreases old(self).left(), 0int,

    //@@ fn src/html/mod.rs :: impl Tokenizer / fn read_script_data_escaped_dash_dash
    //@| requires old(self).wf(), old(self).err.is_none(), old(self).in_script(),
    //@| ensures final(self).wf(), final(self).frame(old(self)), final(self).data == old(self).data,
    //@| decreases old(self).left(), 0int,

    //@@ fn src/html/mod.rs :: impl Tokenizer / fn read_script_data_escaped_less_than_sign
    //@| requires old(self).wf(), old(self).err.is_none(), old(self).in_script(), old(self).raw.end >= old(self).raw.start + 1,
    //@| ensures final(self).wf(), final(self).frame(old(self)), final(self).data == old(self).data,
    //@| decreases old(self).left(), 3int,

    //@@ fn src/html/mod.rs :: impl Tokenizer / fn read_script_data_escaped_end_tag_open
    //@| requires old(self).wf(), old(self).err.is_none(), old(self).in_script(), old(self).raw.end >= old(self).raw.start + 2,
    //@| ensures final(self).wf(), final(self).frame(old(self)), final(self).data == old(self).data,
    //@| decreases old(self).left(), 1int,

    //@@ fn src/html/mod.rs :: impl Tokenizer / fn read_script_data_double_escape_start
    //@| requires old(self).wf(), old(self).err.is_none(), old(self).in_script(), old(self).raw.end >= old(self).raw.start + 1,
    //@| ensures final(self).wf(), final(self).frame(old(self)), final(self).data == old(self).data,
    //@| decreases old(self).left() + 1, 2int,
    //@| loop 0: invariant self.wf(), self.frame(old(self)), self.data == old(self).data, self.err.is_none(), self.in_script(), self.raw.end == old(self).raw.end - 1 + i,
    //@|         old(self).raw.end >= old(self).raw.start + 1,

    //@@ fn src/html/mod.rs :: impl Tokenizer / fn read_script_data_double_escaped
    //@| requires old(self).wf(), old(self).err.is_none(), old(self).in_script(),
    //@| ensures final(self).wf(), final(self).frame(old(self)), final(self).data == old(self).data,
    //@| decreases old(self).left(), 0int,

    //@@ fn src/html/mod.rs :: impl Tokenizer / fn read_script_data_double_escaped_dash
    //@| requires old(self).wf(), old(self).err.is_none(), old(self).in_script(),
    //@| ensures final(self).wf(), final(self).frame(old(self)), final(self).data == old(self).data,
    //@| decreases old(self).left(), 0int,

    //@@ fn src/html/mod.rs :: impl Tokenizer / fn read_script_data_double_escaped_dash_dash
    //@| requires old(self).wf(), old(self).err.is_none(), old(self).in_script(),
    //@| ensures final(self).wf(), final(self).frame(old(self)), final(self).data == old(self).data,
    //@| decreases old(self).left(), 0int,

    //@@ fn src/html/mod.rs :: impl Tokenizer / fn read_script_data_double_escaped_less_than_sign
    //@| requires old(self).wf(), old(self).err.is_none(), old(self).in_script(), old(self).raw.end >= old(self).raw.start + 1,
    //@| ensures final(self).wf(), final(self).frame(old(self)), final(self).data == old(self).data,
    //@| decreases old(self).left(), 2int,

    //@@ fn src/html/mod.rs :: impl Tokenizer / fn read_script_data_double_escaped_end
    //@| requires old(self).wf(), old(self).err.is_none(), old(self).in_script(), old(self).raw.end >= old(self).raw.start + 2,
    //@| ensures final(self).wf(), final(self).frame(old(self)), final(self).data == old(self).data,
    //@| decreases old(self).left(), 1int,
    //@| entry proof { lit_script(); }

    //@@ fn src/html/mod.rs :: impl Tokenizer / fn read_script
    //@| requires old(self).wf(), old(self).err.is_none(), old(self).in_script(),
    //@| ensures final(self).wf(), final(self).frame(old(self)), final(self).data.start == old(self).data.start, final(self).data.end == final(self).raw.end,

    //@@ fn src/html/mod.rs :: impl Tokenizer / fn read_raw_or_cdata
    //@| requires old(self).wf(), old(self).err.is_none(),
    //@| ensures final(self).wf(), final(self).reader == old(self).reader, final(self).raw.start == old(self).raw.start, final(self).token == old(self).token,
    //@|     final(self).attribute == old(self).attribute, final(self).number_attribute_returned == old(self).number_attribute_returned,
    //@|     final(self).data.start == old(self).data.start, final(self).data.end == final(self).raw.end,
    //@|     final(self).raw_tag@.len() == 0,
    //@| entry proof { lit_empty(); lit_script(); }
    //@| loop 0: invariant_except_break self.err.is_none(),
    //@|     invariant self.wf(), self.frame(old(self)), self.data == old(self).data,
    //@|     decreases self.left(),
}

//@@ strlits

} // verus!
fn main() {}
